// Red-team candidates for PROPERTY C11 (domain separation between ciphersuites, interfaces and sizes).
// Every test ASSERTS WHAT THE PROPERTY REQUIRES: a failing test is a demonstrated violation.
//
// Reading used for "verifier(x) = Err": the verifier has to RETURN an error value; a panic inside the
// library while replaying an artefact elsewhere would be reported as a violation too (none was seen).
#![allow(non_snake_case)]
#![cfg(all(feature = "bbsplus", feature = "bbsplus_blind"))]

use bls12_381_plus::{G1Projective, Scalar};
use elliptic_curve::group::Curve;
use std::collections::HashSet;
use zkryptium::{
    bbsplus::{
        blind::prepare_parameters,
        ciphersuites::{BbsCiphersuite, Bls12381Sha256, Bls12381Shake256},
        commitment::BlindFactor,
        generators::Generators,
        keys::{BBSplusPublicKey, BBSplusSecretKey},
    },
    keys::pair::KeyPair,
    schemes::{
        algorithms::BBSplus,
        generics::{BlindSignature, Commitment, PoKSignature, Signature},
    },
    utils::{
        message::bbsplus_message::BBSplusMessage,
        util::bbsplus_utils::{calculate_blind_challenge, hash_to_scalar},
    },
};

type Sha = Bls12381Sha256;
type Shake = Bls12381Shake256;

// ---------------------------------------------------------------------------------------------
// fixed material
// ---------------------------------------------------------------------------------------------

/// The SAME key pair is used under both ciphersuites and both interfaces: the worst case for domain separation.
fn keys() -> (BBSplusSecretKey, BBSplusPublicKey) {
    let sk = BBSplusSecretKey::from_bytes(
        &hex::decode("60e55110f76883a13d030b2f6bd11883422d5abde717569fc0731f51237169fc").unwrap(),
    )
    .unwrap();
    let pk = sk.public_key();
    (sk, pk)
}

fn msgs(n: usize) -> Vec<Vec<u8>> {
    (0..n).map(|i| format!("message number {}", i).into_bytes()).collect()
}

fn cmsgs(n: usize) -> Vec<Vec<u8>> {
    (0..n).map(|i| format!("committed message {}", i).into_bytes()).collect()
}

const HEADER: &[u8] = b"a header";
const PH: &[u8] = b"a presentation header";

fn c(p: &G1Projective) -> [u8; 48] {
    p.to_affine().to_compressed()
}

fn p1<CS: BbsCiphersuite>() -> G1Projective {
    Generators::create::<CS>(0, None).g1_base_point
}

// ---------------------------------------------------------------------------------------------
// 1. generators: prefix stability
// ---------------------------------------------------------------------------------------------

fn prefix_stable<CS: BbsCiphersuite>(api_id: Option<&[u8]>) {
    let big = Generators::create::<CS>(40, api_id);
    assert_eq!(big.values.len(), 40);
    for k in [0usize, 1, 2, 3, 7, 10, 11, 39, 40] {
        let small = Generators::create::<CS>(k, api_id);
        assert_eq!(small.values.len(), k);
        assert_eq!(small.values[..], big.values[..k], "first {} generators depend on the count", k);
        assert_eq!(small.g1_base_point, big.g1_base_point);
    }
}

#[test]
fn generators_prefix_does_not_depend_on_count() {
    for api in all_api_ids::<Sha>() {
        prefix_stable::<Sha>(api.as_deref());
    }
    for api in all_api_ids::<Shake>() {
        prefix_stable::<Shake>(api.as_deref());
    }
}

/// the count crosses the one byte / two byte boundary of the counter (255, 256, 257)
#[test]
fn generators_prefix_across_the_256_boundary() {
    let a = Generators::create::<Sha>(258, Some(Sha::API_ID));
    let b = Generators::create::<Sha>(255, Some(Sha::API_ID));
    let d = Generators::create::<Sha>(256, Some(Sha::API_ID));
    assert_eq!(a.values[..255], b.values[..]);
    assert_eq!(a.values[..256], d.values[..]);
    let set: HashSet<[u8; 48]> = a.values.iter().map(c).collect();
    assert_eq!(set.len(), 258);
    let a = Generators::create::<Shake>(258, Some(Shake::API_ID_BLIND));
    let d = Generators::create::<Shake>(256, Some(Shake::API_ID_BLIND));
    assert_eq!(a.values[..256], d.values[..]);
    let set: HashSet<[u8; 48]> = a.values.iter().map(c).collect();
    assert_eq!(set.len(), 258);
}

// ---------------------------------------------------------------------------------------------
// 2./3. generators: no identity, no P1, no BP1, no repetition, disjoint between (suite, api_id)
// ---------------------------------------------------------------------------------------------

/// The api_ids the library itself uses for a suite, and some a caller may choose.
fn all_api_ids<CS: BbsCiphersuite>() -> Vec<Option<Vec<u8>>> {
    vec![
        None,
        Some(CS::API_ID.to_vec()),
        Some(CS::API_ID_BLIND.to_vec()),
        Some([b"BLIND_", CS::API_ID_BLIND].concat()),
        Some([b"BLIND_", CS::API_ID].concat()),
        Some(CS::ID.to_vec()),
        // an api_id shaped after the seed that produces P1
        Some([CS::API_ID, b"BP_"].concat()),
        // api_ids that overlap with the fixed suffixes of the three strings derived from them
        Some(b"SIG_GENERATOR_".to_vec()),
        Some(b"MESSAGE_GENERATOR_SEED".to_vec()),
        Some([CS::API_ID, b"SIG_GENERATOR_SEED_"].concat()),
        Some([CS::API_ID, b"SIG_GENERATOR_DST_"].concat()),
        Some([CS::API_ID, b"MESSAGE_GENERATOR_SEED"].concat()),
        // one byte, and the same with a trailing zero
        Some(vec![0u8]),
        Some(vec![0u8, 0u8]),
        // longer than the 255 bytes a DST may have: the two differ only in the last byte
        Some(vec![0x41u8; 300]),
        Some([vec![0x41u8; 299], vec![0x42u8]].concat()),
        // exactly at the limit for the longest of the derived strings
        Some(vec![0x43u8; 255 - b"MESSAGE_GENERATOR_SEED".len()]),
        Some(vec![0x43u8; 256 - b"MESSAGE_GENERATOR_SEED".len()]),
        Some(vec![0x43u8; 255 - b"SIG_GENERATOR_SEED_".len()]),
        Some(vec![0x43u8; 256 - b"SIG_GENERATOR_SEED_".len()]),
    ]
}

fn collect_sets<CS: BbsCiphersuite>(name: &str, n: usize, out: &mut Vec<(String, Vec<[u8; 48]>)>) {
    let P1 = p1::<CS>();
    let P1_sha = p1::<Sha>();
    let P1_shake = p1::<Shake>();
    let BP1 = G1Projective::GENERATOR;
    for api in all_api_ids::<CS>() {
        let g = Generators::create::<CS>(n, api.as_deref());
        assert_eq!(g.values.len(), n);
        assert_eq!(g.g1_base_point, P1);
        for (i, v) in g.values.iter().enumerate() {
            assert!(!bool::from(v.is_identity()), "{} {:?}: generator {} is the identity", name, api, i);
            assert!(bool::from(v.to_affine().is_torsion_free()), "{} {:?}: generator {} outside the subgroup", name, api, i);
            assert_ne!(*v, P1_sha, "{} {:?}: generator {} is P1 (sha)", name, api, i);
            assert_ne!(*v, P1_shake, "{} {:?}: generator {} is P1 (shake)", name, api, i);
            assert_ne!(*v, BP1, "{} {:?}: generator {} is the base point of G1", name, api, i);
            assert_ne!(*v, -P1_sha);
            assert_ne!(*v, -P1_shake);
            assert_ne!(*v, -BP1);
        }
        let label = format!("{} {:?}", name, api.as_ref().map(|a| String::from_utf8_lossy(a).to_string()));
        out.push((label, g.values.iter().map(c).collect()));
    }
}

#[test]
fn generators_are_clean_and_disjoint_between_suites_and_api_ids() {
    let n = 48;
    let mut sets: Vec<(String, Vec<[u8; 48]>)> = Vec::new();
    collect_sets::<Sha>("sha", n, &mut sets);
    collect_sets::<Shake>("shake", n, &mut sets);

    assert_ne!(p1::<Sha>(), p1::<Shake>());
    assert!(!bool::from(p1::<Sha>().is_identity()));
    assert!(!bool::from(p1::<Shake>().is_identity()));
    assert_ne!(p1::<Sha>(), G1Projective::GENERATOR);
    assert_ne!(p1::<Shake>(), G1Projective::GENERATOR);

    // no repetition inside a set, also up to sign
    for (label, s) in &sets {
        let h: HashSet<&[u8; 48]> = s.iter().collect();
        assert_eq!(h.len(), s.len(), "{}: repeated generator", label);
        // x coordinate only (the sign bit is bit 5 of the first byte)
        let hx: HashSet<Vec<u8>> = s
            .iter()
            .map(|b| {
                let mut v = b.to_vec();
                v[0] &= 0b1101_1111;
                v
            })
            .collect();
        assert_eq!(hx.len(), s.len(), "{}: a generator and its opposite", label);
    }

    // pairwise disjoint
    let mut seen: std::collections::HashMap<[u8; 48], &str> = std::collections::HashMap::new();
    for (label, s) in &sets {
        for p in s {
            if let Some(other) = seen.insert(*p, label.as_str()) {
                // `None` is documented to stand for the empty api_id: that is the same api_id, not another one
                panic!("generator shared by {} and {}", other, label);
            }
        }
    }
}

/// The absent api_id is the empty one (documented default): the only pair of arguments that gives the same list.
#[test]
fn generators_none_is_the_empty_api_id_and_nothing_else() {
    let a = Generators::create::<Sha>(5, None);
    let b = Generators::create::<Sha>(5, Some(b""));
    assert_eq!(a, b);
    let z = Generators::create::<Sha>(5, Some(&[0u8]));
    assert!(a.values.iter().all(|p| !z.values.contains(p)));
}

/// The generators the two interfaces of one suite really use (through the public prepare_parameters).
#[test]
fn interface_generator_lists_share_no_element() {
    fn run<CS: BbsCiphersuite>() {
        let L = 6;
        let M = 5;
        let (_, blind_all) = prepare_parameters::<CS>(None, None, L + 1, M + 1, None, Some(CS::API_ID_BLIND)).unwrap();
        assert_eq!(blind_all.values.len(), L + M + 2);
        let plain = Generators::create::<CS>(L + M + 2, Some(CS::API_ID));
        let h: HashSet<[u8; 48]> = blind_all.values.iter().map(c).collect();
        assert_eq!(h.len(), L + M + 2, "Q1, H_i, Q2, J_j have a repetition");
        for p in &plain.values {
            assert!(!h.contains(&c(p)));
        }
        assert!(!h.contains(&c(&blind_all.g1_base_point)));
        // the two halves are the lists `create` gives
        assert_eq!(blind_all.values[..L + 1], Generators::create::<CS>(L + 1, Some(CS::API_ID_BLIND)).values[..]);
        assert_eq!(
            blind_all.values[L + 1..],
            Generators::create::<CS>(M + 1, Some(&[b"BLIND_", CS::API_ID_BLIND].concat())).values[..]
        );
    }
    run::<Sha>();
    run::<Shake>();
    let (_, a) = prepare_parameters::<Sha>(None, None, 4, 4, None, Some(Sha::API_ID_BLIND)).unwrap();
    let (_, b) = prepare_parameters::<Shake>(None, None, 4, 4, None, Some(Shake::API_ID_BLIND)).unwrap();
    assert!(a.values.iter().all(|p| !b.values.contains(p)));
}

// ---------------------------------------------------------------------------------------------
// 4. the scalars derived under different suites / api_ids differ (message mapping, key generation)
// ---------------------------------------------------------------------------------------------

#[test]
fn message_scalars_and_keys_are_separated() {
    let m = msgs(3);
    let a = BBSplusMessage::messages_to_scalar::<Sha>(&m, Sha::API_ID).unwrap();
    let b = BBSplusMessage::messages_to_scalar::<Sha>(&m, Sha::API_ID_BLIND).unwrap();
    let d = BBSplusMessage::messages_to_scalar::<Shake>(&m, Shake::API_ID).unwrap();
    let e = BBSplusMessage::messages_to_scalar::<Shake>(&m, Shake::API_ID_BLIND).unwrap();
    // same hash, the api_id of the other suite
    let f = BBSplusMessage::messages_to_scalar::<Sha>(&m, Shake::API_ID).unwrap();
    let all = [&a, &b, &d, &e, &f];
    for i in 0..all.len() {
        for j in 0..all.len() {
            if i != j {
                for k in 0..3 {
                    assert_ne!(all[i][k], all[j][k]);
                }
            }
        }
    }
    // the single-message sibling agrees with the list form
    for k in 0..3 {
        assert_eq!(BBSplusMessage::map_message_to_scalar_as_hash::<Sha>(&m[k], Sha::API_ID).unwrap(), a[k]);
        assert_eq!(BBSplusMessage::map_message_to_scalar_as_hash::<Shake>(&m[k], Shake::API_ID_BLIND).unwrap(), e[k]);
    }

    let ikm = [7u8; 32];
    let k1 = KeyPair::<BBSplus<Sha>>::generate(&ikm, None, None).unwrap();
    let k2 = KeyPair::<BBSplus<Shake>>::generate(&ikm, None, None).unwrap();
    assert_ne!(k1.private_key().to_bytes(), k2.private_key().to_bytes());
    // the same explicit DST under the two suites
    let k3 = KeyPair::<BBSplus<Sha>>::generate(&ikm, None, Some(b"ONE_DST_")).unwrap();
    let k4 = KeyPair::<BBSplus<Shake>>::generate(&ikm, None, Some(b"ONE_DST_")).unwrap();
    assert_ne!(k3.private_key().to_bytes(), k4.private_key().to_bytes());
    // the helper with one DST under the two hashes
    assert_ne!(
        hash_to_scalar::<Sha>(b"x", b"ONE_DST_").unwrap(),
        hash_to_scalar::<Shake>(b"x", b"ONE_DST_").unwrap()
    );
}

// ---------------------------------------------------------------------------------------------
// honest artefacts
// ---------------------------------------------------------------------------------------------

fn plain_sig<CS: BbsCiphersuite>(n: usize, header: Option<&[u8]>) -> Signature<BBSplus<CS>> {
    let (sk, pk) = keys();
    let s = Signature::<BBSplus<CS>>::sign(Some(&msgs(n)), &sk, &pk, header).unwrap();
    s.verify(&pk, Some(&msgs(n)), header).expect("positive control: plain signature");
    s
}

struct Blind<CS: BbsCiphersuite> {
    sig: BlindSignature<BBSplus<CS>>,
    commitment: Vec<u8>,
    blind: Option<BlindFactor>,
    L: usize,
    M: usize,
}

fn blind_sig<CS: BbsCiphersuite>(L: usize, M: Option<usize>, header: Option<&[u8]>) -> Blind<CS> {
    let (sk, pk) = keys();
    let (commitment, blind) = match M {
        Some(m) => {
            let (cm, b) = Commitment::<BBSplus<CS>>::commit(Some(&cmsgs(m))).unwrap();
            (cm.to_bytes(), Some(b))
        }
        None => (Vec::new(), None),
    };
    let cwp = if M.is_some() { Some(commitment.as_slice()) } else { None };
    let sig = BlindSignature::<BBSplus<CS>>::blind_sign(&sk, &pk, cwp, header, Some(&msgs(L))).unwrap();
    let M = M.unwrap_or(0);
    sig.verify_blind_sign(&pk, header, Some(&msgs(L)), Some(&cmsgs(M)), blind.as_ref())
        .expect("positive control: blind signature");
    Blind { sig, commitment, blind, L, M }
}

// ---------------------------------------------------------------------------------------------
// 5. plain signature under the other suite
// ---------------------------------------------------------------------------------------------

fn plain_sig_other_suite<A: BbsCiphersuite, B: BbsCiphersuite>() {
    let (_, pk) = keys();
    for n in [0usize, 1, 3] {
        for header in [None, Some(HEADER)] {
            let s = plain_sig::<A>(n, header);
            let t = Signature::<BBSplus<B>>::from_bytes(&s.to_bytes()).unwrap();
            assert!(t.verify(&pk, Some(&msgs(n)), header).is_err());
            // the serde form carries no suite either
            let j = serde_json::to_string(&s).unwrap();
            let t: Signature<BBSplus<B>> = serde_json::from_str(&j).unwrap();
            assert!(t.verify(&pk, Some(&msgs(n)), header).is_err());
            if n == 0 {
                assert!(t.verify(&pk, None, header).is_err());
            }
        }
    }
}

#[test]
fn plain_signature_does_not_verify_under_the_other_suite() {
    plain_sig_other_suite::<Sha, Shake>();
    plain_sig_other_suite::<Shake, Sha>();
}

// ---------------------------------------------------------------------------------------------
// 6. plain signature through the blind interface (same suite and other suite)
// ---------------------------------------------------------------------------------------------

fn plain_sig_through_blind<A: BbsCiphersuite, B: BbsCiphersuite>() {
    let (_, pk) = keys();
    let zero = BlindFactor::from_bytes(&[0u8; 32]).unwrap();
    for n in [0usize, 1, 2, 4] {
        for header in [None, Some(HEADER)] {
            let s = plain_sig::<A>(n, header);
            let t = BlindSignature::<BBSplus<B>>::from_bytes(&s.to_bytes()).unwrap();
            let m = msgs(n);
            // every split of the signed list into signer messages and committed messages
            for cut in 0..=n {
                let (signer, committed) = m.split_at(cut);
                for blind in [None, Some(&zero)] {
                    assert!(t.verify_blind_sign(&pk, header, Some(signer), Some(committed), blind).is_err());
                    if committed.is_empty() {
                        assert!(t.verify_blind_sign(&pk, header, Some(signer), None, blind).is_err());
                    }
                    if signer.is_empty() {
                        assert!(t.verify_blind_sign(&pk, header, None, Some(committed), blind).is_err());
                    }
                }
            }
            // one message fewer: the last one plays the part of the prover's blind
            if n > 0 {
                let last = BBSplusMessage::messages_to_scalar::<A>(&m[n - 1..], A::API_ID).unwrap()[0];
                let bf = BlindFactor::from_bytes(&last.to_bytes_be()).unwrap();
                assert!(t.verify_blind_sign(&pk, header, Some(&m[..n - 1]), None, Some(&bf)).is_err());
            }
        }
    }
}

#[test]
fn plain_signature_does_not_verify_through_the_blind_interface() {
    plain_sig_through_blind::<Sha, Sha>();
    plain_sig_through_blind::<Shake, Shake>();
    plain_sig_through_blind::<Sha, Shake>();
    plain_sig_through_blind::<Shake, Sha>();
}

// ---------------------------------------------------------------------------------------------
// 7./8. blind signature through the plain interface, and under the other suite
// ---------------------------------------------------------------------------------------------

fn blind_sig_elsewhere<A: BbsCiphersuite, B: BbsCiphersuite>(same_suite: bool) {
    let (_, pk) = keys();
    for (L, M) in [(0usize, None), (2, None), (0, Some(0usize)), (0, Some(2)), (3, Some(0)), (3, Some(2))] {
        for header in [None, Some(HEADER)] {
            let b = blind_sig::<A>(L, M, header);
            let bytes = b.sig.to_bytes();
            let all: Vec<Vec<u8>> = msgs(b.L).into_iter().chain(cmsgs(b.M)).collect();

            // plain interface of suite B
            let p = Signature::<BBSplus<B>>::from_bytes(&bytes).unwrap();
            assert!(p.verify(&pk, Some(&msgs(b.L)), header).is_err());
            assert!(p.verify(&pk, Some(&all), header).is_err());
            assert!(p.verify(&pk, None, header).is_err());
            // ... with a slot for the prover's blind
            let mut with_blind = msgs(b.L);
            with_blind.push(b.blind.as_ref().map(|x| x.to_bytes().to_vec()).unwrap_or_default());
            with_blind.extend(cmsgs(b.M));
            assert!(p.verify(&pk, Some(&with_blind), header).is_err());

            // blind interface of the other suite
            if !same_suite {
                let q = BlindSignature::<BBSplus<B>>::from_bytes(&bytes).unwrap();
                assert!(q
                    .verify_blind_sign(&pk, header, Some(&msgs(b.L)), Some(&cmsgs(b.M)), b.blind.as_ref())
                    .is_err());
                let j = serde_json::to_string(&b.sig).unwrap();
                let q: BlindSignature<BBSplus<B>> = serde_json::from_str(&j).unwrap();
                assert!(q
                    .verify_blind_sign(&pk, header, Some(&msgs(b.L)), Some(&cmsgs(b.M)), b.blind.as_ref())
                    .is_err());
            }
        }
    }
}

#[test]
fn blind_signature_does_not_verify_through_the_plain_interface() {
    blind_sig_elsewhere::<Sha, Sha>(true);
    blind_sig_elsewhere::<Shake, Shake>(true);
}

#[test]
fn blind_signature_does_not_verify_under_the_other_suite() {
    blind_sig_elsewhere::<Sha, Shake>(false);
    blind_sig_elsewhere::<Shake, Sha>(false);
}

/// sizes: the same blind signature with the border between signer messages and committed messages moved
#[test]
fn blind_signature_is_bound_to_the_split_between_signer_and_committed_messages() {
    fn run<CS: BbsCiphersuite>() {
        let (_, pk) = keys();
        let b = blind_sig::<CS>(3, Some(2), Some(HEADER));
        let all: Vec<Vec<u8>> = msgs(3).into_iter().chain(cmsgs(2)).collect();
        for cut in 0..=5 {
            if cut == 3 {
                continue;
            }
            let (s, cm) = all.split_at(cut);
            assert!(b.sig.verify_blind_sign(&pk, Some(HEADER), Some(s), Some(cm), b.blind.as_ref()).is_err());
        }
        // the blind factor absent, or another one
        assert!(b.sig.verify_blind_sign(&pk, Some(HEADER), Some(&msgs(3)), Some(&cmsgs(2)), None).is_err());
        let other = BlindFactor::from_bytes(&[1u8; 32]).unwrap();
        assert!(b.sig.verify_blind_sign(&pk, Some(HEADER), Some(&msgs(3)), Some(&cmsgs(2)), Some(&other)).is_err());
        // no commitment at all: a blind factor is not accepted in its place
        let n = blind_sig::<CS>(3, None, Some(HEADER));
        assert!(n.sig.verify_blind_sign(&pk, Some(HEADER), Some(&msgs(3)), None, Some(&other)).is_err());
        assert!(n.sig.verify_blind_sign(&pk, Some(HEADER), Some(&msgs(2)), Some(&msgs(3)[2..]), None).is_err());
    }
    run::<Sha>();
    run::<Shake>();
}

// ---------------------------------------------------------------------------------------------
// 9. commitments
// ---------------------------------------------------------------------------------------------

fn commitment_elsewhere<A: BbsCiphersuite, B: BbsCiphersuite>() {
    let (sk, pk) = keys();
    for m in [0usize, 1, 3] {
        let (cm, _) = Commitment::<BBSplus<A>>::commit(Some(&cmsgs(m))).unwrap();
        let bytes = cm.to_bytes();
        // positive control
        BlindSignature::<BBSplus<A>>::blind_sign(&sk, &pk, Some(&bytes), Some(HEADER), Some(&msgs(2)))
            .expect("positive control: commitment");
        let own = Generators::create::<A>(m + 1, Some(&[b"BLIND_", A::API_ID_BLIND].concat()));
        let point = Commitment::<BBSplus<A>>::deserialize_and_validate_commit(Some(&bytes), &own, Some(A::API_ID_BLIND))
            .expect("positive control: commitment validation");
        assert!(!bool::from(point.is_identity()));

        // the signer of the other suite
        assert!(BlindSignature::<BBSplus<B>>::blind_sign(&sk, &pk, Some(&bytes), Some(HEADER), Some(&msgs(2))).is_err());
        assert!(BlindSignature::<BBSplus<B>>::blind_sign(&sk, &pk, Some(&bytes), None, None).is_err());
        // the serde form retyped
        let j = serde_json::to_string(&cm).unwrap();
        let r: Commitment<BBSplus<B>> = serde_json::from_str(&j).unwrap();
        assert_eq!(r.to_bytes(), bytes);

        // the validation helper of the other suite, with every combination of generators and api_id
        let gens: Vec<Generators> = vec![
            own.clone(),
            Generators::create::<B>(m + 1, Some(&[b"BLIND_", B::API_ID_BLIND].concat())),
            Generators::create::<B>(m + 1, Some(&[b"BLIND_", A::API_ID_BLIND].concat())),
            Generators::create::<A>(m + 1, Some(&[b"BLIND_", B::API_ID_BLIND].concat())),
        ];
        for g in &gens {
            for api in [Some(A::API_ID_BLIND), Some(B::API_ID_BLIND), Some(A::API_ID), Some(B::API_ID), None] {
                assert!(Commitment::<BBSplus<B>>::deserialize_and_validate_commit(Some(&bytes), g, api).is_err());
            }
        }
    }
}

#[test]
fn commitment_does_not_verify_under_the_other_suite() {
    commitment_elsewhere::<Sha, Shake>();
    commitment_elsewhere::<Shake, Sha>();
}

/// same suite: the commitment proof is bound to the blind interface (api_id) and to the blind generators
#[test]
fn commitment_is_bound_to_the_blind_api_id_and_generators() {
    fn run<CS: BbsCiphersuite>() {
        for m in [0usize, 2] {
            let (cm, _) = Commitment::<BBSplus<CS>>::commit(Some(&cmsgs(m))).unwrap();
            let bytes = cm.to_bytes();
            let own = Generators::create::<CS>(m + 1, Some(&[b"BLIND_", CS::API_ID_BLIND].concat()));
            // more generators than needed are tolerated by the helper: the answer is the same
            let more = Generators::create::<CS>(m + 4, Some(&[b"BLIND_", CS::API_ID_BLIND].concat()));
            assert!(Commitment::<BBSplus<CS>>::deserialize_and_validate_commit(Some(&bytes), &more, Some(CS::API_ID_BLIND)).is_ok());
            // the plain api_id, the empty one
            for api in [Some(CS::API_ID), Some(CS::ID), None, Some(&b""[..])] {
                assert!(Commitment::<BBSplus<CS>>::deserialize_and_validate_commit(Some(&bytes), &own, api).is_err());
            }
            // generators of the signer messages, of the plain interface, of the plain interface with the prefix
            for g in [
                Generators::create::<CS>(m + 1, Some(CS::API_ID_BLIND)),
                Generators::create::<CS>(m + 1, Some(CS::API_ID)),
                Generators::create::<CS>(m + 1, Some(&[b"BLIND_", CS::API_ID].concat())),
                Generators::create::<CS>(m + 1, None),
            ] {
                assert!(Commitment::<BBSplus<CS>>::deserialize_and_validate_commit(Some(&bytes), &g, Some(CS::API_ID_BLIND)).is_err());
            }
            // too few generators: refused, no panic
            if m > 0 {
                let few = Generators::create::<CS>(m, Some(&[b"BLIND_", CS::API_ID_BLIND].concat()));
                assert!(Commitment::<BBSplus<CS>>::deserialize_and_validate_commit(Some(&bytes), &few, Some(CS::API_ID_BLIND)).is_err());
            }
            let none = Generators::create::<CS>(0, Some(&[b"BLIND_", CS::API_ID_BLIND].concat()));
            assert!(Commitment::<BBSplus<CS>>::deserialize_and_validate_commit(Some(&bytes), &none, Some(CS::API_ID_BLIND)).is_err());
        }
    }
    run::<Sha>();
    run::<Shake>();
}

/// the challenge helper: same inputs, the other suite / the other api_id
#[test]
fn blind_challenge_is_separated() {
    let g = Generators::create::<Sha>(3, Some(Sha::API_ID_BLIND)).values;
    let C = g[0] + g[1];
    let Cbar = g[1] + g[2];
    let a = calculate_blind_challenge::<Sha>(C, Cbar, &g, Some(Sha::API_ID_BLIND)).unwrap();
    let b = calculate_blind_challenge::<Shake>(C, Cbar, &g, Some(Sha::API_ID_BLIND)).unwrap();
    let d = calculate_blind_challenge::<Sha>(C, Cbar, &g, Some(Sha::API_ID)).unwrap();
    let e = calculate_blind_challenge::<Sha>(C, Cbar, &g, None).unwrap();
    let f = calculate_blind_challenge::<Sha>(C, Cbar, &g[..2], Some(Sha::API_ID_BLIND)).unwrap();
    let all = [a, b, d, e, f];
    for i in 0..all.len() {
        for j in 0..i {
            assert_ne!(all[i], all[j]);
        }
    }
    assert_ne!(a, Scalar::ZERO);
}

// ---------------------------------------------------------------------------------------------
// 10. plain proofs elsewhere
// ---------------------------------------------------------------------------------------------

fn plain_proof<CS: BbsCiphersuite>(n: usize, disclosed: &[usize], header: Option<&[u8]>, ph: Option<&[u8]>) -> PoKSignature<BBSplus<CS>> {
    let (_, pk) = keys();
    let s = plain_sig::<CS>(n, header);
    let p = PoKSignature::<BBSplus<CS>>::proof_gen(&pk, &s.to_bytes(), header, ph, Some(&msgs(n)), Some(disclosed)).unwrap();
    let dm: Vec<Vec<u8>> = disclosed.iter().map(|&i| msgs(n)[i].clone()).collect();
    p.proof_verify(&pk, Some(&dm), Some(disclosed), header, ph).expect("positive control: plain proof");
    p
}

fn plain_proof_elsewhere<A: BbsCiphersuite, B: BbsCiphersuite>(same_suite: bool) {
    let (_, pk) = keys();
    let cases: Vec<(usize, Vec<usize>)> = vec![
        (0, vec![]),
        (1, vec![]),
        (1, vec![0]),
        (4, vec![]),
        (4, vec![0, 2]),
        (4, vec![0, 1, 2, 3]),
        (4, vec![3]),
    ];
    for (n, disclosed) in cases {
        for (header, ph) in [(None, None), (Some(HEADER), Some(PH))] {
            let p = plain_proof::<A>(n, &disclosed, header, ph);
            let dm: Vec<Vec<u8>> = disclosed.iter().map(|&i| msgs(n)[i].clone()).collect();
            let bytes = p.to_bytes();

            if !same_suite {
                let q = PoKSignature::<BBSplus<B>>::from_bytes(&bytes).unwrap();
                assert!(q.proof_verify(&pk, Some(&dm), Some(&disclosed), header, ph).is_err());
                let j = serde_json::to_string(&p).unwrap();
                let q: PoKSignature<BBSplus<B>> = serde_json::from_str(&j).unwrap();
                assert!(q.proof_verify(&pk, Some(&dm), Some(&disclosed), header, ph).is_err());
            }

            // the blind verifier of suite B: every L the caller may state, every way to split the disclosed messages
            let q = PoKSignature::<BBSplus<B>>::from_bytes(&bytes).unwrap();
            for L in 0..=n + 2 {
                for l_opt in [Some(L), None] {
                    if l_opt.is_none() && L != 0 {
                        continue;
                    }
                    for cut in 0..=disclosed.len() {
                        let (i1, i2) = disclosed.split_at(cut);
                        let (m1, m2) = dm.split_at(cut);
                        // committed indexes as they are, and moved down by L + 1 (their place in the joined list)
                        let i2_shift: Option<Vec<usize>> = i2.iter().map(|j| j.checked_sub(L + 1)).collect();
                        let mut variants: Vec<Vec<usize>> = vec![i2.to_vec()];
                        if let Some(v) = i2_shift {
                            variants.push(v);
                        }
                        for i2v in variants {
                            let r = q.blind_proof_verify(&pk, header, ph, l_opt, Some(m1), Some(m2), Some(i1), Some(&i2v));
                            assert!(r.is_err(), "plain proof accepted by the blind verifier (n={}, L={:?}, cut={})", n, l_opt, cut);
                        }
                    }
                    if disclosed.is_empty() {
                        assert!(q.blind_proof_verify(&pk, header, ph, l_opt, None, None, None, None).is_err());
                    }
                }
            }
        }
    }
}

#[test]
fn plain_proof_does_not_verify_under_the_other_suite_or_interface() {
    plain_proof_elsewhere::<Sha, Shake>(false);
    plain_proof_elsewhere::<Shake, Sha>(false);
}

#[test]
fn plain_proof_does_not_verify_through_the_blind_interface() {
    plain_proof_elsewhere::<Sha, Sha>(true);
    plain_proof_elsewhere::<Shake, Shake>(true);
}

// ---------------------------------------------------------------------------------------------
// 11./12. blind proofs elsewhere
// ---------------------------------------------------------------------------------------------

struct BlindProof<CS: BbsCiphersuite> {
    proof: PoKSignature<BBSplus<CS>>,
    L: usize,
    M: usize,
    di: Vec<usize>,
    dci: Vec<usize>,
}

fn blind_proof<CS: BbsCiphersuite>(
    L: usize,
    M: Option<usize>,
    di: &[usize],
    dci: &[usize],
    header: Option<&[u8]>,
    ph: Option<&[u8]>,
) -> BlindProof<CS> {
    let (_, pk) = keys();
    let b = blind_sig::<CS>(L, M, header);
    let proof = PoKSignature::<BBSplus<CS>>::blind_proof_gen(
        &pk,
        &b.sig.to_bytes(),
        header,
        ph,
        Some(&msgs(b.L)),
        Some(&cmsgs(b.M)),
        Some(di),
        Some(dci),
        b.blind.as_ref(),
    )
    .unwrap();
    let dm: Vec<Vec<u8>> = di.iter().map(|&i| msgs(b.L)[i].clone()).collect();
    let dcm: Vec<Vec<u8>> = dci.iter().map(|&i| cmsgs(b.M)[i].clone()).collect();
    proof
        .blind_proof_verify(&pk, header, ph, Some(b.L), Some(&dm), Some(&dcm), Some(di), Some(dci))
        .expect("positive control: blind proof");
    let _ = &b.commitment;
    BlindProof { proof, L: b.L, M: b.M, di: di.to_vec(), dci: dci.to_vec() }
}

fn blind_proof_elsewhere<A: BbsCiphersuite, B: BbsCiphersuite>(same_suite: bool) {
    let (_, pk) = keys();
    let cases: Vec<(usize, Option<usize>, Vec<usize>, Vec<usize>)> = vec![
        (0, None, vec![], vec![]),
        (0, Some(0), vec![], vec![]),
        (2, None, vec![], vec![]),
        (2, None, vec![0, 1], vec![]),
        (0, Some(2), vec![], vec![1]),
        (3, Some(2), vec![], vec![]),
        (3, Some(2), vec![0, 2], vec![1]),
        (3, Some(2), vec![0, 1, 2], vec![0, 1]),
    ];
    for (L, M, di, dci) in cases {
        for (header, ph) in [(None, None), (Some(HEADER), Some(PH))] {
            let bp = blind_proof::<A>(L, M, &di, &dci, header, ph);
            let bytes = bp.proof.to_bytes();
            let dm: Vec<Vec<u8>> = bp.di.iter().map(|&i| msgs(bp.L)[i].clone()).collect();
            let dcm: Vec<Vec<u8>> = bp.dci.iter().map(|&i| cmsgs(bp.M)[i].clone()).collect();

            // the plain verifier of suite B with the joined list the blind verifier builds itself
            let q = PoKSignature::<BBSplus<B>>::from_bytes(&bytes).unwrap();
            let joined_idx: Vec<usize> = bp.di.iter().copied().chain(bp.dci.iter().map(|j| j + bp.L + 1)).collect();
            let joined_msg: Vec<Vec<u8>> = dm.iter().cloned().chain(dcm.iter().cloned()).collect();
            assert!(q.proof_verify(&pk, Some(&joined_msg), Some(&joined_idx), header, ph).is_err());
            // ... and without the slot of the prover's blind
            let joined_idx2: Vec<usize> = bp.di.iter().copied().chain(bp.dci.iter().map(|j| j + bp.L)).collect();
            assert!(q.proof_verify(&pk, Some(&joined_msg), Some(&joined_idx2), header, ph).is_err());
            if joined_idx.is_empty() {
                assert!(q.proof_verify(&pk, None, None, header, ph).is_err());
            }

            if !same_suite {
                assert!(q
                    .blind_proof_verify(&pk, header, ph, Some(bp.L), Some(&dm), Some(&dcm), Some(&bp.di), Some(&bp.dci))
                    .is_err());
                let j = serde_json::to_string(&bp.proof).unwrap();
                let q: PoKSignature<BBSplus<B>> = serde_json::from_str(&j).unwrap();
                assert!(q
                    .blind_proof_verify(&pk, header, ph, Some(bp.L), Some(&dm), Some(&dcm), Some(&bp.di), Some(&bp.dci))
                    .is_err());
            } else {
                // sizes: the same proof with another number of signer messages stated by the verifier
                let total = bp.L + bp.M + 1;
                for l in 0..=total + 1 {
                    if l == bp.L {
                        continue;
                    }
                    // keep the position every disclosed message has in the joined list
                    let mut i1: Vec<usize> = Vec::new();
                    let mut i2: Vec<usize> = Vec::new();
                    let mut m1: Vec<Vec<u8>> = Vec::new();
                    let mut m2: Vec<Vec<u8>> = Vec::new();
                    let mut expressible = true;
                    for (pos, m) in joined_idx.iter().zip(joined_msg.iter()) {
                        if *pos < l {
                            i1.push(*pos);
                            m1.push(m.clone());
                        } else if *pos > l {
                            i2.push(*pos - l - 1);
                            m2.push(m.clone());
                        } else {
                            expressible = false;
                        }
                    }
                    if expressible {
                        let r = bp.proof.blind_proof_verify(&pk, header, ph, Some(l), Some(&m1), Some(&m2), Some(&i1), Some(&i2));
                        assert!(r.is_err(), "blind proof for L={} accepted with L={}", bp.L, l);
                    }
                    // and the caller's lists unchanged
                    assert!(bp
                        .proof
                        .blind_proof_verify(&pk, header, ph, Some(l), Some(&dm), Some(&dcm), Some(&bp.di), Some(&bp.dci))
                        .is_err());
                }
                if bp.L != 0 {
                    assert!(bp
                        .proof
                        .blind_proof_verify(&pk, header, ph, None, Some(&dm), Some(&dcm), Some(&bp.di), Some(&bp.dci))
                        .is_err());
                }
            }
        }
    }
}

#[test]
fn blind_proof_does_not_verify_through_the_plain_interface_or_with_another_size() {
    blind_proof_elsewhere::<Sha, Sha>(true);
    blind_proof_elsewhere::<Shake, Shake>(true);
}

#[test]
fn blind_proof_does_not_verify_under_the_other_suite() {
    blind_proof_elsewhere::<Sha, Shake>(false);
    blind_proof_elsewhere::<Shake, Sha>(false);
}

// ---------------------------------------------------------------------------------------------
// 13. the prover side: a signature of one interface / suite handed to the proof generator of another.
//     Whatever the generator returns (it does not check the signature), no verifier accepts it.
// ---------------------------------------------------------------------------------------------

fn prover_side_mix<A: BbsCiphersuite, B: BbsCiphersuite>() {
    let (_, pk) = keys();
    let n = 3;
    let m = msgs(n);
    let di = [0usize, 2];
    let dm = vec![m[0].clone(), m[2].clone()];

    // plain signature of A -> blind prover of B (and of A)
    let s = plain_sig::<A>(n, Some(HEADER));
    if let Ok(p) = PoKSignature::<BBSplus<B>>::blind_proof_gen(&pk, &s.to_bytes(), Some(HEADER), Some(PH), Some(&m), None, Some(&di), None, None) {
        assert!(p.blind_proof_verify(&pk, Some(HEADER), Some(PH), Some(n), Some(&dm), None, Some(&di), None).is_err());
        assert!(p.proof_verify(&pk, Some(&dm), Some(&di), Some(HEADER), Some(PH)).is_err());
        let q = PoKSignature::<BBSplus<A>>::from_bytes(&p.to_bytes()).unwrap();
        assert!(q.proof_verify(&pk, Some(&dm), Some(&di), Some(HEADER), Some(PH)).is_err());
        assert!(q.blind_proof_verify(&pk, Some(HEADER), Some(PH), Some(n), Some(&dm), None, Some(&di), None).is_err());
    }
    // blind signature of A (no commitment) -> plain prover of B (and of A)
    let b = blind_sig::<A>(n, None, Some(HEADER));
    if let Ok(p) = PoKSignature::<BBSplus<B>>::proof_gen(&pk, &b.sig.to_bytes(), Some(HEADER), Some(PH), Some(&m), Some(&di)) {
        assert!(p.proof_verify(&pk, Some(&dm), Some(&di), Some(HEADER), Some(PH)).is_err());
        assert!(p.blind_proof_verify(&pk, Some(HEADER), Some(PH), Some(n), Some(&dm), None, Some(&di), None).is_err());
        let q = PoKSignature::<BBSplus<A>>::from_bytes(&p.to_bytes()).unwrap();
        assert!(q.proof_verify(&pk, Some(&dm), Some(&di), Some(HEADER), Some(PH)).is_err());
        assert!(q.blind_proof_verify(&pk, Some(HEADER), Some(PH), Some(n), Some(&dm), None, Some(&di), None).is_err());
    }
    // blind signature of A with a commitment -> plain prover of A over the joined list with a slot for the blind
    let b = blind_sig::<A>(2, Some(1), Some(HEADER));
    let mut joined = msgs(2);
    joined.push(b.blind.as_ref().unwrap().to_bytes().to_vec());
    joined.extend(cmsgs(1));
    if let Ok(p) = PoKSignature::<BBSplus<A>>::proof_gen(&pk, &b.sig.to_bytes(), Some(HEADER), Some(PH), Some(&joined), Some(&[0])) {
        assert!(p.proof_verify(&pk, Some(&joined[..1]), Some(&[0]), Some(HEADER), Some(PH)).is_err());
        assert!(p.blind_proof_verify(&pk, Some(HEADER), Some(PH), Some(2), Some(&joined[..1]), None, Some(&[0]), None).is_err());
    }
}

#[test]
fn prover_side_mixing_of_interfaces_and_suites_gives_nothing_that_verifies() {
    prover_side_mix::<Sha, Sha>();
    prover_side_mix::<Shake, Shake>();
    prover_side_mix::<Sha, Shake>();
    prover_side_mix::<Shake, Sha>();
}

// ---------------------------------------------------------------------------------------------
// 14. update_signature is a plain-interface operation: a blind signature pushed through it does not
//     become a valid signature of either interface; a plain signature updated stays in its suite.
// ---------------------------------------------------------------------------------------------

#[test]
fn update_signature_does_not_bridge_interfaces_or_suites() {
    fn run<A: BbsCiphersuite, B: BbsCiphersuite>() {
        let (sk, pk) = keys();
        let n = 3;
        let m = msgs(n);
        let mut m2 = m.clone();
        m2[1] = b"a new value".to_vec();

        // positive control
        let s = plain_sig::<A>(n, Some(HEADER));
        let u = s.update_signature(&sk, &m[1], &m2[1], 1, n).unwrap();
        u.verify(&pk, Some(&m2), Some(HEADER)).expect("positive control: updated signature");
        // ... not under the other suite, not through the blind interface
        let t = Signature::<BBSplus<B>>::from_bytes(&u.to_bytes()).unwrap();
        if A::ID != B::ID {
            assert!(t.verify(&pk, Some(&m2), Some(HEADER)).is_err());
        }
        let t = BlindSignature::<BBSplus<B>>::from_bytes(&u.to_bytes()).unwrap();
        assert!(t.verify_blind_sign(&pk, Some(HEADER), Some(&m2), None, None).is_err());

        // updating with the operation of the other suite
        if A::ID != B::ID {
            let t = Signature::<BBSplus<B>>::from_bytes(&s.to_bytes()).unwrap();
            if let Ok(u) = t.update_signature(&sk, &m[1], &m2[1], 1, n) {
                assert!(u.verify(&pk, Some(&m2), Some(HEADER)).is_err());
                let back = Signature::<BBSplus<A>>::from_bytes(&u.to_bytes()).unwrap();
                assert!(back.verify(&pk, Some(&m2), Some(HEADER)).is_err());
            }
        }

        // a blind signature through the plain update
        let b = blind_sig::<A>(n, None, Some(HEADER));
        let t = Signature::<BBSplus<B>>::from_bytes(&b.sig.to_bytes()).unwrap();
        if let Ok(u) = t.update_signature(&sk, &m[1], &m2[1], 1, n) {
            assert!(u.verify(&pk, Some(&m2), Some(HEADER)).is_err());
            let back = BlindSignature::<BBSplus<A>>::from_bytes(&u.to_bytes()).unwrap();
            assert!(back.verify_blind_sign(&pk, Some(HEADER), Some(&m2), None, None).is_err());
            let back = BlindSignature::<BBSplus<B>>::from_bytes(&u.to_bytes()).unwrap();
            assert!(back.verify_blind_sign(&pk, Some(HEADER), Some(&m2), None, None).is_err());
        }
    }
    run::<Sha, Sha>();
    run::<Shake, Shake>();
    run::<Sha, Shake>();
    run::<Shake, Sha>();
}

// ---------------------------------------------------------------------------------------------
// 15. the vectors of the drafts, replayed where they do not belong
// ---------------------------------------------------------------------------------------------

fn read(path: &str) -> serde_json::Value {
    serde_json::from_str(&std::fs::read_to_string(path).unwrap()).unwrap()
}

fn hexes(v: &serde_json::Value) -> Vec<Vec<u8>> {
    v.as_array().unwrap().iter().map(|m| hex::decode(m.as_str().unwrap()).unwrap()).collect()
}

fn replay_plain_vectors<A: BbsCiphersuite, B: BbsCiphersuite>(dir: &str) {
    for k in 1..=10 {
        let v = read(&format!("{}signature/signature{:03}.json", dir, k));
        if !v["result"]["valid"].as_bool().unwrap() {
            continue;
        }
        let pk = BBSplusPublicKey::from_bytes(&hex::decode(v["signerKeyPair"]["publicKey"].as_str().unwrap()).unwrap()).unwrap();
        let header = hex::decode(v["header"].as_str().unwrap()).unwrap();
        let m = hexes(&v["messages"]);
        let bytes: [u8; 80] = hex::decode(v["signature"].as_str().unwrap()).unwrap().try_into().unwrap();
        Signature::<BBSplus<A>>::from_bytes(&bytes).unwrap().verify(&pk, Some(&m), Some(&header)).expect("vector");
        assert!(Signature::<BBSplus<B>>::from_bytes(&bytes).unwrap().verify(&pk, Some(&m), Some(&header)).is_err());
        for (s, cm) in [(&m[..], &m[..0]), (&m[..0], &m[..])] {
            assert!(BlindSignature::<BBSplus<A>>::from_bytes(&bytes).unwrap().verify_blind_sign(&pk, Some(&header), Some(s), Some(cm), None).is_err());
            assert!(BlindSignature::<BBSplus<B>>::from_bytes(&bytes).unwrap().verify_blind_sign(&pk, Some(&header), Some(s), Some(cm), None).is_err());
        }
    }
    for k in 1..=15 {
        let v = read(&format!("{}proof/proof{:03}.json", dir, k));
        if !v["result"]["valid"].as_bool().unwrap() {
            continue;
        }
        let pk = BBSplusPublicKey::from_bytes(&hex::decode(v["signerPublicKey"].as_str().unwrap()).unwrap()).unwrap();
        let header = hex::decode(v["header"].as_str().unwrap()).unwrap();
        let ph = hex::decode(v["presentationHeader"].as_str().unwrap()).unwrap();
        let m = hexes(&v["messages"]);
        let di: Vec<usize> = v["disclosedIndexes"].as_array().unwrap().iter().map(|i| i.as_u64().unwrap() as usize).collect();
        let dm: Vec<Vec<u8>> = di.iter().map(|&i| m[i].clone()).collect();
        let bytes = hex::decode(v["proof"].as_str().unwrap()).unwrap();
        PoKSignature::<BBSplus<A>>::from_bytes(&bytes).unwrap().proof_verify(&pk, Some(&dm), Some(&di), Some(&header), Some(&ph)).expect("vector");
        assert!(PoKSignature::<BBSplus<B>>::from_bytes(&bytes).unwrap().proof_verify(&pk, Some(&dm), Some(&di), Some(&header), Some(&ph)).is_err());
        for L in 0..=m.len() {
            let cut = di.iter().filter(|&&i| i < L).count();
            let i2: Vec<usize> = di[cut..].iter().map(|i| i - L).collect();
            let r = PoKSignature::<BBSplus<A>>::from_bytes(&bytes).unwrap().blind_proof_verify(
                &pk, Some(&header), Some(&ph), Some(L), Some(&dm[..cut]), Some(&dm[cut..]), Some(&di[..cut]), Some(&i2));
            assert!(r.is_err());
            let r = PoKSignature::<BBSplus<B>>::from_bytes(&bytes).unwrap().blind_proof_verify(
                &pk, Some(&header), Some(&ph), Some(L), Some(&dm[..cut]), Some(&dm[cut..]), Some(&di[..cut]), Some(&i2));
            assert!(r.is_err());
        }
    }
}

#[test]
fn draft_vectors_of_the_plain_interface_replayed_elsewhere() {
    replay_plain_vectors::<Sha, Shake>("./fixture_data/bls12-381-sha-256/");
    replay_plain_vectors::<Shake, Sha>("./fixture_data/bls12-381-shake-256/");
}

fn replay_blind_vectors<A: BbsCiphersuite, B: BbsCiphersuite>(dir: &str) {
    for k in 1..=5 {
        let v = read(&format!("{}signature/signature{:03}.json", dir, k));
        if !v["result"]["valid"].as_bool().unwrap() {
            continue;
        }
        let sk = BBSplusSecretKey::from_bytes(&hex::decode(v["signerKeyPair"]["secretKey"].as_str().unwrap()).unwrap()).unwrap();
        let pk = BBSplusPublicKey::from_bytes(&hex::decode(v["signerKeyPair"]["publicKey"].as_str().unwrap()).unwrap()).unwrap();
        let header = hex::decode(v["header"].as_str().unwrap()).unwrap();
        let m = hexes(&v["messages"]);
        let cm: Vec<Vec<u8>> = if v["committedMessages"].is_array() { hexes(&v["committedMessages"]) } else { vec![] };
        let blind = v["proverBlind"].as_str().map(|b| BlindFactor::from_bytes(&hex::decode(b).unwrap().try_into().unwrap()).unwrap());
        let bytes: [u8; 80] = hex::decode(v["signature"].as_str().unwrap()).unwrap().try_into().unwrap();
        BlindSignature::<BBSplus<A>>::from_bytes(&bytes).unwrap()
            .verify_blind_sign(&pk, Some(&header), Some(&m), Some(&cm), blind.as_ref()).expect("vector");
        assert!(BlindSignature::<BBSplus<B>>::from_bytes(&bytes).unwrap()
            .verify_blind_sign(&pk, Some(&header), Some(&m), Some(&cm), blind.as_ref()).is_err());
        let joined: Vec<Vec<u8>> = m.iter().cloned().chain(cm.iter().cloned()).collect();
        for list in [&m, &joined] {
            assert!(Signature::<BBSplus<A>>::from_bytes(&bytes).unwrap().verify(&pk, Some(list), Some(&header)).is_err());
            assert!(Signature::<BBSplus<B>>::from_bytes(&bytes).unwrap().verify(&pk, Some(list), Some(&header)).is_err());
        }
        // the commitment of the vector in front of the signer of the other suite
        if let Some(cwp) = v["commitmentWithProof"].as_str() {
            let cwp = hex::decode(cwp).unwrap();
            if !cwp.is_empty() {
                BlindSignature::<BBSplus<A>>::blind_sign(&sk, &pk, Some(&cwp), Some(&header), Some(&m)).expect("vector commitment");
                assert!(BlindSignature::<BBSplus<B>>::blind_sign(&sk, &pk, Some(&cwp), Some(&header), Some(&m)).is_err());
            }
        }
    }
    for k in 1..=2 {
        let v = read(&format!("{}commit/commit{:03}.json", dir, k));
        let cwp = hex::decode(v["commitmentWithProof"].as_str().unwrap()).unwrap();
        let n = hexes(&v["committedMessages"]).len();
        let ga = Generators::create::<A>(n + 1, Some(&[b"BLIND_", A::API_ID_BLIND].concat()));
        let gb = Generators::create::<B>(n + 1, Some(&[b"BLIND_", B::API_ID_BLIND].concat()));
        Commitment::<BBSplus<A>>::deserialize_and_validate_commit(Some(&cwp), &ga, Some(A::API_ID_BLIND)).expect("vector");
        assert!(Commitment::<BBSplus<B>>::deserialize_and_validate_commit(Some(&cwp), &gb, Some(B::API_ID_BLIND)).is_err());
        assert!(Commitment::<BBSplus<B>>::deserialize_and_validate_commit(Some(&cwp), &ga, Some(A::API_ID_BLIND)).is_err());
        assert!(Commitment::<BBSplus<A>>::deserialize_and_validate_commit(Some(&cwp), &ga, Some(A::API_ID)).is_err());
    }
}

#[test]
fn draft_vectors_of_the_blind_interface_replayed_elsewhere() {
    replay_blind_vectors::<Sha, Shake>("./fixture_data_blind/bls12-381-sha-256/");
    replay_blind_vectors::<Shake, Sha>("./fixture_data_blind/bls12-381-shake-256/");
}

/// the generator vectors: the blind file and the plain file of one suite, and the files of the two suites, share nothing;
/// the library reproduces both from the respective api_id
#[test]
fn generator_vectors_are_disjoint_and_reproduced() {
    fn load(path: &str) -> Vec<String> {
        let v = read(path);
        let mut out = Vec::new();
        fn walk(v: &serde_json::Value, out: &mut Vec<String>) {
            match v {
                serde_json::Value::String(s) if s.len() == 96 && hex::decode(s).is_ok() => out.push(s.clone()),
                serde_json::Value::Array(a) => a.iter().for_each(|x| walk(x, out)),
                serde_json::Value::Object(o) => o.iter().filter(|(k, _)| k.as_str() != "P1").for_each(|(_, x)| walk(x, out)),
                _ => {}
            }
        }
        walk(&v, &mut out);
        out
    }
    let files = [
        "./fixture_data/bls12-381-sha-256/generators.json",
        "./fixture_data/bls12-381-shake-256/generators.json",
        "./fixture_data_blind/bls12-381-sha-256/generators.json",
        "./fixture_data_blind/bls12-381-shake-256/generators.json",
    ];
    let lists: Vec<Vec<String>> = files.iter().map(|f| load(f)).collect();
    for l in &lists {
        assert!(!l.is_empty());
    }
    // the plain files are reproduced by the plain api_id
    let g = Generators::create::<Sha>(lists[0].len(), Some(Sha::API_ID));
    let mine: HashSet<String> = g.values.iter().map(|p| hex::encode(c(p))).collect();
    assert!(lists[0].iter().all(|p| mine.contains(p)));
    let g = Generators::create::<Shake>(lists[1].len(), Some(Shake::API_ID));
    let mine: HashSet<String> = g.values.iter().map(|p| hex::encode(c(p))).collect();
    assert!(lists[1].iter().all(|p| mine.contains(p)));
    // the blind files are reproduced by the two api_ids of the blind interface
    for (f, sha) in [(files[2], true), (files[3], false)] {
        let v = read(f);
        for (section, prefix) in [("generators", &b""[..]), ("blindGenerators", &b"BLIND_"[..])] {
            let sec = &v[section];
            let api = sec["api_id"].as_str().unwrap().as_bytes().to_vec();
            let mut expected = vec![sec["Q1"].as_str().unwrap().to_string()];
            expected.extend(sec["MsgGenerators"].as_array().unwrap().iter().map(|x| x.as_str().unwrap().to_string()));
            let (mine, lib_api) = if sha {
                (Generators::create::<Sha>(expected.len(), Some(&api)), [prefix, Sha::API_ID_BLIND].concat())
            } else {
                (Generators::create::<Shake>(expected.len(), Some(&api)), [prefix, Shake::API_ID_BLIND].concat())
            };
            assert_eq!(api, lib_api, "{} {}", f, section);
            let mine: Vec<String> = mine.values.iter().map(|p| hex::encode(c(p))).collect();
            assert_eq!(mine, expected, "{} {}", f, section);
        }
    }
    // no point in two files
    let mut seen: std::collections::HashMap<&String, usize> = std::collections::HashMap::new();
    for (n, l) in lists.iter().enumerate() {
        for p in l {
            if let Some(other) = seen.insert(p, n) {
                panic!("{} is in {} and in {}", p, files[other], files[n]);
            }
        }
    }
    // plain vs plain of the other suite
    let a: HashSet<&String> = lists[0].iter().collect();
    assert!(lists[1].iter().all(|p| !a.contains(p)));
    // what the library makes for the blind interface is in no plain file
    for (n, plain) in [(0usize, &lists[0]), (1, &lists[1])] {
        let set: HashSet<&String> = plain.iter().collect();
        let blind: Vec<G1Projective> = if n == 0 {
            prepare_parameters::<Sha>(None, None, 12, 12, None, Some(Sha::API_ID_BLIND)).unwrap().1.values
        } else {
            prepare_parameters::<Shake>(None, None, 12, 12, None, Some(Shake::API_ID_BLIND)).unwrap().1.values
        };
        assert!(blind.iter().all(|p| !set.contains(&hex::encode(c(p)))));
    }
}

// ---------------------------------------------------------------------------------------------
// 16. parts of an artefact of one interface / suite inside an artefact of another
// ---------------------------------------------------------------------------------------------

#[test]
fn spliced_artefacts_of_two_interfaces_or_suites_are_refused() {
    fn run<A: BbsCiphersuite, B: BbsCiphersuite>() {
        let (_, pk) = keys();
        // signatures: A of one, e of the other
        let s = plain_sig::<A>(3, Some(HEADER)).to_bytes();
        let b = blind_sig::<B>(3, None, Some(HEADER)).sig.to_bytes();
        for (x, y) in [(&s, &b), (&b, &s)] {
            let mut z = [0u8; 80];
            z[..48].copy_from_slice(&x[..48]);
            z[48..].copy_from_slice(&y[48..]);
            assert!(Signature::<BBSplus<A>>::from_bytes(&z).unwrap().verify(&pk, Some(&msgs(3)), Some(HEADER)).is_err());
            assert!(Signature::<BBSplus<B>>::from_bytes(&z).unwrap().verify(&pk, Some(&msgs(3)), Some(HEADER)).is_err());
            assert!(BlindSignature::<BBSplus<A>>::from_bytes(&z).unwrap().verify_blind_sign(&pk, Some(HEADER), Some(&msgs(3)), None, None).is_err());
            assert!(BlindSignature::<BBSplus<B>>::from_bytes(&z).unwrap().verify_blind_sign(&pk, Some(HEADER), Some(&msgs(3)), None, None).is_err());
        }
        // proofs with the same number of undisclosed scalars: 3 messages (plain), 2 messages and the blind (blind)
        let p = plain_proof::<A>(3, &[], Some(HEADER), Some(PH)).to_bytes();
        let q = blind_proof::<B>(2, None, &[], &[], Some(HEADER), Some(PH)).proof.to_bytes();
        assert_eq!(p.len(), q.len());
        for cut in [48usize, 96, 144, 176, 240, p.len() - 32] {
            for (x, y) in [(&p, &q), (&q, &p)] {
                let z: Vec<u8> = x[..cut].iter().chain(y[cut..].iter()).copied().collect();
                let za = PoKSignature::<BBSplus<A>>::from_bytes(&z).unwrap();
                let zb = PoKSignature::<BBSplus<B>>::from_bytes(&z).unwrap();
                assert!(za.proof_verify(&pk, None, None, Some(HEADER), Some(PH)).is_err());
                assert!(zb.proof_verify(&pk, None, None, Some(HEADER), Some(PH)).is_err());
                assert!(za.blind_proof_verify(&pk, Some(HEADER), Some(PH), Some(2), None, None, None, None).is_err());
                assert!(zb.blind_proof_verify(&pk, Some(HEADER), Some(PH), Some(2), None, None, None, None).is_err());
            }
        }
        // commitments: the point of one suite with the proof of the other
        let (ca, _) = Commitment::<BBSplus<A>>::commit(Some(&cmsgs(2))).unwrap();
        let (cb, _) = Commitment::<BBSplus<B>>::commit(Some(&cmsgs(2))).unwrap();
        let (ca, cb) = (ca.to_bytes(), cb.to_bytes());
        let (sk, pk) = keys();
        for (x, y) in [(&ca, &cb), (&cb, &ca)] {
            let z: Vec<u8> = x[..48].iter().chain(y[48..].iter()).copied().collect();
            assert!(BlindSignature::<BBSplus<A>>::blind_sign(&sk, &pk, Some(&z), Some(HEADER), Some(&msgs(1))).is_err());
            assert!(BlindSignature::<BBSplus<B>>::blind_sign(&sk, &pk, Some(&z), Some(HEADER), Some(&msgs(1))).is_err());
        }
    }
    run::<Sha, Sha>();
    run::<Shake, Shake>();
    run::<Sha, Shake>();
    run::<Shake, Sha>();
}

/// the serde forms of the two signature types are the same document: retyping it does not change the answer
#[test]
fn json_retyping_between_signature_and_blind_signature() {
    fn run<A: BbsCiphersuite, B: BbsCiphersuite>() {
        let (_, pk) = keys();
        let s = plain_sig::<A>(2, Some(HEADER));
        let j = serde_json::to_string(&s).unwrap();
        let t: BlindSignature<BBSplus<B>> = serde_json::from_str(&j).unwrap();
        assert!(t.verify_blind_sign(&pk, Some(HEADER), Some(&msgs(2)), None, None).is_err());
        let b = blind_sig::<A>(2, Some(1), Some(HEADER));
        let j = serde_json::to_string(&b.sig).unwrap();
        let t: Signature<BBSplus<B>> = serde_json::from_str(&j).unwrap();
        let joined: Vec<Vec<u8>> = msgs(2).into_iter().chain(cmsgs(1)).collect();
        assert!(t.verify(&pk, Some(&joined), Some(HEADER)).is_err());
        assert!(t.verify(&pk, Some(&msgs(2)), Some(HEADER)).is_err());
    }
    run::<Sha, Sha>();
    run::<Shake, Shake>();
    run::<Sha, Shake>();
    run::<Shake, Sha>();
}
