#![cfg(feature = "cl03")]
#![allow(non_snake_case)]
// Red-team candidates for property C16 (Boudot range proof: in-range values prove, nothing else is accepted).
// Every test ASSERTS WHAT THE PROPERTY REQUIRES: a test that fails on the unmodified tree is a demonstrated violation.
//
// Reading of "rejected": `verify` returns false. A panic inside `verify` is NOT an acceptance; the tests named
// `*_rejected*` count a panic as a refusal, and ONE separate test (`zero_fields_are_refused_without_panic`) asserts the stricter
// reading (a clean `false`).

use rug::{ops::Pow, Complete, Integer};
use serde_json::Value;
use sha2::Sha256;
use std::panic::{catch_unwind, AssertUnwindSafe};
use zkryptium::cl03::commitment::CL03Commitment;
use zkryptium::cl03::range_proof::Boudot2000RangeProof;

type RP = Boudot2000RangeProof;

// ------------------------------------------------------------------------------------------------------------
// fixed key material: two 513-bit safe primes generated once with KeyPair::<CL03<CL1024Sha256>>::generate()
// ------------------------------------------------------------------------------------------------------------
const P: &str = "20986954063587792373987719753578247459657190071023825513826650958168813930017181914414062732092038182561427549770271108071776316550140615541470072800606959";
const Q: &str = "23333750145512157059142276666299540317154628256996025300135204137936413270676615019547195306393015460810717242427579147577963226745052884966133059614143603";

struct Params {
    n: Integer,
    g: Integer,
    h: Integer,
    /// order of the group of quadratic residues modulo n: p' * q'
    ord: Integer,
}

fn params() -> Params {
    let p: Integer = P.parse().unwrap();
    let q: Integer = Q.parse().unwrap();
    let n = (&p * &q).complete();
    let ord = ((p - 1u32) / 2u32) * ((q - 1u32) / 2u32);
    // h: a quadratic residue; g: a power of h (what CL03CommitmentPublicKey::generate does)
    let h = Integer::from(Integer::from(0x1234_5678_9abc_def1u64).pow_mod_ref(&Integer::from(2), &n).unwrap());
    let f: Integer = "987654321987654321987654321987654321987654321987654321987654321".parse().unwrap();
    let g = Integer::from(h.pow_mod_ref(&f, &n).unwrap());
    Params { n, g, h, ord }
}

/// a fixed "random" value of about `bits` bits
fn fixed_randomness(bits: u32, salt: u32) -> Integer {
    let base: Integer = "31415926535897932384626433832795028841971693993751058209749445923078164062862089986280348253421170679"
        .parse()
        .unwrap();
    let mut r = base.pow(12) + salt;
    r.keep_bits_mut(bits);
    r.set_bit(bits - 1, true);
    r
}

fn commit(p: &Params, x: &Integer, r: &Integer) -> CL03Commitment {
    let v = (Integer::from(p.g.pow_mod_ref(x, &p.n).unwrap()) * Integer::from(p.h.pow_mod_ref(r, &p.n).unwrap())) % &p.n;
    CL03Commitment { value: v, randomness: r.clone() }
}

fn prove(p: &Params, x: &Integer, c: &CL03Commitment, a: &Integer, b: &Integer) -> RP {
    RP::prove::<Sha256>(x, c, &p.g, &p.h, &p.n, a, b)
}

/// `Some(result)` of verify, `None` when verify panicked
fn verify_caught(proof: &RP, g: &Integer, h: &Integer, n: &Integer, a: &Integer, b: &Integer) -> Option<bool> {
    catch_unwind(AssertUnwindSafe(|| proof.verify::<Sha256>(g, h, n, a, b))).ok()
}

/// accepted = verify returned true (a panic is not an acceptance)
fn accepted(proof: &RP, p: &Params, a: &Integer, b: &Integer) -> bool {
    verify_caught(proof, &p.g, &p.h, &p.n, a, b) == Some(true)
}

fn int(v: i64) -> Integer {
    Integer::from(v)
}

fn pow2(k: u32) -> Integer {
    Integer::from(1) << k
}

// ---- JSON helpers: rug serialises an Integer as {"radix": .., "value": ".."} --------------------------------
fn is_int_node(v: &Value) -> bool {
    v.as_object().map_or(false, |o| o.len() == 2 && o.contains_key("radix") && o.contains_key("value"))
}

fn collect_paths(v: &Value, prefix: &mut Vec<String>, out: &mut Vec<Vec<String>>) {
    if is_int_node(v) {
        out.push(prefix.clone());
        return;
    }
    if let Some(o) = v.as_object() {
        for (k, child) in o {
            prefix.push(k.clone());
            collect_paths(child, prefix, out);
            prefix.pop();
        }
    }
}

fn node_mut<'a>(v: &'a mut Value, path: &[String]) -> &'a mut Value {
    let mut cur = v;
    for k in path {
        cur = cur.get_mut(k.as_str()).unwrap();
    }
    cur
}

fn get_int(v: &Value, path: &[&str]) -> Integer {
    let mut cur = v;
    for k in path {
        cur = cur.get(*k).unwrap();
    }
    serde_json::from_value(cur.clone()).unwrap()
}

fn set_int(v: &mut Value, path: &[&str], i: &Integer) {
    let p: Vec<String> = path.iter().map(|s| s.to_string()).collect();
    *node_mut(v, &p) = serde_json::to_value(i).unwrap();
}

fn from_json(v: &Value) -> RP {
    serde_json::from_value(v.clone()).unwrap()
}

// ============================================================================================================
// 1. completeness: endpoints, small and large widths, large offsets
// ============================================================================================================
#[test]
fn honest_proofs_verify_for_endpoints_and_all_widths() {
    let p = params();
    let r = fixed_randomness(1024, 1);
    let widths: Vec<Integer> = vec![int(1), int(2), int(3), int(4), pow2(16), pow2(16) - 1u32, pow2(256) - 1u32, pow2(256), pow2(257) + 1u32];
    let lows: Vec<Integer> = vec![int(0), int(1), int(5), pow2(256), pow2(1100) + 17u32];
    for w in &widths {
        for a in &lows {
            let b = (a + w).complete();
            let mid: Integer = a.clone() + (w.clone() / 2u32);
            let mut xs = vec![a.clone(), (a + 1u32).complete(), mid, (&b - 1u32).complete(), b.clone()];
            xs.dedup();
            for x in xs {
                if x < *a || x > b {
                    continue;
                }
                let c = commit(&p, &x, &r);
                let proof = prove(&p, &x, &c, a, &b);
                assert!(proof.verify::<Sha256>(&p.g, &p.h, &p.n, a, &b), "honest proof refused: a={} w={} x={}", a, w, x);
            }
        }
    }
}

// a negative lower bound with a positive upper bound; negative committed values; randomness 0, 1 and negative
#[test]
fn honest_proofs_verify_for_intervals_with_a_negative_lower_bound() {
    let p = params();
    for (a, b) in [(int(-5), int(5)), (int(-1), int(1)), (-pow2(300), int(1)), (-pow2(256), pow2(256))] {
        for x in [a.clone(), (&a + 1u32).complete(), int(0), b.clone()] {
            for r in [int(0), int(1), -fixed_randomness(1024, 2), fixed_randomness(1024, 3)] {
                let c = commit(&p, &x, &r);
                let proof = prove(&p, &x, &c, &a, &b);
                assert!(accepted(&proof, &p, &a, &b), "honest proof refused: [{}, {}] x={} r={}", a, b, x, r);
            }
        }
    }
}

// ============================================================================================================
// 2. completeness: intervals whose UPPER bound is zero or negative ("forall intervals [a, b]")
// ============================================================================================================
fn honest_roundtrip_caught(p: &Params, x: &Integer, a: &Integer, b: &Integer) -> Result<bool, String> {
    let r = fixed_randomness(1024, 4);
    let c = commit(p, x, &r);
    let res = catch_unwind(AssertUnwindSafe(|| {
        let proof = prove(p, x, &c, a, b);
        proof.verify::<Sha256>(&p.g, &p.h, &p.n, a, b)
    }));
    res.map_err(|e| {
        e.downcast_ref::<String>().cloned().or_else(|| e.downcast_ref::<&str>().map(|s| s.to_string())).unwrap_or_else(|| "panic".into())
    })
}

#[test]
fn honest_proof_for_interval_ending_at_zero() {
    let p = params();
    // x = -3 in [-5, 0]
    let res = honest_roundtrip_caught(&p, &int(-3), &int(-5), &int(0));
    assert_eq!(res, Ok(true), "the honest prover / verifier fail for the interval [-5, 0]");
}

#[test]
fn honest_proof_for_interval_of_negative_numbers() {
    let p = params();
    // x = -7 in [-10, -5]
    let res = honest_roundtrip_caught(&p, &int(-7), &int(-10), &int(-5));
    assert_eq!(res, Ok(true), "the honest prover / verifier fail for the interval [-10, -5]");
}

// ============================================================================================================
// 3. the honest prover cannot produce an accepted proof for a value outside the interval
// ============================================================================================================
#[test]
fn honest_prover_gives_nothing_accepted_for_out_of_range_values() {
    let p = params();
    let r = fixed_randomness(1024, 5);
    for (a, b) in [(int(10), int(11)), (int(10), int(13)), (int(0), pow2(256) - 1u32), (int(1000), int(1000) + pow2(64))] {
        let w = (&b - &a).complete();
        for x in [(&a - 1u32).complete(), (&b + 1u32).complete(), (&a - &w).complete(), (&b + &w).complete(), a.clone() - pow2(200), b.clone() + pow2(300)] {
            let c = commit(&p, &x, &r);
            let res = catch_unwind(AssertUnwindSafe(|| {
                let proof = prove(&p, &x, &c, &a, &b);
                proof.verify::<Sha256>(&p.g, &p.h, &p.n, &a, &b)
            }));
            assert!(res.ok() != Some(true), "accepted proof from the honest prover for x={} outside [{}, {}]", x, a, b);
        }
    }
}

// ============================================================================================================
// 4. other bounds / bases / modulus / hash
// ============================================================================================================
#[test]
fn proof_checked_against_other_bounds_is_rejected() {
    let p = params();
    let r = fixed_randomness(1024, 6);
    let a = int(1000);
    let b = int(1000) + pow2(20); // width 2^20: many neighbouring widths have the same bit length and the same floor(sqrt)
    let x = int(1000) + 77u32;
    let c = commit(&p, &x, &r);
    let proof = prove(&p, &x, &c, &a, &b);
    assert!(accepted(&proof, &p, &a, &b));
    let others: Vec<(Integer, Integer)> = vec![
        ((&a + 1u32).complete(), b.clone()),
        ((&a - 1u32).complete(), b.clone()),
        (a.clone(), (&b + 1u32).complete()),
        (a.clone(), (&b - 1u32).complete()),
        ((&a + 1u32).complete(), (&b + 1u32).complete()),
        ((&a - 1u32).complete(), (&b - 1u32).complete()),
        (int(0), b.clone()),
        (a.clone(), (&b * 2u32).complete()),
        ((&a + &p.n).complete(), (&b + &p.n).complete()),
        (int(1078), b.clone()), // an interval that does not contain x
        (a.clone(), int(1076)),
    ];
    for (a2, b2) in others {
        assert!(!accepted(&proof, &p, &a2, &b2), "proof for [{}, {}] accepted for [{}, {}]", a, b, a2, b2);
    }
}

#[test]
fn proof_checked_against_other_bases_modulus_or_hash_is_rejected() {
    let p = params();
    let r = fixed_randomness(1024, 7);
    let (a, b) = (int(0), pow2(256) - 1u32);
    let x = pow2(100) + 3u32;
    let c = commit(&p, &x, &r);
    let proof = prove(&p, &x, &c, &a, &b);
    assert!(accepted(&proof, &p, &a, &b));

    let gn = (&p.g + &p.n).complete();
    let hn = (&p.h + &p.n).complete();
    let mg = (&p.n - &p.g).complete();
    let mh = (&p.n - &p.h).complete();
    let g2 = Integer::from(p.g.pow_mod_ref(&int(2), &p.n).unwrap());
    let bases: Vec<(Integer, Integer)> = vec![
        (p.h.clone(), p.g.clone()),
        (gn, p.h.clone()),
        (p.g.clone(), hn),
        (mg, p.h.clone()),
        (p.g.clone(), mh),
        (g2, p.h.clone()),
        (p.g.clone(), p.g.clone()),
        (int(1), p.h.clone()),
        (p.g.clone(), int(1)),
    ];
    for (g, h) in bases {
        assert!(verify_caught(&proof, &g, &h, &p.n, &a, &b) != Some(true), "accepted for other bases");
    }
    let p_: Integer = P.parse().unwrap();
    for n2 in [(&p.n + 2u32).complete(), (&p.n * 2u32).complete(), (&p.n * 3u32).complete(), (&p.n * &p.n).complete(), p_, -p.n.clone()] {
        assert!(verify_caught(&proof, &p.g, &p.h, &n2, &a, &b) != Some(true), "accepted for another modulus");
    }
    // another hash function
    let res = catch_unwind(AssertUnwindSafe(|| proof.verify::<sha2::Sha512>(&p.g, &p.h, &p.n, &a, &b)));
    assert!(res.ok() != Some(true));
    let res = catch_unwind(AssertUnwindSafe(|| proof.verify::<sha3::Sha3_256>(&p.g, &p.h, &p.n, &a, &b)));
    assert!(res.ok() != Some(true));
}

// ============================================================================================================
// 5. single-field edits (no secret needed): +1, -1, negated, + n, - n, 0, 1, the value of another field
// ============================================================================================================
#[test]
fn every_single_field_edit_is_rejected() {
    let p = params();
    let r = fixed_randomness(1024, 8);
    let (a, b) = (int(5), int(5) + pow2(64));
    let x = int(5);
    let c = commit(&p, &x, &r);
    let proof = prove(&p, &x, &c, &a, &b);
    assert!(accepted(&proof, &p, &a, &b));
    let json = serde_json::to_value(&proof).unwrap();
    let mut paths = Vec::new();
    collect_paths(&json, &mut Vec::new(), &mut paths);
    assert_eq!(paths.len(), 24, "2 + 4 + 2 * 6 + 2 * 3 integers"); // E, E_prime ; E_a_1.. ; squares ; li
    let all: Vec<Integer> = paths.iter().map(|pa| serde_json::from_value(node_mut(&mut json.clone(), pa).clone()).unwrap()).collect();
    let mut tried = 0;
    for (i, path) in paths.iter().enumerate() {
        let v = &all[i];
        let mut alts: Vec<Integer> = vec![
            (v + 1u32).complete(),
            (v - 1u32).complete(),
            (-v).complete(),
            (v + &p.n).complete(),
            (v - &p.n).complete(),
            (&p.n - v).complete(),
            int(0),
            int(1),
            (v * 2u32).complete(),
            v.clone() + pow2(128),
            v.clone() + pow2(256),
        ];
        alts.extend(all.iter().cloned()); // the value of every other field
        for alt in alts {
            if &alt == v {
                continue;
            }
            let mut j = json.clone();
            *node_mut(&mut j, path) = serde_json::to_value(&alt).unwrap();
            let forged: RP = match serde_json::from_value(j) {
                Ok(f) => f,
                Err(_) => continue,
            };
            tried += 1;
            assert!(!accepted(&forged, &p, &a, &b), "edit of {:?} to {} accepted", path, alt);
        }
    }
    assert!(tried > 24 * 30);
}

// swapping whole sub-proofs inside one proof, and between two honest proofs of the same statement
#[test]
fn swapped_sub_proofs_are_rejected() {
    let p = params();
    let r = fixed_randomness(1024, 9);
    let (a, b) = (int(0), pow2(32));
    let x = int(123456);
    let c = commit(&p, &x, &r);
    let p1 = serde_json::to_value(prove(&p, &x, &c, &a, &b)).unwrap();
    let p2 = serde_json::to_value(prove(&p, &x, &c, &a, &b)).unwrap();
    let pot = "proof_of_tolerance";
    // inside one proof: a <-> b
    for (k1, k2) in [("proof_of_square_a", "proof_of_square_b"), ("proof_large_i_a", "proof_large_i_b"), ("E_a_1", "E_b_1"), ("E_a_2", "E_b_2")] {
        let mut j = p1.clone();
        let (v1, v2) = (j[pot][k1].clone(), j[pot][k2].clone());
        j[pot][k1] = v2;
        j[pot][k2] = v1;
        assert!(!accepted(&from_json(&j), &p, &a, &b), "swap {} <-> {} accepted", k1, k2);
    }
    // between two proofs of the SAME statement: each part of p2 put into p1
    for k in ["proof_of_square_a", "proof_of_square_b", "proof_large_i_a", "proof_large_i_b", "E_a_1", "E_a_2", "E_b_1", "E_b_2"] {
        let mut j = p1.clone();
        j[pot][k] = p2[pot][k].clone();
        assert!(!accepted(&from_json(&j), &p, &a, &b), "part {} of another proof accepted", k);
    }
    // the proof of the same secret alone
    for k in ["proof_of_square_a", "proof_of_square_b"] {
        let mut j = p1.clone();
        j[pot][k]["proof_ss"] = p2[pot][k]["proof_ss"].clone();
        assert!(!accepted(&from_json(&j), &p, &a, &b));
    }
}

// ============================================================================================================
// 6. transplants: the sub-proofs of an honest proof put on another commitment, every derived commitment recomputed
//    (the strongest thing someone who knows no opening can do)
// ============================================================================================================
fn transplant(p: &Params, honest: &RP, target: &Integer, a: &Integer, b: &Integer) -> Vec<RP> {
    use rug::ops::DivRounding;
    let T: u32 = 2 * (128 + 40 + 1) + (b - a).complete().significant_bits();
    let tol = pow2(40 + 128 + T.div_floor(2) + 1) * Integer::from((b - a).complete().sqrt_ref());
    let aa = pow2(T) * a - &tol;
    let bb = pow2(T) * b + &tol;
    let e_prime = Integer::from(target.pow_mod_ref(&pow2(T), &p.n).unwrap());
    let inv = |v: &Integer| Integer::from(v.invert_ref(&p.n).unwrap());
    let e_a = (&e_prime * inv(&Integer::from(p.g.pow_mod_ref(&aa, &p.n).unwrap()))) % &p.n;
    let e_b = (Integer::from(p.g.pow_mod_ref(&bb, &p.n).unwrap()) * inv(&e_prime)) % &p.n;
    let mut out = Vec::new();
    let base = serde_json::to_value(honest).unwrap();
    // variant 1: only E and E_prime replaced
    let mut j = base.clone();
    set_int(&mut j, &["E"], target);
    set_int(&mut j, &["E_prime"], &e_prime);
    out.push(from_json(&j));
    // variant 2: E_a_2 / E_b_2 recomputed so that the decomposition holds, the squares kept
    let e_a_1 = get_int(&base, &["proof_of_tolerance", "E_a_1"]);
    let e_b_1 = get_int(&base, &["proof_of_tolerance", "E_b_1"]);
    let mut j2 = j.clone();
    set_int(&mut j2, &["proof_of_tolerance", "E_a_2"], &((&e_a * inv(&e_a_1)) % &p.n));
    set_int(&mut j2, &["proof_of_tolerance", "E_b_2"], &((&e_b * inv(&e_b_1)) % &p.n));
    out.push(from_json(&j2));
    // variant 3: E_a_1 / E_b_1 recomputed so that the decomposition holds, the larger-interval proofs kept
    let e_a_2 = get_int(&base, &["proof_of_tolerance", "E_a_2"]);
    let e_b_2 = get_int(&base, &["proof_of_tolerance", "E_b_2"]);
    let na1 = (&e_a * inv(&e_a_2)) % &p.n;
    let nb1 = (&e_b * inv(&e_b_2)) % &p.n;
    let mut j3 = j.clone();
    set_int(&mut j3, &["proof_of_tolerance", "E_a_1"], &na1);
    set_int(&mut j3, &["proof_of_tolerance", "E_b_1"], &nb1);
    set_int(&mut j3, &["proof_of_tolerance", "proof_of_square_a", "E"], &na1);
    set_int(&mut j3, &["proof_of_tolerance", "proof_of_square_b", "E"], &nb1);
    out.push(from_json(&j3));
    // variant 4: E replaced, E_prime kept (E_prime is what the sub-proofs are about)
    let mut j4 = base.clone();
    set_int(&mut j4, &["E"], target);
    out.push(from_json(&j4));
    out
}

#[test]
fn transplants_onto_other_commitments_are_rejected() {
    let p = params();
    let r = fixed_randomness(1024, 10);
    for (a, b) in [(int(100), int(101)), (int(100), int(100) + pow2(16)), (int(0), pow2(256) - 1u32)] {
        for x in [a.clone(), b.clone()] {
            let c = commit(&p, &x, &r);
            let honest = prove(&p, &x, &c, &a, &b);
            assert!(accepted(&honest, &p, &a, &b));
            let r2 = fixed_randomness(1024, 11);
            let targets = vec![
                commit(&p, &(&a - 1u32).complete(), &r).value,
                commit(&p, &(&b + 1u32).complete(), &r).value,
                commit(&p, &(a.clone() - pow2(64)), &r).value,
                commit(&p, &x, &r2).value,                                    // same value, other randomness
                Integer::from(int(0xabcdef).pow_mod_ref(&int(2), &p.n).unwrap()), // a group element nobody knows an opening of
                int(1),
                (&p.n - 1u32).complete(),
                (&p.n - &c.value).complete(), // -E
                (&c.value * &p.g).complete() % &p.n,
            ];
            for t in targets {
                for (k, f) in transplant(&p, &honest, &t, &a, &b).iter().enumerate() {
                    assert!(!accepted(f, &p, &a, &b), "transplant variant {} onto {} accepted ([{}, {}], x={})", k + 1, t, a, b, x);
                }
            }
        }
    }
}

// ============================================================================================================
// 7. strict reading: zero / non-invertible field values are refused with `false`, not with a panic
// ============================================================================================================
#[test]
fn zero_fields_are_refused_without_panic() {
    let p = params();
    let r = fixed_randomness(1024, 12);
    let (a, b) = (int(0), pow2(32));
    let x = int(42);
    let c = commit(&p, &x, &r);
    let base = serde_json::to_value(prove(&p, &x, &c, &a, &b)).unwrap();
    let zero = int(0);
    let mut panicked = Vec::new();
    // E = 0 (E_prime = 0 to be consistent)
    let mut j = base.clone();
    set_int(&mut j, &["E"], &zero);
    set_int(&mut j, &["E_prime"], &zero);
    if verify_caught(&from_json(&j), &p.g, &p.h, &p.n, &a, &b).is_none() {
        panicked.push("E = E_prime = 0");
    }
    // E_a_1 = 0 (with the copy in the proof of square)
    let mut j = base.clone();
    set_int(&mut j, &["proof_of_tolerance", "E_a_1"], &zero);
    set_int(&mut j, &["proof_of_tolerance", "proof_of_square_a", "E"], &zero);
    if verify_caught(&from_json(&j), &p.g, &p.h, &p.n, &a, &b).is_none() {
        panicked.push("E_a_1 = 0");
    }
    // F = 0 in a proof of square
    let mut j = base.clone();
    set_int(&mut j, &["proof_of_tolerance", "proof_of_square_a", "F"], &zero);
    if verify_caught(&from_json(&j), &p.g, &p.h, &p.n, &a, &b).is_none() {
        panicked.push("proof_of_square_a.F = 0");
    }
    // E_a_1 = a factor of n (what only the key owner can produce)
    let p_: Integer = P.parse().unwrap();
    let mut j = base.clone();
    set_int(&mut j, &["proof_of_tolerance", "E_a_1"], &p_);
    set_int(&mut j, &["proof_of_tolerance", "proof_of_square_a", "E"], &p_);
    if verify_caught(&from_json(&j), &p.g, &p.h, &p.n, &a, &b).is_none() {
        panicked.push("E_a_1 = p");
    }
    assert!(panicked.is_empty(), "verify panicked instead of returning false for: {:?}", panicked);
}

// ============================================================================================================
// 8. a proof made (with the public prover) for -E = n - E, which is NOT g^x h^r, must not be accepted
// ============================================================================================================
#[test]
fn proof_for_the_negated_commitment_is_rejected() {
    let p = params();
    let r = fixed_randomness(1024, 13);
    let (a, b) = (int(0), pow2(256) - 1u32);
    let x = pow2(200) + 9u32;
    let c = commit(&p, &x, &r);
    // the element -E mod n: not a quadratic residue, so not in the group generated by g and h; nobody knows (x, r) with g^x h^r = -E
    let minus = CL03Commitment { value: (&p.n - &c.value).complete(), randomness: r.clone() };
    assert_eq!(minus.value.jacobi(&p.n), 1); // (-1 has Jacobi symbol +1 modulo a product of two primes = 3 mod 4)
    assert_eq!(minus.value.legendre(&P.parse::<Integer>().unwrap()), -1, "-E is not a square modulo p: it is outside <g, h>");
    let forged = prove(&p, &x, &minus, &a, &b);
    assert_eq!(forged.E, minus.value);
    assert_ne!(forged.E, c.value);
    assert!(
        !accepted(&forged, &p, &a, &b),
        "a range proof is accepted whose E is n - g^x h^r, an element that is not a commitment under (g, h) at all"
    );
}

// the same for a commitment to an OUT-OF-RANGE value built from an in-range one is covered by the transplants; here: the value 0 / E = 1
#[test]
fn proof_for_minus_one_is_rejected() {
    let p = params();
    let (a, b) = (int(0), pow2(256) - 1u32);
    // E = n - 1 = -(g^0 h^0)
    let minus_one = CL03Commitment { value: (&p.n - 1u32).complete(), randomness: int(0) };
    let forged = prove(&p, &int(0), &minus_one, &a, &b);
    assert!(!accepted(&forged, &p, &a, &b), "a range proof for E = n - 1 is accepted");
}

// ============================================================================================================
// 9. edits by a multiple of the group order (needs the factorisation of n: the owner of the commitment key)
// ============================================================================================================
#[test]
fn edits_by_the_group_order_are_rejected() {
    let p = params();
    let r = fixed_randomness(1024, 14);
    let (a, b) = (int(0), pow2(256) - 1u32);
    let x = int(77);
    let c = commit(&p, &x, &r);
    let base = serde_json::to_value(prove(&p, &x, &c, &a, &b)).unwrap();
    let pot = "proof_of_tolerance";
    let fields: Vec<Vec<&str>> = vec![
        vec![pot, "proof_of_square_a", "proof_ss", "d"],
        vec![pot, "proof_of_square_a", "proof_ss", "d_1"],
        vec![pot, "proof_of_square_a", "proof_ss", "d_2"],
        vec![pot, "proof_of_square_b", "proof_ss", "d"],
        vec![pot, "proof_large_i_a", "D_1"],
        vec![pot, "proof_large_i_a", "D_2"],
        vec![pot, "proof_large_i_b", "D_2"],
    ];
    let mut acc = Vec::new();
    for f in &fields {
        for k in [1i32, -1, 1000] {
            let mut j = base.clone();
            let v = get_int(&j, f);
            set_int(&mut j, f, &(v + p.ord.clone() * Integer::from(k)));
            if accepted(&from_json(&j), &p, &a, &b) {
                acc.push(format!("{} {:+} * ord", f.join("."), k));
            }
        }
    }
    assert!(acc.is_empty(), "edited proofs accepted: {:?}", acc);
}

// a proof for [a, b] checked against [a + ord(g), b] (same b, same bit length and same integer square root of the width)
#[test]
fn bounds_shifted_by_the_group_order_are_rejected() {
    let p = params();
    let r = fixed_randomness(1024, 15);
    let a = int(0);
    let b = pow2(2100) + pow2(1030);
    let x = int(3); // in [a, b], NOT in [a + ord, b]
    let c = commit(&p, &x, &r);
    let proof = prove(&p, &x, &c, &a, &b);
    assert!(accepted(&proof, &p, &a, &b));
    let a2 = (&a + &p.ord).complete();
    assert!(x < a2);
    assert_eq!((&b - &a).complete().significant_bits(), (&b - &a2).complete().significant_bits());
    assert_eq!(Integer::from((&b - &a).complete().sqrt_ref()), Integer::from((&b - &a2).complete().sqrt_ref()));
    assert!(!accepted(&proof, &p, &a2, &b), "the proof for [0, b] is accepted for [ord, b], an interval that does not contain x = 3");
}

// ============================================================================================================
// 10. prover side: an opening whose randomness is larger than 2^(s+1) * n
// ============================================================================================================
#[test]
fn honest_prover_terminates_for_large_randomness() {
    let p = params();
    let (a, b) = (int(0), pow2(32));
    let x = int(42);
    // a valid opening (x, r) of E = g^x h^r with r = 2^42 * n
    let r: Integer = pow2(42) * &p.n;
    let c = commit(&p, &x, &r);
    let (g, h, n) = (p.g.clone(), p.h.clone(), p.n.clone());
    let (tx, rx) = std::sync::mpsc::channel();
    std::thread::spawn(move || {
        let proof = RP::prove::<Sha256>(&x, &c, &g, &h, &n, &a, &b);
        let ok = proof.verify::<Sha256>(&g, &h, &n, &a, &b);
        let _ = tx.send(ok);
    });
    match rx.recv_timeout(std::time::Duration::from_secs(20)) {
        Ok(ok) => assert!(ok, "honest proof refused"),
        Err(_) => panic!("the honest prover did not finish in 20 s for the opening (x, r = 2^42 * n)"),
    }
}

// randomness just inside the bound the prover's rejection sampling can serve
#[test]
fn honest_prover_works_for_randomness_of_ls_bits_and_negative() {
    let p = params();
    let (a, b) = (int(0), pow2(32));
    let x = int(42);
    for r in [fixed_randomness(1024 + 30, 16), -fixed_randomness(1024 + 30, 17), int(0)] {
        let c = commit(&p, &x, &r);
        let proof = prove(&p, &x, &c, &a, &b);
        assert!(accepted(&proof, &p, &a, &b));
    }
}

// ============================================================================================================
// 11. non-canonical inputs on the prover side and the serde form
// ============================================================================================================
#[test]
fn non_canonical_commitment_representative_is_rejected() {
    let p = params();
    let r = fixed_randomness(1024, 18);
    let (a, b) = (int(0), pow2(32));
    let x = int(42);
    let c = commit(&p, &x, &r);
    for alt in [(&c.value + &p.n).complete(), (&c.value - &p.n).complete()] {
        let c2 = CL03Commitment { value: alt, randomness: r.clone() };
        let proof = prove(&p, &x, &c2, &a, &b);
        assert!(!accepted(&proof, &p, &a, &b), "a proof whose E is not the canonical representative is accepted");
    }
}

#[test]
fn serde_round_trip_and_other_radix() {
    let p = params();
    let r = fixed_randomness(1024, 19);
    let (a, b) = (int(0), pow2(32));
    let x = int(42);
    let c = commit(&p, &x, &r);
    let proof = prove(&p, &x, &c, &a, &b);
    let s = serde_json::to_string(&proof).unwrap();
    let back: RP = serde_json::from_str(&s).unwrap();
    assert_eq!(back, proof);
    assert!(accepted(&back, &p, &a, &b));
    // missing field, extra unknown nesting
    let mut j = serde_json::to_value(&proof).unwrap();
    j["proof_of_tolerance"].as_object_mut().unwrap().remove("E_b_2");
    assert!(serde_json::from_value::<RP>(j).is_err());
}

// ============================================================================================================
// 12. the same proof is not accepted for a statement with the roles of the two bounds' sub-proofs mixed across intervals
//     (a proof for [a, b] re-used for [a', b] where a' keeps T: covered in `proof_checked_against_other_bounds_is_rejected`);
//     here: a proof made for value x under bases (g, h) used under (g, h) with rmin/rmax swapped in sign
// ============================================================================================================
#[test]
fn proof_for_mirrored_interval_is_rejected() {
    let p = params();
    let r = fixed_randomness(1024, 20);
    let (a, b) = (int(3), int(9));
    let x = int(4);
    let c = commit(&p, &x, &r);
    let proof = prove(&p, &x, &c, &a, &b);
    assert!(accepted(&proof, &p, &a, &b));
    assert!(!accepted(&proof, &p, &int(-9), &int(-3)));
    assert!(!accepted(&proof, &p, &int(-3), &int(9)));
    assert!(!accepted(&proof, &p, &int(-9), &int(3)));
}

// ============================================================================================================
// 13. the other entry points: the CL03 presentation (PoKSignature) and blind-issuance proof (ZKPoK) make range proofs for the
//     hidden attributes over [0, 2^lm - 1]; attributes equal to the two endpoints
// ============================================================================================================
mod high_level {
    use super::*;
    use zkryptium::cl03::bases::Bases;
    use zkryptium::cl03::ciphersuites::CL1024Sha256;
    use zkryptium::cl03::keys::CL03CommitmentPublicKey;
    use zkryptium::keys::pair::KeyPair;
    use zkryptium::schemes::algorithms::CL03;
    use zkryptium::schemes::generics::{Commitment, PoKSignature, Signature, ZKPoK};
    use zkryptium::utils::message::cl03_message::CL03Message;

    type S = CL03<CL1024Sha256>;

    #[test]
    fn presentation_with_hidden_attributes_at_both_endpoints_verifies() {
        let kp = KeyPair::<S>::generate();
        let pk = kp.public_key();
        let a_bases = Bases::generate(pk, 3);
        let messages = vec![CL03Message::new(int(0)), CL03Message::new(pow2(256) - 1u32), CL03Message::new(int(7))];
        let sig = Signature::<S>::sign_multiattr(pk, kp.private_key(), &a_bases, &messages);
        assert!(sig.verify_multiattr(pk, &a_bases, &messages));
        let cpk = CL03CommitmentPublicKey::generate::<CL1024Sha256>(Some(pk.N.clone()), Some(3));
        let hidden = [0usize, 1];
        let pok = PoKSignature::<S>::proof_gen(sig.cl03Signature(), &cpk, pk, &a_bases, &messages, &hidden);
        let revealed = vec![messages[2].clone()];
        assert!(pok.proof_verify(&cpk, pk, &a_bases, &revealed, &hidden, 3));

        // blind issuance proof with the same endpoint attributes hidden
        let c = Commitment::<S>::commit_with_pk(&messages, pk, &a_bases, Some(&hidden));
        let zk = ZKPoK::<S>::generate_proof(&messages, c.cl03Commitment(), None, pk, &a_bases, None, &hidden);
        assert!(zk.verify_proof(c.cl03Commitment(), None, pk, &a_bases, None, &hidden));
    }

    // the presentation verifier compares spok.Ce with range_proof_e.E and then trusts the range proof: with Ce replaced by n - Ce
    // (possible whenever the Fiat-Shamir challenge of the signature proof is even, since Ce enters it only as Ce^(-challenge))
    // and a range proof made for n - Ce, the whole presentation must still be refused
    #[test]
    fn presentation_with_negated_commitment_to_e_is_rejected() {
        let kp = KeyPair::<S>::generate();
        let pk = kp.public_key();
        let a_bases = Bases::generate(pk, 2);
        let messages = vec![CL03Message::new(int(11)), CL03Message::new(int(22))];
        let sig = Signature::<S>::sign_multiattr(pk, kp.private_key(), &a_bases, &messages);
        let cpk = CL03CommitmentPublicKey::generate::<CL1024Sha256>(Some(pk.N.clone()), Some(2));
        let hidden = [0usize];
        let revealed = vec![messages[1].clone()];
        let e = get_int(&serde_json::to_value(sig.cl03Signature()).unwrap(), &["e"]);
        let min_e = pow2(257) + 1u32;
        let max_e = pow2(258) - 1u32;
        for _ in 0..40 {
            let pok = PoKSignature::<S>::proof_gen(sig.cl03Signature(), &cpk, pk, &a_bases, &messages, &hidden);
            assert!(pok.proof_verify(&cpk, pk, &a_bases, &revealed, &hidden, 2));
            let mut j = serde_json::to_value(&pok).unwrap();
            let inner = j.get_mut("CL03").unwrap();
            let challenge = get_int(inner, &["spok", "challenge"]);
            if challenge.is_odd() {
                continue;
            }
            let ce = get_int(inner, &["spok", "Ce", "value"]);
            let re = get_int(inner, &["spok", "Ce", "randomness"]);
            let minus = CL03Commitment { value: (&pk.N - &ce).complete(), randomness: re };
            let rp = RP::prove::<Sha256>(&e, &minus, &cpk.g_bases[0], &cpk.h, &cpk.N, &min_e, &max_e);
            set_int(inner, &["spok", "Ce", "value"], &minus.value);
            inner["range_proof_e"] = serde_json::to_value(&rp).unwrap();
            let forged: PoKSignature<S> = serde_json::from_value(j).unwrap();
            let ok = catch_unwind(AssertUnwindSafe(|| forged.proof_verify(&cpk, pk, &a_bases, &revealed, &hidden, 2))).ok();
            assert!(ok != Some(true), "a presentation whose commitment to e is n - Ce (not a commitment under (g, h)) is accepted");
            return;
        }
        panic!("no even challenge in 40 tries");
    }
}
