// Red-team candidates for PROPERTY C10 (second pass).
//
// `reference` below is an independent implementation of draft-irtf-cfrg-bbs-signatures-08 (and of the parts of
// the blind extension that the repository's vectors pin down).  It shares with the library only the curve
// arithmetic / hash_to_curve of `bls12_381_plus`; expand_message (XMD and XOF), hash_to_scalar, the generator
// seed chain, domain / challenge / e computations, the octet decoders and the verifiers are written from the
// draft text.  The `ref_reproduces_*` tests first require it to reproduce every fixture.
//
// Every other test asserts what the property requires (zkryptium == reference); a FAILING test is a violation.
#![allow(non_snake_case)]
#![allow(dead_code)]

use bls12_381_plus::{pairing, G1Affine, G1Projective, G2Affine, G2Projective, Scalar};
use elliptic_curve::hash2curve::{ExpandMsg, ExpandMsgXmd, ExpandMsgXof};
use zkryptium::{
    bbsplus::{
        ciphersuites::{BbsCiphersuite, Bls12381Sha256, Bls12381Shake256},
        commitment::BlindFactor,
        generators::Generators,
        keys::{BBSplusPublicKey, BBSplusSecretKey},
    },
    keys::pair::KeyPair,
    schemes::{
        algorithms::BBSplus,
        generics::{BlindSignature, Commitment, PoKSignature, Signature},
    },
    utils::{message::bbsplus_message::BBSplusMessage, util::bbsplus_utils::hash_to_scalar},
};

// ---------------------------------------------------------------------------------------------------------
// Independent reference
// ---------------------------------------------------------------------------------------------------------
mod reference {
    use super::*;

    pub type R<T> = Result<T, &'static str>;

    #[derive(Clone, Copy, Debug, PartialEq)]
    pub enum Suite {
        Sha256,
        Shake256,
    }

    pub fn i2osp(x: usize, n: usize) -> Vec<u8> {
        let x = x as u128;
        if n < 16 {
            assert!(x >> (8 * n) == 0, "i2osp: does not fit");
        }
        let mut out = vec![0u8; n];
        for k in 0..n.min(16) {
            out[n - 1 - k] = (x >> (8 * k)) as u8;
        }
        out
    }

    fn xmd_sha256(msg: &[u8], dst: &[u8], len: usize) -> Vec<u8> {
        use sha2::{Digest, Sha256};
        let dst: Vec<u8> = if dst.len() > 255 {
            let mut h = Sha256::new();
            h.update(b"H2C-OVERSIZE-DST-");
            h.update(dst);
            h.finalize().to_vec()
        } else {
            dst.to_vec()
        };
        let ell = (len + 31) / 32;
        assert!(ell <= 255 && len <= 65535);
        let mut dst_prime = dst.clone();
        dst_prime.push(dst.len() as u8);
        let mut h = Sha256::new();
        h.update([0u8; 64]);
        h.update(msg);
        h.update(i2osp(len, 2));
        h.update([0u8]);
        h.update(&dst_prime);
        let b0 = h.finalize().to_vec();
        let mut h = Sha256::new();
        h.update(&b0);
        h.update([1u8]);
        h.update(&dst_prime);
        let mut prev = h.finalize().to_vec();
        let mut out = prev.clone();
        for i in 2..=ell {
            let x: Vec<u8> = b0.iter().zip(prev.iter()).map(|(a, b)| a ^ b).collect();
            let mut h = Sha256::new();
            h.update(&x);
            h.update([i as u8]);
            h.update(&dst_prime);
            prev = h.finalize().to_vec();
            out.extend_from_slice(&prev);
        }
        out.truncate(len);
        out
    }

    fn xof_shake256(msg: &[u8], dst: &[u8], len: usize) -> Vec<u8> {
        use sha3::digest::{ExtendableOutput, Update, XofReader};
        use sha3::Shake256;
        assert!(len <= 65535);
        let dst: Vec<u8> = if dst.len() > 255 {
            let mut h = Shake256::default();
            h.update(b"H2C-OVERSIZE-DST-");
            h.update(dst);
            let mut o = [0u8; 32];
            h.finalize_xof().read(&mut o);
            o.to_vec()
        } else {
            dst.to_vec()
        };
        let mut h = Shake256::default();
        h.update(msg);
        h.update(&i2osp(len, 2));
        h.update(&dst);
        h.update(&[dst.len() as u8]);
        let mut out = vec![0u8; len];
        h.finalize_xof().read(&mut out);
        out
    }

    pub fn os2ip_mod_r(bytes: &[u8]) -> Scalar {
        let b256 = Scalar::from(256u64);
        let mut acc = Scalar::ZERO;
        for &b in bytes {
            acc = acc * b256 + Scalar::from(b as u64);
        }
        acc
    }

    pub fn g1_oct(p: &G1Projective) -> [u8; 48] {
        G1Affine::from(p).to_compressed()
    }
    pub fn g2_oct(p: &G2Projective) -> [u8; 96] {
        G2Affine::from(p).to_compressed()
    }

    impl Suite {
        pub fn id(self) -> &'static [u8] {
            match self {
                Suite::Sha256 => b"BBS_BLS12381G1_XMD:SHA-256_SSWU_RO_",
                Suite::Shake256 => b"BBS_BLS12381G1_XOF:SHAKE-256_SSWU_RO_",
            }
        }
        pub fn api_id(self) -> Vec<u8> {
            [self.id(), b"H2G_HM2S_"].concat()
        }
        pub fn api_id_blind(self) -> Vec<u8> {
            [self.id(), b"BLIND_H2G_HM2S_"].concat()
        }
        pub fn p1(self) -> G1Projective {
            let h = match self {
                Suite::Sha256 => "a8ce256102840821a3e94ea9025e4662b205762f9776b3a766c872b948f1fd225e7c59698588e70d11406d161b4e28c9",
                Suite::Shake256 => "8929dfbc7e6642c4ed9cba0856e493f8b9d7d5fcb0c31ef8fdcd34d50648a56c795e106e9eada6e0bda386b414150755",
            };
            let b: [u8; 48] = hex::decode(h).unwrap().try_into().unwrap();
            G1Projective::from(G1Affine::from_compressed(&b).unwrap())
        }
        pub fn expand_message(self, msg: &[u8], dst: &[u8], len: usize) -> Vec<u8> {
            match self {
                Suite::Sha256 => xmd_sha256(msg, dst, len),
                Suite::Shake256 => xof_shake256(msg, dst, len),
            }
        }
        pub fn hash_to_curve_g1(self, msg: &[u8], dst: &[u8]) -> G1Projective {
            match self {
                Suite::Sha256 => G1Projective::hash::<ExpandMsgXmd<sha2::Sha256>>(msg, dst),
                Suite::Shake256 => G1Projective::hash::<ExpandMsgXof<sha3::Shake256>>(msg, dst),
            }
        }
    }

    pub fn hash_to_scalar(s: Suite, msg: &[u8], dst: &[u8]) -> R<Scalar> {
        if dst.len() > 255 {
            return Err("dst > 255");
        }
        Ok(os2ip_mod_r(&s.expand_message(msg, dst, 48)))
    }

    pub fn create_generators(s: Suite, count: usize, api_id: &[u8]) -> Vec<G1Projective> {
        let seed_dst = [api_id, b"SIG_GENERATOR_SEED_"].concat();
        let generator_dst = [api_id, b"SIG_GENERATOR_DST_"].concat();
        let generator_seed = [api_id, b"MESSAGE_GENERATOR_SEED"].concat();
        let mut v = s.expand_message(&generator_seed, &seed_dst, 48);
        let mut out = Vec::new();
        for i in 1..=count {
            v = s.expand_message(&[&v[..], &i2osp(i, 8)].concat(), &seed_dst, 48);
            out.push(s.hash_to_curve_g1(&v, &generator_dst));
        }
        out
    }

    pub fn messages_to_scalars(s: Suite, msgs: &[Vec<u8>], api_id: &[u8]) -> R<Vec<Scalar>> {
        let dst = [api_id, b"MAP_MSG_TO_SCALAR_AS_HASH_"].concat();
        msgs.iter().map(|m| hash_to_scalar(s, m, &dst)).collect()
    }

    /// `literal_default`: the default key_dst of the draft text (ciphersuite_id || "KEYGEN_DST_");
    /// otherwise api_id || "KEYGEN_DST_" (the value the draft's key pair vector passes explicitly).
    pub fn key_gen(s: Suite, ikm: &[u8], key_info: Option<&[u8]>, key_dst: Option<&[u8]>, literal_default: bool) -> R<[u8; 32]> {
        if ikm.len() < 32 {
            return Err("ikm < 32");
        }
        let key_info = key_info.unwrap_or(b"");
        if key_info.len() > 65535 {
            return Err("key_info > 65535");
        }
        let default = if literal_default { [s.id(), b"KEYGEN_DST_"].concat() } else { [&s.api_id()[..], b"KEYGEN_DST_"].concat() };
        let key_dst = key_dst.unwrap_or(&default);
        let input = [ikm, &i2osp(key_info.len(), 2), key_info].concat();
        let sk = hash_to_scalar(s, &input, key_dst)?;
        if sk == Scalar::ZERO {
            return Err("sk = 0");
        }
        Ok(sk.to_be_bytes())
    }

    pub fn sk_to_pk(sk: &[u8; 32]) -> [u8; 96] {
        let sk = Scalar::from_be_bytes(sk).unwrap();
        g2_oct(&(G2Projective::GENERATOR * sk))
    }

    pub fn octets_to_scalar_nz(b: &[u8]) -> R<Scalar> {
        let a: [u8; 32] = b.try_into().map_err(|_| "scalar length")?;
        let s = Option::<Scalar>::from(Scalar::from_be_bytes(&a)).ok_or("scalar >= r")?;
        if s == Scalar::ZERO {
            return Err("scalar = 0");
        }
        Ok(s)
    }

    pub fn octets_to_point_g1_nz(b: &[u8]) -> R<G1Projective> {
        let a: [u8; 48] = b.try_into().map_err(|_| "point length")?;
        let p = Option::<G1Affine>::from(G1Affine::from_compressed(&a)).ok_or("invalid point")?;
        if bool::from(p.is_identity()) {
            return Err("identity");
        }
        Ok(G1Projective::from(p))
    }

    pub fn octets_to_pubkey(b: &[u8]) -> R<G2Projective> {
        let a: [u8; 96] = b.try_into().map_err(|_| "pk length")?;
        let p = Option::<G2Affine>::from(G2Affine::from_compressed(&a)).ok_or("invalid pk")?;
        if bool::from(p.is_identity()) {
            return Err("identity pk");
        }
        Ok(G2Projective::from(p))
    }

    pub fn octets_to_signature(b: &[u8]) -> R<(G1Projective, Scalar)> {
        if b.len() != 80 {
            return Err("signature length");
        }
        Ok((octets_to_point_g1_nz(&b[..48])?, octets_to_scalar_nz(&b[48..])?))
    }

    pub struct Proof {
        pub abar: G1Projective,
        pub bbar: G1Projective,
        pub d: G1Projective,
        pub e_hat: Scalar,
        pub r1_hat: Scalar,
        pub r3_hat: Scalar,
        pub m_hat: Vec<Scalar>,
        pub c: Scalar,
    }

    /// draft-08 4.2.4.5: three non-identity points, then scalars in 1..r-1, nothing left over
    pub fn octets_to_proof(b: &[u8]) -> R<Proof> {
        let floor = 3 * 48 + 4 * 32;
        if b.len() < floor {
            return Err("proof too short");
        }
        let abar = octets_to_point_g1_nz(&b[0..48])?;
        let bbar = octets_to_point_g1_nz(&b[48..96])?;
        let d = octets_to_point_g1_nz(&b[96..144])?;
        let mut idx = 144;
        let mut sc = Vec::new();
        while idx < b.len() {
            if idx + 32 > b.len() {
                return Err("trailing octets");
            }
            sc.push(octets_to_scalar_nz(&b[idx..idx + 32])?);
            idx += 32;
        }
        if sc.len() < 4 {
            return Err("too few scalars");
        }
        let c = sc.pop().unwrap();
        let m_hat = sc.split_off(3);
        Ok(Proof { abar, bbar, d, e_hat: sc[0], r1_hat: sc[1], r3_hat: sc[2], m_hat, c })
    }

    pub fn calculate_domain(s: Suite, pk: &[u8], q1: &G1Projective, h: &[G1Projective], header: &[u8], api_id: &[u8]) -> R<Scalar> {
        let mut v = Vec::new();
        v.extend_from_slice(pk);
        v.extend_from_slice(&i2osp(h.len(), 8));
        v.extend_from_slice(&g1_oct(q1));
        for p in h {
            v.extend_from_slice(&g1_oct(p));
        }
        v.extend_from_slice(api_id);
        v.extend_from_slice(&i2osp(header.len(), 8));
        v.extend_from_slice(header);
        hash_to_scalar(s, &v, &[api_id, b"H2S_"].concat())
    }

    fn b_value(s: Suite, gens: &[G1Projective], domain: &Scalar, msgs: &[Scalar]) -> G1Projective {
        let mut b = s.p1() + gens[0] * domain;
        for (h, m) in gens[1..].iter().zip(msgs) {
            b += h * m;
        }
        b
    }

    pub fn core_sign(s: Suite, sk: &[u8; 32], pk: &[u8], gens: &[G1Projective], header: &[u8], msgs: &[Scalar], api_id: &[u8]) -> R<[u8; 80]> {
        if gens.len() != msgs.len() + 1 {
            return Err("generators");
        }
        let skv = Option::<Scalar>::from(Scalar::from_be_bytes(sk)).ok_or("sk")?;
        let domain = calculate_domain(s, pk, &gens[0], &gens[1..], header, api_id)?;
        let mut ser = Vec::new();
        ser.extend_from_slice(sk);
        for m in msgs {
            ser.extend_from_slice(&m.to_be_bytes());
        }
        ser.extend_from_slice(&domain.to_be_bytes());
        let e = hash_to_scalar(s, &ser, &[api_id, b"H2S_"].concat())?;
        let b = b_value(s, gens, &domain, msgs);
        let inv = Option::<Scalar>::from((skv + e).invert()).ok_or("sk + e = 0")?;
        let a = b * inv;
        if bool::from(a.is_identity()) {
            return Err("A = identity");
        }
        let mut out = [0u8; 80];
        out[..48].copy_from_slice(&g1_oct(&a));
        out[48..].copy_from_slice(&e.to_be_bytes());
        Ok(out)
    }

    pub fn core_verify(s: Suite, pk: &[u8], sig: &[u8], gens: &[G1Projective], header: &[u8], msgs: &[Scalar], api_id: &[u8]) -> R<()> {
        let (a, e) = octets_to_signature(sig)?;
        let w = octets_to_pubkey(pk)?;
        if gens.len() != msgs.len() + 1 {
            return Err("generators");
        }
        let domain = calculate_domain(s, pk, &gens[0], &gens[1..], header, api_id)?;
        let b = b_value(s, gens, &domain, msgs);
        let lhs = pairing(&G1Affine::from(a), &G2Affine::from(w + G2Projective::GENERATOR * e));
        let rhs = pairing(&G1Affine::from(b), &G2Affine::generator());
        if lhs == rhs {
            Ok(())
        } else {
            Err("pairing")
        }
    }

    pub fn sign(s: Suite, sk: &[u8; 32], pk: &[u8], header: &[u8], msgs: &[Vec<u8>]) -> R<[u8; 80]> {
        let api = s.api_id();
        let sc = messages_to_scalars(s, msgs, &api)?;
        let gens = create_generators(s, msgs.len() + 1, &api);
        core_sign(s, sk, pk, &gens, header, &sc, &api)
    }

    pub fn verify(s: Suite, pk: &[u8], sig: &[u8], header: &[u8], msgs: &[Vec<u8>]) -> R<()> {
        let api = s.api_id();
        let sc = messages_to_scalars(s, msgs, &api)?;
        let gens = create_generators(s, msgs.len() + 1, &api);
        core_verify(s, pk, sig, &gens, header, &sc, &api)
    }

    fn challenge(s: Suite, idx: &[usize], dmsgs: &[Scalar], abar: &G1Projective, bbar: &G1Projective, d: &G1Projective, t1: &G1Projective, t2: &G1Projective, domain: &Scalar, ph: &[u8], api_id: &[u8]) -> R<Scalar> {
        if idx.len() != dmsgs.len() {
            return Err("R");
        }
        let mut v = Vec::new();
        v.extend_from_slice(&i2osp(idx.len(), 8));
        for (i, m) in idx.iter().zip(dmsgs) {
            v.extend_from_slice(&i2osp(*i, 8));
            v.extend_from_slice(&m.to_be_bytes());
        }
        for p in [abar, bbar, d, t1, t2] {
            v.extend_from_slice(&g1_oct(p));
        }
        v.extend_from_slice(&domain.to_be_bytes());
        v.extend_from_slice(&i2osp(ph.len(), 8));
        v.extend_from_slice(ph);
        hash_to_scalar(s, &v, &[api_id, b"H2S_"].concat())
    }

    /// randoms = (r1, r2, e~, r1~, r3~, m~_1 .. m~_U)
    pub fn core_proof_gen(s: Suite, pk: &[u8], sig: &[u8], gens: &[G1Projective], header: &[u8], ph: &[u8], msgs: &[Scalar], disclosed: &[usize], api_id: &[u8], randoms: &[Scalar]) -> R<Vec<u8>> {
        let (a, e) = octets_to_signature(sig)?;
        let l = msgs.len();
        let r = disclosed.len();
        if r > l {
            return Err("R > L");
        }
        let u = l - r;
        if disclosed.iter().any(|&i| i >= l) {
            return Err("index");
        }
        let undisclosed: Vec<usize> = (0..l).filter(|i| !disclosed.contains(i)).collect();
        if undisclosed.len() != u || randoms.len() != 5 + u || gens.len() != l + 1 {
            return Err("shape");
        }
        let domain = calculate_domain(s, pk, &gens[0], &gens[1..], header, api_id)?;
        let b = b_value(s, gens, &domain, msgs);
        let (r1, r2, et, r1t, r3t) = (randoms[0], randoms[1], randoms[2], randoms[3], randoms[4]);
        let mt = &randoms[5..];
        let d = b * r2;
        let abar = a * (r1 * r2);
        let bbar = d * r1 - abar * e;
        let t1 = abar * et + d * r1t;
        let mut t2 = d * r3t;
        for (k, &j) in undisclosed.iter().enumerate() {
            t2 += gens[1 + j] * mt[k];
        }
        let dmsgs: Vec<Scalar> = disclosed.iter().map(|&i| msgs[i]).collect();
        let c = challenge(s, disclosed, &dmsgs, &abar, &bbar, &d, &t1, &t2, &domain, ph, api_id)?;
        let r3 = Option::<Scalar>::from(r2.invert()).ok_or("r2 = 0")?;
        let mut out = Vec::new();
        out.extend_from_slice(&g1_oct(&abar));
        out.extend_from_slice(&g1_oct(&bbar));
        out.extend_from_slice(&g1_oct(&d));
        out.extend_from_slice(&(et + e * c).to_be_bytes());
        out.extend_from_slice(&(r1t - r1 * c).to_be_bytes());
        out.extend_from_slice(&(r3t - r3 * c).to_be_bytes());
        for (k, &j) in undisclosed.iter().enumerate() {
            out.extend_from_slice(&(mt[k] + msgs[j] * c).to_be_bytes());
        }
        out.extend_from_slice(&c.to_be_bytes());
        Ok(out)
    }

    pub fn core_proof_verify(s: Suite, pk: &[u8], proof: &[u8], gens: &[G1Projective], header: &[u8], ph: &[u8], dmsgs: &[Scalar], disclosed: &[usize], api_id: &[u8]) -> R<()> {
        let p = octets_to_proof(proof)?;
        let w = octets_to_pubkey(pk)?;
        let u = p.m_hat.len();
        let r = disclosed.len();
        let l = u + r;
        if disclosed.iter().any(|&i| i >= l) {
            return Err("index");
        }
        if dmsgs.len() != r {
            return Err("len(disclosed_messages) != R");
        }
        let undisclosed: Vec<usize> = (0..l).filter(|i| !disclosed.contains(i)).collect();
        if undisclosed.len() != u || gens.len() != l + 1 {
            return Err("shape");
        }
        let domain = calculate_domain(s, pk, &gens[0], &gens[1..], header, api_id)?;
        let t1 = p.bbar * p.c + p.abar * p.e_hat + p.d * p.r1_hat;
        let mut bv = s.p1() + gens[0] * domain;
        for (k, &i) in disclosed.iter().enumerate() {
            bv += gens[1 + i] * dmsgs[k];
        }
        let mut t2 = bv * p.c + p.d * p.r3_hat;
        for (k, &j) in undisclosed.iter().enumerate() {
            t2 += gens[1 + j] * p.m_hat[k];
        }
        let c = challenge(s, disclosed, dmsgs, &p.abar, &p.bbar, &p.d, &t1, &t2, &domain, ph, api_id)?;
        if c != p.c {
            return Err("challenge");
        }
        if pairing(&G1Affine::from(p.abar), &G2Affine::from(w)) == pairing(&G1Affine::from(p.bbar), &G2Affine::generator()) {
            Ok(())
        } else {
            Err("pairing")
        }
    }

    pub fn proof_gen(s: Suite, pk: &[u8], sig: &[u8], header: &[u8], ph: &[u8], msgs: &[Vec<u8>], disclosed: &[usize], randoms: &[Scalar]) -> R<Vec<u8>> {
        let api = s.api_id();
        let sc = messages_to_scalars(s, msgs, &api)?;
        let gens = create_generators(s, msgs.len() + 1, &api);
        core_proof_gen(s, pk, sig, &gens, header, ph, &sc, disclosed, &api, randoms)
    }

    pub fn proof_verify(s: Suite, pk: &[u8], proof: &[u8], header: &[u8], ph: &[u8], dmsgs: &[Vec<u8>], disclosed: &[usize]) -> R<()> {
        let api = s.api_id();
        let floor = 3 * 48 + 4 * 32;
        if proof.len() < floor {
            return Err("proof too short");
        }
        let u = (proof.len() - floor) / 32;
        let sc = messages_to_scalars(s, dmsgs, &api)?;
        let gens = create_generators(s, u + disclosed.len() + 1, &api);
        core_proof_verify(s, pk, proof, &gens, header, ph, &sc, disclosed, &api)
    }

    // ---------------- blind extension, as pinned by fixture_data_blind ----------------

    pub fn blind_generators(s: Suite, count: usize) -> Vec<G1Projective> {
        create_generators(s, count, &[b"BLIND_", &s.api_id_blind()[..]].concat())
    }

    pub fn blind_challenge(s: Suite, c: &G1Projective, cbar: &G1Projective, gens: &[G1Projective], api_id: &[u8]) -> R<Scalar> {
        if gens.is_empty() {
            return Err("generators");
        }
        let mut v = Vec::new();
        v.extend_from_slice(&i2osp(gens.len() - 1, 8));
        for g in gens {
            v.extend_from_slice(&g1_oct(g));
        }
        v.extend_from_slice(&g1_oct(c));
        v.extend_from_slice(&g1_oct(cbar));
        hash_to_scalar(s, &v, &[api_id, b"H2S_"].concat())
    }

    /// randoms = (secret_prover_blind, s~, m~_1 .. m~_M); returns commitment_with_proof
    pub fn commit(s: Suite, committed: &[Vec<u8>], randoms: &[Scalar]) -> R<Vec<u8>> {
        let api = s.api_id_blind();
        let sc = messages_to_scalars(s, committed, &api)?;
        let m = sc.len();
        let bg = blind_generators(s, m + 1);
        if randoms.len() != m + 2 {
            return Err("randoms");
        }
        let (spb, st, mt) = (randoms[0], randoms[1], &randoms[2..]);
        let mut c = bg[0] * spb;
        let mut cbar = bg[0] * st;
        for i in 0..m {
            c += bg[1 + i] * sc[i];
            cbar += bg[1 + i] * mt[i];
        }
        let ch = blind_challenge(s, &c, &cbar, &bg, &api)?;
        let mut out = Vec::new();
        out.extend_from_slice(&g1_oct(&c));
        out.extend_from_slice(&(st + spb * ch).to_be_bytes());
        for i in 0..m {
            out.extend_from_slice(&(mt[i] + sc[i] * ch).to_be_bytes());
        }
        out.extend_from_slice(&ch.to_be_bytes());
        Ok(out)
    }

    /// returns the commitment point (identity for the empty string)
    pub fn validate_commit(s: Suite, cwp: &[u8]) -> R<G1Projective> {
        if cwp.is_empty() {
            return Ok(G1Projective::IDENTITY);
        }
        let api = s.api_id_blind();
        if cwp.len() < 48 + 64 || (cwp.len() - 48) % 32 != 0 {
            return Err("commitment length");
        }
        let a: [u8; 48] = cwp[..48].try_into().unwrap();
        let c = G1Projective::from(Option::<G1Affine>::from(G1Affine::from_compressed(&a)).ok_or("invalid commitment")?);
        let mut sc = Vec::new();
        for ch in cwp[48..].chunks(32) {
            let a: [u8; 32] = ch.try_into().unwrap();
            sc.push(Option::<Scalar>::from(Scalar::from_be_bytes(&a)).ok_or("scalar >= r")?);
        }
        let chal = sc.pop().unwrap();
        let s_hat = sc[0];
        let m_hat = &sc[1..];
        let bg = blind_generators(s, m_hat.len() + 1);
        let mut cbar = bg[0] * s_hat;
        for i in 0..m_hat.len() {
            cbar += bg[1 + i] * m_hat[i];
        }
        cbar -= c * chal;
        if blind_challenge(s, &c, &cbar, &bg, &api)? == chal {
            Ok(c)
        } else {
            Err("commitment proof")
        }
    }

    pub fn blind_sign(s: Suite, sk: &[u8; 32], pk: &[u8], cwp: &[u8], header: &[u8], msgs: &[Vec<u8>]) -> R<[u8; 80]> {
        let api = s.api_id_blind();
        let skv = Option::<Scalar>::from(Scalar::from_be_bytes(sk)).ok_or("sk")?;
        let m = if cwp.is_empty() { 0 } else { (cwp.len().checked_sub(48 + 64).ok_or("commitment length")?) / 32 };
        let gens = create_generators(s, msgs.len() + 1, &api);
        let bg = blind_generators(s, m + 1);
        let commit = validate_commit(s, cwp)?;
        let sc = messages_to_scalars(s, msgs, &api)?;
        let mut b = s.p1();
        for i in 0..sc.len() {
            b += gens[1 + i] * sc[i];
        }
        b += commit;
        if bool::from(b.is_identity()) {
            return Err("B = identity");
        }
        let h: Vec<G1Projective> = gens[1..].iter().chain(bg.iter()).cloned().collect();
        let domain = calculate_domain(s, pk, &gens[0], &h, header, &api)?;
        let b = b + gens[0] * domain;
        let e = hash_to_scalar(s, &[&sk[..], &g1_oct(&b)[..]].concat(), &[&api[..], b"H2S_"].concat())?;
        let inv = Option::<Scalar>::from((skv + e).invert()).ok_or("sk + e = 0")?;
        let a = b * inv;
        let mut out = [0u8; 80];
        out[..48].copy_from_slice(&g1_oct(&a));
        out[48..].copy_from_slice(&e.to_be_bytes());
        Ok(out)
    }

    /// (message scalars, generators) of the blind verifier / prover
    pub fn blind_params(s: Suite, msgs: &[Vec<u8>], committed: &[Vec<u8>], n_gen: usize, n_blind: usize, spb: Option<Scalar>) -> R<(Vec<Scalar>, Vec<G1Projective>)> {
        let api = s.api_id_blind();
        let mut sc = messages_to_scalars(s, msgs, &api)?;
        if let Some(b) = spb {
            sc.push(b);
        }
        sc.extend(messages_to_scalars(s, committed, &api)?);
        let mut g = create_generators(s, n_gen, &api);
        g.extend(blind_generators(s, n_blind));
        Ok((sc, g))
    }

    pub fn blind_verify(s: Suite, pk: &[u8], sig: &[u8], header: &[u8], msgs: &[Vec<u8>], committed: &[Vec<u8>], spb: Scalar) -> R<()> {
        let (sc, g) = blind_params(s, msgs, committed, msgs.len() + 1, committed.len() + 1, Some(spb))?;
        core_verify(s, pk, sig, &g, header, &sc, &s.api_id_blind())
    }

    pub fn blind_proof_verify(s: Suite, pk: &[u8], proof: &[u8], header: &[u8], ph: &[u8], l: usize, dmsgs: &[Vec<u8>], dcommitted: &[Vec<u8>], idx: &[usize], cidx: &[usize]) -> R<()> {
        let floor = 3 * 48 + 4 * 32;
        if proof.len() < floor {
            return Err("proof too short");
        }
        let u = (proof.len() - floor) / 32;
        let n = idx.len() + cidx.len() + u;
        let m = n.checked_sub(1).and_then(|x| x.checked_sub(l)).ok_or("M < 0")?;
        if idx.iter().any(|&i| i >= l) || cidx.iter().any(|&j| j >= m) {
            return Err("index");
        }
        if dmsgs.len() != idx.len() || dcommitted.len() != cidx.len() {
            return Err("lengths");
        }
        let (sc, g) = blind_params(s, dmsgs, dcommitted, l + 1, m + 1, None)?;
        let all: Vec<usize> = idx.iter().cloned().chain(cidx.iter().map(|j| j + l + 1)).collect();
        core_proof_verify(s, pk, proof, &g, header, ph, &sc, &all, &s.api_id_blind())
    }
}

use reference::Suite;

// ---------------------------------------------------------------------------------------------------------
// helpers
// ---------------------------------------------------------------------------------------------------------
fn hx(s: &str) -> Vec<u8> {
    hex::decode(s).unwrap()
}
fn load(path: &str) -> serde_json::Value {
    serde_json::from_str(&std::fs::read_to_string(path).unwrap_or_else(|_| panic!("cannot read {path}"))).unwrap()
}
fn strs(v: &serde_json::Value) -> Vec<Vec<u8>> {
    v.as_array().map(|a| a.iter().map(|m| hx(m.as_str().unwrap())).collect()).unwrap_or_default()
}
fn dir(s: Suite) -> &'static str {
    match s {
        Suite::Sha256 => "bls12-381-sha-256",
        Suite::Shake256 => "bls12-381-shake-256",
    }
}
fn sc(h: &str) -> Scalar {
    Scalar::from_be_bytes(&hx(h).try_into().unwrap()).unwrap()
}
/// deterministic octets
fn prng(seed: u64, n: usize) -> Vec<u8> {
    let mut x = seed.wrapping_mul(0x9E37_79B9_7F4A_7C15) | 1;
    (0..n)
        .map(|_| {
            x ^= x << 13;
            x ^= x >> 7;
            x ^= x << 17;
            (x >> 24) as u8
        })
        .collect()
}
/// deterministic non-zero scalars for the reference prover
fn det_scalars(seed: u64, n: usize) -> Vec<Scalar> {
    (0..n).map(|i| reference::os2ip_mod_r(&prng(seed * 1000 + i as u64 + 1, 48))).collect()
}
const IKM: &[u8] = b"this-IS-just-an-Test-IKM-to-generate-$e(r@t#-key";

fn ref_keys(s: Suite) -> ([u8; 32], [u8; 96]) {
    let sk = reference::key_gen(s, IKM, Some(b"info"), Some(b"some-dst"), false).unwrap();
    (sk, reference::sk_to_pk(&sk))
}
fn z_keys(s: Suite) -> (BBSplusSecretKey, BBSplusPublicKey) {
    let (sk, pk) = ref_keys(s);
    (BBSplusSecretKey::from_bytes(&sk).unwrap(), BBSplusPublicKey::from_bytes(&pk).unwrap())
}
fn msgs(n: usize) -> Vec<Vec<u8>> {
    (0..n).map(|i| prng(77 + i as u64, (i * 7) % 40)).collect()
}

/// runs `f` for both ciphersuites
macro_rules! both {
    ($f:ident) => {{
        $f::<Bls12381Sha256>(Suite::Sha256);
        $f::<Bls12381Shake256>(Suite::Shake256);
    }};
}

/// like `both!`, but the second ciphersuite is tried even if the first one fails
macro_rules! both_collect {
    ($f:ident) => {{
        let a = std::panic::catch_unwind(|| $f::<Bls12381Sha256>(Suite::Sha256)).is_ok();
        let b = std::panic::catch_unwind(|| $f::<Bls12381Shake256>(Suite::Shake256)).is_ok();
        assert!(a && b, "held for SHA-256: {a}, held for SHAKE-256: {b}");
    }};
}

// ---------------------------------------------------------------------------------------------------------
// 0. the reference reproduces every fixture
// ---------------------------------------------------------------------------------------------------------
#[test]
fn ref_reproduces_core_fixtures() {
    for s in [Suite::Sha256, Suite::Shake256] {
        let d = format!("fixture_data/{}", dir(s));
        // h2s
        let j = load(&format!("{d}/h2s.json"));
        let v = reference::hash_to_scalar(s, &hx(j["message"].as_str().unwrap()), &hx(j["dst"].as_str().unwrap())).unwrap();
        assert_eq!(hex::encode(v.to_be_bytes()), j["scalar"].as_str().unwrap());
        // map message to scalar
        let j = load(&format!("{d}/MapMessageToScalarAsHash.json"));
        for c in j["cases"].as_array().unwrap() {
            let v = reference::messages_to_scalars(s, &[hx(c["message"].as_str().unwrap())], &s.api_id()).unwrap();
            assert_eq!(hex::encode(v[0].to_be_bytes()), c["scalar"].as_str().unwrap());
        }
        // generators
        let j = load(&format!("{d}/generators.json"));
        let exp = j["MsgGenerators"].as_array().unwrap();
        let g = reference::create_generators(s, exp.len() + 1, &s.api_id());
        assert_eq!(hex::encode(reference::g1_oct(&s.p1())), j["P1"].as_str().unwrap());
        assert_eq!(hex::encode(reference::g1_oct(&g[0])), j["Q1"].as_str().unwrap());
        for (i, e) in exp.iter().enumerate() {
            assert_eq!(hex::encode(reference::g1_oct(&g[i + 1])), e.as_str().unwrap());
        }
        // key pair
        let j = load(&format!("{d}/keypair.json"));
        let sk = reference::key_gen(s, &hx(j["keyMaterial"].as_str().unwrap()), Some(&hx(j["keyInfo"].as_str().unwrap())), Some(&hx(j["keyDst"].as_str().unwrap())), true).unwrap();
        assert_eq!(hex::encode(sk), j["keyPair"]["secretKey"].as_str().unwrap());
        assert_eq!(hex::encode(reference::sk_to_pk(&sk)), j["keyPair"]["publicKey"].as_str().unwrap());
        // mocked rng
        let j = load(&format!("{d}/mockedRng.json"));
        let n = j["count"].as_u64().unwrap() as usize;
        let bytes = s.expand_message(&hx(j["seed"].as_str().unwrap()), &hx(j["dst"].as_str().unwrap()), 48 * n);
        for (i, e) in j["mockedScalars"].as_array().unwrap().iter().enumerate() {
            assert_eq!(hex::encode(reference::os2ip_mod_r(&bytes[48 * i..48 * i + 48]).to_be_bytes()), e.as_str().unwrap());
        }
        // signatures
        for k in 1..=10 {
            let j = load(&format!("{d}/signature/signature{k:03}.json"));
            let sk: [u8; 32] = hx(j["signerKeyPair"]["secretKey"].as_str().unwrap()).try_into().unwrap();
            let pk = hx(j["signerKeyPair"]["publicKey"].as_str().unwrap());
            let header = hx(j["header"].as_str().unwrap());
            let m = strs(&j["messages"]);
            let sig = hx(j["signature"].as_str().unwrap());
            let valid = j["result"]["valid"].as_bool().unwrap();
            let mine = reference::sign(s, &sk, &pk, &header, &m).unwrap();
            assert_eq!(mine.to_vec() == sig, valid, "sign {k}");
            assert_eq!(reference::verify(s, &pk, &sig, &header, &m).is_ok(), valid, "verify {k}");
        }
        // proofs
        for k in 1..=15 {
            let j = load(&format!("{d}/proof/proof{k:03}.json"));
            let pk = hx(j["signerPublicKey"].as_str().unwrap());
            let header = hx(j["header"].as_str().unwrap());
            let ph = hx(j["presentationHeader"].as_str().unwrap());
            let m = strs(&j["messages"]);
            let idx: Vec<usize> = j["disclosedIndexes"].as_array().unwrap().iter().map(|x| x.as_u64().unwrap() as usize).collect();
            let proof = hx(j["proof"].as_str().unwrap());
            let valid = j["result"]["valid"].as_bool().unwrap();
            let dm: Vec<Vec<u8>> = idx.iter().map(|&i| m[i].clone()).collect();
            assert_eq!(reference::proof_verify(s, &pk, &proof, &header, &ph, &dm, &idx).is_ok(), valid, "proof verify {k}");
            if valid {
                let t = &j["trace"]["random_scalars"];
                let mut r = vec![sc(t["r1"].as_str().unwrap()), sc(t["r2"].as_str().unwrap()), sc(t["e_tilde"].as_str().unwrap()), sc(t["r1_tilde"].as_str().unwrap()), sc(t["r3_tilde"].as_str().unwrap())];
                for x in t["m_tilde_scalars"].as_array().unwrap() {
                    r.push(sc(x.as_str().unwrap()));
                }
                let sig = hx(j["signature"].as_str().unwrap());
                let mine = reference::proof_gen(s, &pk, &sig, &header, &ph, &m, &idx, &r).unwrap();
                assert_eq!(hex::encode(mine), hex::encode(&proof), "proof gen {k}");
            }
        }
    }
}

#[test]
fn ref_reproduces_blind_fixtures() {
    for s in [Suite::Sha256, Suite::Shake256] {
        let d = format!("fixture_data_blind/{}", dir(s));
        let dst = [&s.api_id()[..], b"COMMIT_MOCK_RANDOM_SCALARS_DST_"].concat();
        for k in 1..=2 {
            let j = load(&format!("{d}/commit/commit{k:03}.json"));
            let cm = strs(&j["committedMessages"]);
            let n = cm.len() + 2;
            let bytes = s.expand_message(b"3.141592653589793238462643383279", &dst, 48 * n);
            let r: Vec<Scalar> = (0..n).map(|i| reference::os2ip_mod_r(&bytes[48 * i..48 * i + 48])).collect();
            assert_eq!(hex::encode(r[0].to_be_bytes()), j["proverBlind"].as_str().unwrap());
            let c = reference::commit(s, &cm, &r).unwrap();
            assert_eq!(hex::encode(&c), j["commitmentWithProof"].as_str().unwrap(), "commit {k}");
            assert_eq!(reference::validate_commit(s, &c).is_ok(), j["result"]["valid"].as_bool().unwrap());
        }
        for k in 1..=5 {
            let j = load(&format!("{d}/signature/signature{k:03}.json"));
            let sk: [u8; 32] = hx(j["signerKeyPair"]["secretKey"].as_str().unwrap()).try_into().unwrap();
            let pk = hx(j["signerKeyPair"]["publicKey"].as_str().unwrap());
            let header = hx(j["header"].as_str().unwrap());
            let m = strs(&j["messages"]);
            let cm = strs(&j["committedMessages"]);
            let cwp = j["commitmentWithProof"].as_str().map(hx).unwrap_or_default();
            let spb = j["proverBlind"].as_str().map(sc).unwrap_or(Scalar::ZERO);
            let sig = reference::blind_sign(s, &sk, &pk, &cwp, &header, &m).unwrap();
            assert_eq!(hex::encode(sig), j["signature"].as_str().unwrap(), "blind sign {k}");
            assert_eq!(reference::blind_verify(s, &pk, &sig, &header, &m, &cm, spb).is_ok(), j["result"]["valid"].as_bool().unwrap(), "blind verify {k}");
        }
        for k in 1..=8 {
            let j = load(&format!("{d}/proof/proof{k:03}.json"));
            let pk = hx(j["signerPublicKey"].as_str().unwrap());
            let header = hx(j["header"].as_str().unwrap());
            let ph = hx(j["presentationHeader"].as_str().unwrap());
            let l = j["L"].as_u64().unwrap() as usize;
            let proof = hx(j["proof"].as_str().unwrap());
            let pairs = |v: &serde_json::Value| -> (Vec<usize>, Vec<Vec<u8>>) {
                let mut p: Vec<(usize, Vec<u8>)> = v.as_object().map(|o| o.iter().map(|(k, m)| (k.parse().unwrap(), hx(m.as_str().unwrap()))).collect()).unwrap_or_default();
                p.sort();
                (p.iter().map(|x| x.0).collect(), p.iter().map(|x| x.1.clone()).collect())
            };
            let (idx, dm) = pairs(&j["revealedMessages"]);
            let (cidx, dcm) = pairs(&j["revealedCommittedMessages"]);
            assert_eq!(reference::blind_proof_verify(s, &pk, &proof, &header, &ph, l, &dm, &dcm, &idx, &cidx).is_ok(), j["result"]["valid"].as_bool().unwrap(), "blind proof verify {k}");
        }
    }
}

// ---------------------------------------------------------------------------------------------------------
// 1. key generation
// ---------------------------------------------------------------------------------------------------------
fn z_keygen<CS: BbsCiphersuite>(ikm: &[u8], info: Option<&[u8]>, dst: Option<&[u8]>) -> Result<([u8; 32], [u8; 96]), String>
where
    CS::Expander: for<'a> ExpandMsg<'a>,
{
    KeyPair::<BBSplus<CS>>::generate(ikm, info, dst)
        .map(|kp| (kp.private_key().to_bytes(), kp.public_key().to_bytes()))
        .map_err(|e| format!("{e:?}"))
}

/// explicit key_dst: sizes around every limit, None vs empty key_info, empty key_dst
#[test]
fn keygen_explicit_dst_matches_reference_at_the_limits() {
    fn run<CS: BbsCiphersuite>(s: Suite)
    where
        CS::Expander: for<'a> ExpandMsg<'a>,
    {
        let big = prng(5, 65536);
        let ikms: [&[u8]; 5] = [&big[..0], &big[..31], &big[..32], &big[..33], &big[..64]];
        let infos: [Option<&[u8]>; 7] = [None, Some(&big[..0]), Some(&big[..1]), Some(&big[..255]), Some(&big[..256]), Some(&big[..65535]), Some(&big[..65536])];
        let dsts: [&[u8]; 6] = [&big[..0], &big[..1], &big[..54], &big[..254], &big[..255], &big[..256]];
        for ikm in ikms {
            for info in infos {
                for dst in dsts {
                    let z = z_keygen::<CS>(ikm, info, Some(dst));
                    let r = reference::key_gen(s, ikm, info, Some(dst), true);
                    assert_eq!(z.is_ok(), r.is_ok(), "decision ikm={} info={:?} dst={}", ikm.len(), info.map(|i| i.len()), dst.len());
                    if let (Ok(z), Ok(r)) = (z, r) {
                        assert_eq!(z.0, r, "sk ikm={} info={:?} dst={}", ikm.len(), info.map(|i| i.len()), dst.len());
                        assert_eq!(z.1, reference::sk_to_pk(&r), "pk");
                    }
                }
            }
        }
        // the three refusals the statement names, and the values next to them
        assert!(z_keygen::<CS>(&big[..31], None, None).is_err());
        assert!(z_keygen::<CS>(&big[..32], None, None).is_ok());
        assert!(z_keygen::<CS>(&big[..32], Some(&big[..65536]), None).is_err());
        assert!(z_keygen::<CS>(&big[..32], Some(&big[..65535]), None).is_ok());
        assert!(z_keygen::<CS>(&big[..32], None, Some(&big[..256])).is_err());
        assert!(z_keygen::<CS>(&big[..32], None, Some(&big[..255])).is_ok());
        // None and the empty key_info are the same input
        assert_eq!(z_keygen::<CS>(IKM, None, Some(b"d")).unwrap(), z_keygen::<CS>(IKM, Some(b""), Some(b"d")).unwrap());
    }
    both!(run);
}

/// key_dst = None: the draft text (3.4.1, quoted in the doc comment of `key_gen`) defaults it to
/// ciphersuite_id || "KEYGEN_DST_", where ciphersuite_id is "BBS_BLS12381G1_XMD:SHA-256_SSWU_RO_" (api_id is
/// ciphersuite_id || "H2G_HM2S_").  The key pair vector passes key_dst explicitly, so no fixture pins the default.
#[test]
fn keygen_default_dst_is_ciphersuite_id_keygen_dst() {
    fn run<CS: BbsCiphersuite>(s: Suite)
    where
        CS::Expander: for<'a> ExpandMsg<'a>,
    {
        let z = z_keygen::<CS>(IKM, Some(b"info"), None).unwrap();
        let literal = reference::key_gen(s, IKM, Some(b"info"), None, true).unwrap();
        let api = reference::key_gen(s, IKM, Some(b"info"), None, false).unwrap();
        eprintln!("{s:?}: zkryptium {} / ciphersuite_id default {} / api_id default {}", hex::encode(z.0), hex::encode(literal), hex::encode(api));
        assert_eq!(hex::encode(z.0), hex::encode(literal), "{s:?}: default key_dst is not ciphersuite_id || KEYGEN_DST_ (it is api_id || KEYGEN_DST_: {})", z.0 == api);
    }
    both_collect!(run);
}

// ---------------------------------------------------------------------------------------------------------
// 2. hash_to_scalar, message mapping
// ---------------------------------------------------------------------------------------------------------
#[test]
fn hash_to_scalar_matches_reference_for_all_dst_and_message_sizes() {
    fn run<CS: BbsCiphersuite>(s: Suite)
    where
        CS::Expander: for<'a> ExpandMsg<'a>,
    {
        let big = prng(9, 70000);
        for ml in [0usize, 1, 31, 32, 55, 56, 63, 64, 65, 135, 136, 137, 255, 256, 65535, 65536, 70000] {
            for dl in [0usize, 1, 16, 254, 255, 256, 300] {
                let z = hash_to_scalar::<CS>(&big[..ml], &big[100..100 + dl]);
                let r = reference::hash_to_scalar(s, &big[..ml], &big[100..100 + dl]);
                assert_eq!(z.is_ok(), r.is_ok(), "decision msg={ml} dst={dl}");
                if let (Ok(z), Ok(r)) = (z, r) {
                    assert_eq!(z.to_be_bytes(), r.to_be_bytes(), "msg={ml} dst={dl}");
                }
            }
        }
    }
    both!(run);
}

#[test]
fn messages_to_scalars_matches_reference_incl_empty_and_long_api_id() {
    fn run<CS: BbsCiphersuite>(s: Suite)
    where
        CS::Expander: for<'a> ExpandMsg<'a>,
    {
        let big = prng(11, 400);
        let m = vec![vec![], vec![0u8], prng(3, 31), prng(4, 32), prng(5, 33), prng(6, 5000), vec![], vec![0u8]];
        // "MAP_MSG_TO_SCALAR_AS_HASH_" is 26 octets: 229 is the longest api_id whose map_dst fits in 255
        for al in [0usize, 1, 44, 228, 229, 230, 255, 256] {
            let api = &big[..al];
            let z = BBSplusMessage::messages_to_scalar::<CS>(&m, api);
            let r = reference::messages_to_scalars(s, &m, api);
            assert_eq!(z.is_ok(), r.is_ok(), "decision api_id={al}");
            if let (Ok(z), Ok(r)) = (z, r) {
                assert_eq!(z.iter().map(|x| x.to_bytes_be()).collect::<Vec<_>>(), r.iter().map(|x| x.to_be_bytes()).collect::<Vec<_>>());
                for (i, mm) in m.iter().enumerate() {
                    assert_eq!(BBSplusMessage::map_message_to_scalar_as_hash::<CS>(mm, api).unwrap().to_bytes_be(), r[i].to_be_bytes());
                }
            } else {
                assert!(BBSplusMessage::map_message_to_scalar_as_hash::<CS>(&m[0], api).is_err());
            }
        }
        // the empty list
        assert!(BBSplusMessage::messages_to_scalar::<CS>(&[], CS::API_ID).unwrap().is_empty());
        assert_eq!(CS::API_ID, &s.api_id()[..]);
        assert_eq!(CS::API_ID_BLIND, &s.api_id_blind()[..]);
    }
    both!(run);
}

// ---------------------------------------------------------------------------------------------------------
// 3. generators
// ---------------------------------------------------------------------------------------------------------
#[test]
fn generators_match_reference_for_counts_and_api_ids() {
    fn run<CS: BbsCiphersuite>(s: Suite)
    where
        CS::Expander: for<'a> ExpandMsg<'a>,
    {
        let big = prng(13, 400);
        let oct = |g: &Generators| g.values.iter().map(reference::g1_oct).collect::<Vec<_>>();
        let roct = |g: &[G1Projective]| g.iter().map(reference::g1_oct).collect::<Vec<_>>();
        // None is the empty api_id
        assert_eq!(oct(&Generators::create::<CS>(3, None)), oct(&Generators::create::<CS>(3, Some(b""))));
        // "SIG_GENERATOR_SEED_" is 19, "SIG_GENERATOR_DST_" 18, "MESSAGE_GENERATOR_SEED" 22 octets: api_ids around the 255 limit of
        // either tag take the oversize-DST path of RFC 9380 5.3.3 (create_generators has no abort condition in the draft)
        for al in [0usize, 1, 44, 236, 237, 238, 255, 256, 300] {
            let api = &big[..al];
            for count in [0usize, 1, 2, 5] {
                let z = Generators::create::<CS>(count, Some(api));
                let r = reference::create_generators(s, count, api);
                assert_eq!(z.values.len(), count);
                assert_eq!(oct(&z), roct(&r), "api_id={al} count={count}");
                assert_eq!(reference::g1_oct(&z.g1_base_point), reference::g1_oct(&s.p1()));
            }
        }
        // prefix consistency between different counts, and a count that needs the 8-octet counter beyond one octet
        let z = Generators::create::<CS>(260, Some(CS::API_ID));
        let r = reference::create_generators(s, 260, &s.api_id());
        assert_eq!(oct(&z), roct(&r));
        let z7 = Generators::create::<CS>(7, Some(CS::API_ID));
        assert_eq!(oct(&z7), oct(&z)[..7].to_vec());
        // all distinct, none the identity or P1
        let mut seen = std::collections::HashSet::new();
        for g in oct(&z) {
            assert!(seen.insert(g));
        }
        assert!(!seen.contains(&reference::g1_oct(&s.p1())) && !seen.contains(&reference::g1_oct(&G1Projective::IDENTITY)));
    }
    both!(run);
}

// ---------------------------------------------------------------------------------------------------------
// 4. Sign / Verify
// ---------------------------------------------------------------------------------------------------------
fn z_sign<CS: BbsCiphersuite>(m: Option<&[Vec<u8>]>, h: Option<&[u8]>, s: Suite) -> [u8; 80]
where
    CS::Expander: for<'a> ExpandMsg<'a>,
{
    let (sk, pk) = z_keys(s);
    Signature::<BBSplus<CS>>::sign(m, &sk, &pk, h).unwrap().to_bytes()
}
fn z_verify<CS: BbsCiphersuite>(pk: &[u8], sig: &[u8], h: Option<&[u8]>, m: Option<&[Vec<u8>]>) -> bool
where
    CS::Expander: for<'a> ExpandMsg<'a>,
{
    // octets in, decision out: a decoder that refuses is a refusal of the verifier
    let Ok(pk) = BBSplusPublicKey::from_bytes(pk) else { return false };
    let Ok(sig) = <[u8; 80]>::try_from(sig) else { return false };
    let Ok(sig) = Signature::<BBSplus<CS>>::from_bytes(&sig) else { return false };
    sig.verify(&pk, m, h).is_ok()
}

#[test]
fn sign_matches_reference_for_shapes_no_vector_covers() {
    fn run<CS: BbsCiphersuite>(s: Suite)
    where
        CS::Expander: for<'a> ExpandMsg<'a>,
    {
        let (sk, pk) = ref_keys(s);
        let big = prng(21, 70000);
        let headers: [Option<&[u8]>; 7] = [None, Some(&big[..0]), Some(&big[..1]), Some(&big[..255]), Some(&big[..256]), Some(&big[..257]), Some(&big[..65537])];
        for l in [0usize, 1, 2, 3] {
            let m = msgs(l);
            for h in headers {
                let z = z_sign::<CS>(Some(&m), h, s);
                let r = reference::sign(s, &sk, &pk, h.unwrap_or(b""), &m).unwrap();
                assert_eq!(hex::encode(z), hex::encode(r), "L={l} header={:?}", h.map(|x| x.len()));
                if l == 3 && h.map(|x| x.len() == 256).unwrap_or(true) {
                    assert!(z_verify::<CS>(&pk, &z, h, Some(&m)));
                    assert!(reference::verify(s, &pk, &z, h.unwrap_or(b""), &m).is_ok());
                }
            }
        }
        // None and the empty list / header are the same input
        assert_eq!(z_sign::<CS>(None, None, s), z_sign::<CS>(Some(&[]), Some(b""), s));
        // duplicated, empty and very long messages
        let m = vec![vec![], vec![], prng(1, 20000), prng(1, 20000), vec![0u8; 3]];
        assert_eq!(hex::encode(z_sign::<CS>(Some(&m), Some(b"h"), s)), hex::encode(reference::sign(s, &sk, &pk, b"h", &m).unwrap()));
    }
    both!(run);
}

/// L = 257: the 8-octet length prefix of the domain and the generator counter go beyond one octet
#[test]
fn sign_and_verify_match_reference_for_more_than_255_messages() {
    fn run<CS: BbsCiphersuite>(s: Suite)
    where
        CS::Expander: for<'a> ExpandMsg<'a>,
    {
        let (sk, pk) = ref_keys(s);
        let m: Vec<Vec<u8>> = (0..257).map(|i| vec![(i % 256) as u8, (i / 256) as u8]).collect();
        let z = z_sign::<CS>(Some(&m), Some(b"hdr"), s);
        assert_eq!(hex::encode(z), hex::encode(reference::sign(s, &sk, &pk, b"hdr", &m).unwrap()));
        assert!(z_verify::<CS>(&pk, &z, Some(b"hdr"), Some(&m)));
        assert!(!z_verify::<CS>(&pk, &z, Some(b"hdr"), Some(&m[..256])));
    }
    run::<Bls12381Sha256>(Suite::Sha256);
}

/// the same for 256 messages with the other ciphersuite
#[test]
fn sign_and_verify_match_reference_for_256_messages_shake() {
    let s = Suite::Shake256;
    let (sk, pk) = ref_keys(s);
    let m: Vec<Vec<u8>> = (0..256).map(|i| vec![i as u8]).collect();
    let z = z_sign::<Bls12381Shake256>(Some(&m), None, s);
    assert_eq!(hex::encode(z), hex::encode(reference::sign(s, &sk, &pk, b"", &m).unwrap()));
    assert!(z_verify::<Bls12381Shake256>(&pk, &z, None, Some(&m)));
}

#[test]
fn verify_decisions_match_reference_on_mutated_signatures() {
    fn run<CS: BbsCiphersuite>(s: Suite)
    where
        CS::Expander: for<'a> ExpandMsg<'a>,
    {
        let (sk, pk) = ref_keys(s);
        let m = msgs(3);
        let sig = reference::sign(s, &sk, &pk, b"hdr", &m).unwrap();
        let other_sk = reference::key_gen(s, IKM, Some(b"other"), Some(b"some-dst"), false).unwrap();
        let other_pk = reference::sk_to_pk(&other_sk);
        let r_order = hx("73eda753299d7d483339d80809a1d80553bda402fffe5bfeffffffff00000001");
        let mut cases: Vec<(String, Vec<u8>, Vec<u8>, Vec<u8>, Vec<Vec<u8>>)> = Vec::new();
        let mut add = |n: &str, pk: &[u8], sig: &[u8], h: &[u8], m: &[Vec<u8>]| cases.push((n.to_string(), pk.to_vec(), sig.to_vec(), h.to_vec(), m.to_vec()));
        add("honest", &pk, &sig, b"hdr", &m);
        add("other header", &pk, &sig, b"hdr2", &m);
        add("empty header", &pk, &sig, b"", &m);
        add("other key", &other_pk, &sig, b"hdr", &m);
        add("one message less", &pk, &sig, b"hdr", &m[..2]);
        add("no message", &pk, &sig, b"hdr", &[]);
        let mut mm = m.clone();
        mm.push(vec![]);
        add("one message more", &pk, &sig, b"hdr", &mm);
        let mut mm = m.clone();
        mm.swap(0, 1);
        add("swapped messages", &pk, &sig, b"hdr", &mm);
        for bit in [0usize, 7, 8, 47 * 8 + 7, 48 * 8, 79 * 8 + 7, 300] {
            let mut t = sig.to_vec();
            t[bit / 8] ^= 1 << (bit % 8);
            add(&format!("bit {bit} of the signature"), &pk, &t, b"hdr", &m);
        }
        for bit in [0usize, 5, 95 * 8 + 7] {
            let mut t = pk.to_vec();
            t[bit / 8] ^= 1 << (bit % 8);
            add(&format!("bit {bit} of the key"), &t, &sig, b"hdr", &m);
        }
        // e = 0, e = r, e = e + r (non canonical), e = r - 1
        let mut t = sig.to_vec();
        t[48..].fill(0);
        add("e = 0", &pk, &t, b"hdr", &m);
        t[48..].copy_from_slice(&r_order);
        add("e = r", &pk, &t, b"hdr", &m);
        t[79] -= 1;
        add("e = r - 1", &pk, &t, b"hdr", &m);
        let mut t = sig.to_vec();
        let mut carry = 0u16;
        for i in (0..32).rev() {
            let v = t[48 + i] as u16 + r_order[i] as u16 + carry;
            t[48 + i] = v as u8;
            carry = v >> 8;
        }
        if carry == 0 {
            add("e + r", &pk, &t, b"hdr", &m);
        }
        // A = identity, A = -A, A = generator, A of another signature, uncompressed-flag octets
        let mut t = sig.to_vec();
        t[..48].fill(0);
        t[0] = 0xc0;
        add("A = identity", &pk, &t, b"hdr", &m);
        t[0] = 0xe0;
        add("A = identity with the sort flag", &pk, &t, b"hdr", &m);
        t[0] = 0x40;
        add("A = uncompressed identity flag", &pk, &t, b"hdr", &m);
        let mut t = sig.to_vec();
        t[0] ^= 0x20;
        add("A negated", &pk, &t, b"hdr", &m);
        let mut t = sig.to_vec();
        t[0] &= 0x7f;
        add("A without the compression flag", &pk, &t, b"hdr", &m);
        let mut t = sig.to_vec();
        t[..48].copy_from_slice(&G1Affine::generator().to_compressed());
        add("A = BP1", &pk, &t, b"hdr", &m);
        let sig2 = reference::sign(s, &sk, &pk, b"hdr", &m[..2]).unwrap();
        let mut t = sig.to_vec();
        t[..48].copy_from_slice(&sig2[..48]);
        add("A of another signature", &pk, &t, b"hdr", &m);
        add("signature over fewer messages", &pk, &sig2, b"hdr", &m);
        // lengths
        add("79 octets", &pk, &sig[..79], b"hdr", &m);
        add("81 octets", &pk, &[&sig[..], &[0u8][..]].concat(), b"hdr", &m);
        add("empty signature", &pk, &[], b"hdr", &m);
        add("95 octet key", &pk[..95], &sig, b"hdr", &m);
        add("identity key", &{ let mut k = [0u8; 96]; k[0] = 0xc0; k }, &sig, b"hdr", &m);
        // a point of the curve outside the subgroup as A (x = 4 is on E(Fp) : y^2 = 68; searched below)
        for x in 1u8..40 {
            let mut t = sig.to_vec();
            t[..48].fill(0);
            t[0] = 0x80;
            t[47] = x;
            add(&format!("A = small x {x}"), &pk, &t, b"hdr", &m);
        }
        for (n, pk, sig, h, m) in cases {
            let z = z_verify::<CS>(&pk, &sig, Some(&h), Some(&m));
            let r = reference::verify(s, &pk, &sig, &h, &m).is_ok();
            assert_eq!(z, r, "{s:?} {n}");
            assert_eq!(z, n == "honest", "{s:?} {n} accepted");
        }
    }
    both!(run);
}

/// the same refusals through every other way to obtain a key / a signature: JSON, coordinates, the pub tuple field
#[test]
fn decoders_of_keys_and_signatures_agree_with_each_other_and_with_the_reference() {
    fn run<CS: BbsCiphersuite>(s: Suite)
    where
        CS::Expander: for<'a> ExpandMsg<'a>,
    {
        let (sk, pk) = ref_keys(s);
        let m = msgs(2);
        let sig = reference::sign(s, &sk, &pk, b"", &m).unwrap();
        let zsig = Signature::<BBSplus<CS>>::from_bytes(&sig).unwrap();
        // JSON round trip keeps the octets
        let js = serde_json::to_string(&zsig).unwrap();
        let back: Signature<BBSplus<CS>> = serde_json::from_str(&js).unwrap();
        assert_eq!(back.to_bytes(), sig);
        assert!(back.verify(&BBSplusPublicKey::from_bytes(&pk).unwrap(), Some(&m), None).is_ok());
        // JSON with e = 0, e = r, A = identity, a short A, upper-case hex
        let a = hex::encode(&sig[..48]);
        let e = hex::encode(&sig[48..]);
        let mk = |a: &str, e: &str| format!("{{\"BBSplus\":{{\"A\":\"{a}\",\"e\":\"{e}\"}}}}");
        assert!(serde_json::from_str::<Signature<BBSplus<CS>>>(&mk(&a, &e)).is_ok());
        let id = format!("c0{}", "00".repeat(47));
        for (n, j) in [
            ("e = 0", mk(&a, &"00".repeat(32))),
            ("e = r", mk(&a, "73eda753299d7d483339d80809a1d80553bda402fffe5bfeffffffff00000001")),
            ("A = identity", mk(&id, &e)),
            ("short A", mk(&a[2..], &e)),
            ("long e", mk(&a, &format!("00{e}"))),
            ("missing e", format!("{{\"BBSplus\":{{\"A\":\"{a}\"}}}}")),
            ("placeholder variant", "{\"_Unreachable\":null}".to_string()),
        ] {
            assert!(serde_json::from_str::<Signature<BBSplus<CS>>>(&j).is_err(), "{n} accepted from JSON");
            assert!(serde_json::from_str::<BlindSignature<BBSplus<CS>>>(&j).is_err(), "{n} accepted from JSON (blind)");
        }
        // keys: octets, coordinates and JSON refuse the identity and keep the octets
        let zpk = BBSplusPublicKey::from_bytes(&pk).unwrap();
        let (x, y) = zpk.to_coordinates();
        assert_eq!(BBSplusPublicKey::from_coordinates(&x, &y).unwrap().to_bytes(), pk);
        let pj = serde_json::to_string(&zpk).unwrap();
        assert_eq!(serde_json::from_str::<BBSplusPublicKey>(&pj).unwrap().to_bytes(), pk);
        let mut idx = [0u8; 96];
        idx[0] = 0x40;
        assert!(BBSplusPublicKey::from_coordinates(&idx, &[0u8; 96]).is_err(), "identity from coordinates");
        assert!(BBSplusPublicKey::from_coordinates(&x, &x).is_err(), "point off the curve from coordinates");
        assert!(serde_json::from_str::<BBSplusPublicKey>(&format!("\"c0{}\"", "00".repeat(95))).is_err());
        assert!(BBSplusSecretKey::from_bytes(&[0u8; 32]).is_err());
        assert!(BBSplusSecretKey::from_bytes(&hx("73eda753299d7d483339d80809a1d80553bda402fffe5bfeffffffff00000001")).is_err());
        assert!(BBSplusSecretKey::from_bytes(&sk[..31]).is_err());
        assert!(serde_json::from_str::<BBSplusSecretKey>(&format!("\"{}\"", "00".repeat(32))).is_err());
        assert_eq!(BBSplusSecretKey::from_bytes(&sk).unwrap().public_key().to_bytes(), pk);
        // values built through the pub fields are refused by the verifier itself
        let idpk = BBSplusPublicKey(G2Projective::IDENTITY);
        assert!(zsig.verify(&idpk, Some(&m), None).is_err());
    }
    both!(run);
}

// ---------------------------------------------------------------------------------------------------------
// 5. ProofGen / ProofVerify
// ---------------------------------------------------------------------------------------------------------
fn z_proof_verify<CS: BbsCiphersuite>(pk: &[u8], proof: &[u8], h: Option<&[u8]>, ph: Option<&[u8]>, dm: Option<&[Vec<u8>]>, idx: Option<&[usize]>) -> bool
where
    CS::Expander: for<'a> ExpandMsg<'a>,
{
    let Ok(pk) = BBSplusPublicKey::from_bytes(pk) else { return false };
    let Ok(p) = PoKSignature::<BBSplus<CS>>::from_bytes(proof) else { return false };
    p.proof_verify(&pk, dm, idx, h, ph).is_ok()
}

/// prover side: whatever the library's prover emits is accepted by the reference verifier (and by its own)
#[test]
fn library_proofs_are_accepted_by_the_reference_for_every_disclosure_set() {
    fn run<CS: BbsCiphersuite>(s: Suite)
    where
        CS::Expander: for<'a> ExpandMsg<'a>,
    {
        let (sk, pk) = ref_keys(s);
        let zpk = BBSplusPublicKey::from_bytes(&pk).unwrap();
        let big = prng(31, 300);
        for l in [0usize, 1, 3] {
            let m = msgs(l);
            let sig = reference::sign(s, &sk, &pk, b"hdr", &m).unwrap();
            for mask in 0..(1u32 << l) {
                let idx: Vec<usize> = (0..l).filter(|i| mask >> i & 1 == 1).collect();
                let dm: Vec<Vec<u8>> = idx.iter().map(|&i| m[i].clone()).collect();
                let phs: [Option<&[u8]>; 3] = [None, Some(&big[..0]), Some(&big[..257])];
                let ph = phs[mask as usize % 3];
                let p = PoKSignature::<BBSplus<CS>>::proof_gen(&zpk, &sig, Some(b"hdr"), ph, Some(&m), Some(&idx)).unwrap();
                let oct = p.to_bytes();
                assert_eq!(oct.len(), 272 + 32 * (l - idx.len()));
                assert!(reference::proof_verify(s, &pk, &oct, b"hdr", ph.unwrap_or(b""), &dm, &idx).is_ok(), "reference refuses L={l} disclosed={idx:?}");
                assert!(p.proof_verify(&zpk, Some(&dm), Some(&idx), Some(b"hdr"), ph).is_ok());
                // None and empty are the same input for the lists and for ph
                if idx.is_empty() {
                    assert!(p.proof_verify(&zpk, None, None, Some(b"hdr"), ph).is_ok());
                }
                if ph.map(|x| x.is_empty()).unwrap_or(true) {
                    assert!(p.proof_verify(&zpk, Some(&dm), Some(&idx), Some(b"hdr"), None).is_ok());
                    assert!(p.proof_verify(&zpk, Some(&dm), Some(&idx), Some(b"hdr"), Some(b"")).is_ok());
                }
                // JSON round trip keeps the octets and the decision
                let back: PoKSignature<BBSplus<CS>> = serde_json::from_str(&serde_json::to_string(&p).unwrap()).unwrap();
                assert_eq!(back.to_bytes(), oct);
            }
        }
        // prover-side refusals equal the reference's
        let m = msgs(3);
        let sig = reference::sign(s, &sk, &pk, b"", &m).unwrap();
        let r = det_scalars(1, 8);
        for (n, sg, idx) in [
            ("index = L", &sig[..], vec![3usize]),
            ("index = usize::MAX", &sig[..], vec![usize::MAX]),
            ("four indexes for three messages", &sig[..], vec![0, 1, 2, 3]),
            ("short signature", &sig[..79], vec![0]),
            ("empty signature", &sig[..0], vec![0]),
        ] {
            let z = PoKSignature::<BBSplus<CS>>::proof_gen(&zpk, sg, None, None, Some(&m), Some(&idx)).is_ok();
            let u = 3usize.saturating_sub(idx.len());
            let rr = reference::proof_gen(s, &pk, sg, b"", b"", &m, &idx, &r[..5 + u]).is_ok();
            assert_eq!(z, rr, "{n}");
            assert!(!z, "{n}");
        }
        let mut bad = sig;
        bad[48..].fill(0);
        assert!(PoKSignature::<BBSplus<CS>>::proof_gen(&zpk, &bad, None, None, Some(&m), None).is_err(), "e = 0 accepted by the prover");
    }
    both!(run);
}

#[test]
fn proof_verify_decisions_match_reference_on_mutated_proofs() {
    fn run<CS: BbsCiphersuite>(s: Suite)
    where
        CS::Expander: for<'a> ExpandMsg<'a>,
    {
        let (sk, pk) = ref_keys(s);
        let m = msgs(5);
        let sig = reference::sign(s, &sk, &pk, b"hdr", &m).unwrap();
        let idx = vec![1usize, 4];
        let dm: Vec<Vec<u8>> = idx.iter().map(|&i| m[i].clone()).collect();
        let proof = reference::proof_gen(s, &pk, &sig, b"hdr", b"ph", &m, &idx, &det_scalars(2, 8)).unwrap();
        let all = reference::proof_gen(s, &pk, &sig, b"hdr", b"ph", &m, &[0, 1, 2, 3, 4], &det_scalars(3, 5)).unwrap();
        let none = reference::proof_gen(s, &pk, &sig, b"hdr", b"ph", &m, &[], &det_scalars(4, 10)).unwrap();
        let other_pk = reference::sk_to_pk(&reference::key_gen(s, IKM, Some(b"other"), Some(b"some-dst"), false).unwrap());
        type Case = (String, Vec<u8>, Vec<u8>, Vec<u8>, Vec<u8>, Vec<Vec<u8>>, Vec<usize>);
        let mut cases: Vec<Case> = Vec::new();
        let mut add = |n: &str, pk: &[u8], p: &[u8], h: &[u8], ph: &[u8], dm: &[Vec<u8>], idx: &[usize]| cases.push((n.into(), pk.to_vec(), p.to_vec(), h.to_vec(), ph.to_vec(), dm.to_vec(), idx.to_vec()));
        add("honest", &pk, &proof, b"hdr", b"ph", &dm, &idx);
        add("honest, all disclosed", &pk, &all, b"hdr", b"ph", &m, &[0, 1, 2, 3, 4]);
        add("honest, none disclosed", &pk, &none, b"hdr", b"ph", &[], &[]);
        add("other ph", &pk, &proof, b"hdr", b"ph2", &dm, &idx);
        add("empty ph", &pk, &proof, b"hdr", b"", &dm, &idx);
        add("other header", &pk, &proof, b"", b"ph", &dm, &idx);
        add("header and ph exchanged", &pk, &proof, b"ph", b"hdr", &dm, &idx);
        add("other key", &other_pk, &proof, b"hdr", b"ph", &dm, &idx);
        add("indexes shifted", &pk, &proof, b"hdr", b"ph", &dm, &[0, 4]);
        add("index L", &pk, &proof, b"hdr", b"ph", &dm, &[1, 5]);
        add("index usize::MAX", &pk, &proof, b"hdr", b"ph", &dm, &[1, usize::MAX]);
        add("messages exchanged", &pk, &proof, b"hdr", b"ph", &[dm[1].clone(), dm[0].clone()], &idx);
        add("one message for two indexes", &pk, &proof, b"hdr", b"ph", &dm[..1], &idx);
        add("two messages for one index", &pk, &proof, b"hdr", b"ph", &dm, &idx[..1]);
        add("no disclosure claimed", &pk, &proof, b"hdr", b"ph", &[], &[]);
        add("a hidden message claimed as well", &pk, &proof, b"hdr", b"ph", &[m[0].clone(), dm[0].clone(), dm[1].clone()], &[0, 1, 4]);
        add("all-disclosed proof with one message less", &pk, &all, b"hdr", b"ph", &m[..4], &[0, 1, 2, 3]);
        add("none-disclosed proof with a message", &pk, &none, b"hdr", b"ph", &m[..1], &[0]);
        // lengths: one scalar less / more, one octet less / more, below the floor
        add("last scalar cut", &pk, &proof[..proof.len() - 32], b"hdr", b"ph", &dm, &idx);
        add("one octet cut", &pk, &proof[..proof.len() - 1], b"hdr", b"ph", &dm, &idx);
        add("one octet more", &pk, &[&proof[..], &[1u8][..]].concat(), b"hdr", b"ph", &dm, &idx);
        add("one scalar more", &pk, &[&proof[..], &[1u8; 32][..]].concat(), b"hdr", b"ph", &dm, &idx);
        add("floor - 32", &pk, &all[..240], b"hdr", b"ph", &m, &[0, 1, 2, 3, 4]);
        add("floor - 1", &pk, &all[..271], b"hdr", b"ph", &m, &[0, 1, 2, 3, 4]);
        add("empty proof", &pk, &[], b"hdr", b"ph", &dm, &idx);
        for bit in [0usize, 5, 48 * 8, 96 * 8 + 3, 144 * 8 + 7, 176 * 8, 208 * 8, 240 * 8, (proof.len() - 32) * 8, proof.len() * 8 - 1] {
            let mut t = proof.clone();
            t[bit / 8] ^= 1 << (bit % 8);
            add(&format!("bit {bit}"), &pk, &t, b"hdr", b"ph", &dm, &idx);
        }
        // each point replaced by the identity / negated; each scalar replaced by 0, r, r - 1
        for k in 0..3 {
            let mut t = proof.clone();
            t[48 * k..48 * k + 48].fill(0);
            t[48 * k] = 0xc0;
            add(&format!("point {k} = identity"), &pk, &t, b"hdr", b"ph", &dm, &idx);
            let mut t = proof.clone();
            t[48 * k] ^= 0x20;
            add(&format!("point {k} negated"), &pk, &t, b"hdr", b"ph", &dm, &idx);
        }
        let r_order = hx("73eda753299d7d483339d80809a1d80553bda402fffe5bfeffffffff00000001");
        for k in 0..(proof.len() - 144) / 32 {
            let o = 144 + 32 * k;
            let mut t = proof.clone();
            t[o..o + 32].fill(0);
            add(&format!("scalar {k} = 0"), &pk, &t, b"hdr", b"ph", &dm, &idx);
            t[o..o + 32].copy_from_slice(&r_order);
            add(&format!("scalar {k} = r"), &pk, &t, b"hdr", b"ph", &dm, &idx);
            t[o + 31] -= 1;
            add(&format!("scalar {k} = r - 1"), &pk, &t, b"hdr", b"ph", &dm, &idx);
        }
        // Abar and Bbar of one proof with the rest of another
        let proof2 = reference::proof_gen(s, &pk, &sig, b"hdr", b"ph", &m, &idx, &det_scalars(5, 8)).unwrap();
        add("points of another proof", &pk, &[&proof2[..144], &proof[144..]].concat(), b"hdr", b"ph", &dm, &idx);
        add("a signature as a proof", &pk, &sig, b"hdr", b"ph", &dm, &idx);
        for (n, pk, p, h, ph, dm, idx) in cases {
            let z = z_proof_verify::<CS>(&pk, &p, Some(&h), Some(&ph), Some(&dm), Some(&idx));
            let r = reference::proof_verify(s, &pk, &p, &h, &ph, &dm, &idx).is_ok();
            assert_eq!(z, r, "{s:?} {n}");
            assert_eq!(z, n.starts_with("honest"), "{s:?} {n}");
        }
    }
    both!(run);
}

/// octets_to_proof (draft-08 4.2.4.5) takes the scalars of a proof in 1..r-1: "if s_j = 0 or if s_j >= r, return INVALID".
/// The decoder of the library has no such refusal; this is the decoder-level decision.
#[test]
fn proof_decoder_refuses_zero_scalars_like_octets_to_proof() {
    fn run<CS: BbsCiphersuite>(s: Suite)
    where
        CS::Expander: for<'a> ExpandMsg<'a>,
    {
        let (sk, pk) = ref_keys(s);
        let m = msgs(2);
        let sig = reference::sign(s, &sk, &pk, b"", &m).unwrap();
        let proof = reference::proof_gen(s, &pk, &sig, b"", b"", &m, &[0], &det_scalars(6, 6)).unwrap();
        assert!(PoKSignature::<BBSplus<CS>>::from_bytes(&proof).is_ok() && reference::octets_to_proof(&proof).is_ok());
        for k in 0..(proof.len() - 144) / 32 {
            let mut t = proof.clone();
            t[144 + 32 * k..144 + 32 * k + 32].fill(0);
            let z = PoKSignature::<BBSplus<CS>>::from_bytes(&t).is_ok();
            let r = reference::octets_to_proof(&t).is_ok();
            assert_eq!(z, r, "{s:?}: scalar {k} = 0: library decoder accepts = {z}, octets_to_proof accepts = {r}");
        }
    }
    both_collect!(run);
}

/// ... and this is the verifier-level decision: a proof that satisfies every equation of ProofVerify and carries m^ = 0.
/// The signer signs the scalar 0 as second message (core interface of the reference with the same generators and api_id), the
/// prover takes m~ = 0 for it, so m^ = m~ + 0 * c = 0.  CoreProofVerify starts with octets_to_proof, which refuses the octets.
#[test]
fn proof_with_a_zero_response_is_refused_like_the_reference() {
    fn run<CS: BbsCiphersuite>(s: Suite)
    where
        CS::Expander: for<'a> ExpandMsg<'a>,
    {
        let (sk, pk) = ref_keys(s);
        let api = s.api_id();
        let m0 = b"disclosed".to_vec();
        let scalars = vec![reference::messages_to_scalars(s, &[m0.clone()], &api).unwrap()[0], Scalar::ZERO];
        let gens = reference::create_generators(s, 3, &api);
        let sig = reference::core_sign(s, &sk, &pk, &gens, b"hdr", &scalars, &api).unwrap();
        let mut r = det_scalars(7, 6);
        r[5] = Scalar::ZERO; // m~ of the hidden message
        let proof = reference::core_proof_gen(s, &pk, &sig, &gens, b"hdr", b"ph", &scalars, &[0], &api, &r).unwrap();
        assert_eq!(&proof[240..272], &[0u8; 32], "m^ is zero");
        let z = z_proof_verify::<CS>(&pk, &proof, Some(b"hdr"), Some(b"ph"), Some(&[m0.clone()]), Some(&[0]));
        let rr = reference::proof_verify(s, &pk, &proof, b"hdr", b"ph", &[m0], &[0]).is_ok();
        assert_eq!(z, rr, "{s:?}: library accepts = {z}, reference (octets_to_proof) accepts = {rr}");
    }
    both_collect!(run);
}

// ---------------------------------------------------------------------------------------------------------
// 6. blind extension
// ---------------------------------------------------------------------------------------------------------
fn z_blind_sign<CS: BbsCiphersuite>(s: Suite, cwp: Option<&[u8]>, h: Option<&[u8]>, m: Option<&[Vec<u8>]>) -> Result<[u8; 80], String>
where
    CS::Expander: for<'a> ExpandMsg<'a>,
{
    let (sk, pk) = z_keys(s);
    BlindSignature::<BBSplus<CS>>::blind_sign(&sk, &pk, cwp, h, m).map(|x| x.to_bytes()).map_err(|e| format!("{e:?}"))
}

#[test]
fn blind_sign_matches_reference_with_and_without_commitment() {
    fn run<CS: BbsCiphersuite>(s: Suite)
    where
        CS::Expander: for<'a> ExpandMsg<'a>,
    {
        let (sk, pk) = ref_keys(s);
        let zpk = BBSplusPublicKey::from_bytes(&pk).unwrap();
        let big = prng(41, 300);
        for l in [0usize, 2] {
            let m = msgs(l);
            for mc in [None, Some(0usize), Some(2)] {
                let committed: Vec<Vec<u8>> = (0..mc.unwrap_or(0)).map(|i| prng(900 + i as u64, 5 * i)).collect();
                let r = det_scalars(50 + l as u64, committed.len() + 2);
                let cwp = mc.map(|_| reference::commit(s, &committed, &r).unwrap()).unwrap_or_default();
                let spb = if mc.is_some() { r[0] } else { Scalar::ZERO };
                let all_headers: [Option<&[u8]>; 3] = [None, Some(&big[..0]), Some(&big[..256])];
                let headers = if l == 2 && mc == Some(2) { all_headers.to_vec() } else { vec![all_headers[(l + mc.unwrap_or(1)) % 3]] };
                for h in headers {
                    let z = z_blind_sign::<CS>(s, Some(&cwp), h, Some(&m)).unwrap();
                    let rr = reference::blind_sign(s, &sk, &pk, &cwp, h.unwrap_or(b""), &m).unwrap();
                    assert_eq!(hex::encode(z), hex::encode(rr), "L={l} M={mc:?} header={:?}", h.map(|x| x.len()));
                    if mc.is_none() {
                        assert_eq!(z, z_blind_sign::<CS>(s, None, h, Some(&m)).unwrap());
                    }
                    if l == 0 {
                        assert_eq!(z, z_blind_sign::<CS>(s, Some(&cwp), h, None).unwrap());
                    }
                    // verifiers
                    let zs = BlindSignature::<BBSplus<CS>>::from_bytes(&z).unwrap();
                    let bf = BlindFactor::from_bytes(&spb.to_be_bytes()).unwrap();
                    assert!(zs.verify_blind_sign(&zpk, h, Some(&m), Some(&committed), Some(&bf)).is_ok());
                    assert!(reference::blind_verify(s, &pk, &z, h.unwrap_or(b""), &m, &committed, spb).is_ok());
                    if mc.is_none() {
                        assert!(zs.verify_blind_sign(&zpk, h, Some(&m), None, None).is_ok());
                    } else {
                        // without the prover blind, with another one, with the committed messages in another place
                        assert!(zs.verify_blind_sign(&zpk, h, Some(&m), Some(&committed), None).is_err());
                        let other = BlindFactor::from_bytes(&(spb + Scalar::ONE).to_be_bytes()).unwrap();
                        assert!(zs.verify_blind_sign(&zpk, h, Some(&m), Some(&committed), Some(&other)).is_err());
                        if !committed.is_empty() {
                            let all: Vec<Vec<u8>> = m.iter().chain(committed.iter()).cloned().collect();
                            assert!(zs.verify_blind_sign(&zpk, h, Some(&all), None, Some(&bf)).is_err());
                            assert_eq!(zs.verify_blind_sign(&zpk, h, Some(&all), None, Some(&bf)).is_ok(), reference::blind_verify(s, &pk, &z, h.unwrap_or(b""), &all, &[], spb).is_ok());
                        }
                    }
                    // a blind signature is not a plain one and the reverse
                    assert!(!z_verify::<CS>(&pk, &z, h, Some(&m)));
                    assert!(reference::verify(s, &pk, &z, h.unwrap_or(b""), &m).is_err());
                }
            }
        }
        let plain = reference::sign(s, &sk, &pk, b"", &msgs(2)).unwrap();
        let zs = BlindSignature::<BBSplus<CS>>::from_bytes(&plain).unwrap();
        assert!(zs.verify_blind_sign(&zpk, None, Some(&msgs(2)), None, None).is_err());
    }
    both!(run);
}

/// the library's own (randomised) commitments are accepted by the reference and signed to the same octets
#[test]
fn library_commitments_are_accepted_by_the_reference() {
    fn run<CS: BbsCiphersuite>(s: Suite)
    where
        CS::Expander: for<'a> ExpandMsg<'a>,
    {
        let (sk, pk) = ref_keys(s);
        for mc in [0usize, 1, 4] {
            let committed: Vec<Vec<u8>> = (0..mc).map(|i| prng(700 + i as u64, 3 * i)).collect();
            let (c, bf) = if mc == 0 { Commitment::<BBSplus<CS>>::commit(None).unwrap() } else { Commitment::<BBSplus<CS>>::commit(Some(&committed)).unwrap() };
            let oct = c.to_bytes();
            assert_eq!(oct.len(), 48 + 64 + 32 * mc);
            assert!(reference::validate_commit(s, &oct).is_ok());
            assert_eq!(Commitment::<BBSplus<CS>>::from_bytes(&oct).unwrap().to_bytes(), oct);
            let m = msgs(2);
            let z = z_blind_sign::<CS>(s, Some(&oct), Some(b"h"), Some(&m)).unwrap();
            assert_eq!(hex::encode(z), hex::encode(reference::blind_sign(s, &sk, &pk, &oct, b"h", &m).unwrap()));
            let spb = Scalar::from_be_bytes(&bf.to_bytes()).unwrap();
            assert!(reference::blind_verify(s, &pk, &z, b"h", &m, &committed, spb).is_ok());
            // the validation helper with exactly M + 1, with more and with fewer generators
            let g = |n: usize| Generators::create::<CS>(n, Some(&[b"BLIND_", CS::API_ID_BLIND].concat()));
            assert!(Commitment::<BBSplus<CS>>::deserialize_and_validate_commit(Some(&oct), &g(mc + 1), Some(CS::API_ID_BLIND)).is_ok());
            assert!(Commitment::<BBSplus<CS>>::deserialize_and_validate_commit(Some(&oct), &g(mc + 2), Some(CS::API_ID_BLIND)).is_ok());
            assert!(Commitment::<BBSplus<CS>>::deserialize_and_validate_commit(Some(&oct), &g(mc), Some(CS::API_ID_BLIND)).is_err());
            assert!(Commitment::<BBSplus<CS>>::deserialize_and_validate_commit(Some(&oct), &g(mc + 1), Some(CS::API_ID)).is_err());
            assert!(Commitment::<BBSplus<CS>>::deserialize_and_validate_commit(Some(&oct), &g(mc + 1), None).is_err());
        }
    }
    both!(run);
}

#[test]
fn blind_sign_decisions_match_reference_on_mutated_commitments() {
    fn run<CS: BbsCiphersuite>(s: Suite)
    where
        CS::Expander: for<'a> ExpandMsg<'a>,
    {
        let (sk, pk) = ref_keys(s);
        let committed: Vec<Vec<u8>> = vec![b"a".to_vec(), b"b".to_vec()];
        let cwp = reference::commit(s, &committed, &det_scalars(61, 4)).unwrap();
        let cwp0 = reference::commit(s, &[], &det_scalars(62, 2)).unwrap();
        let m = msgs(1);
        let mut cases: Vec<(String, Vec<u8>)> = vec![("honest".into(), cwp.clone()), ("honest, nothing committed".into(), cwp0.clone()), ("honest, no commitment".into(), vec![])];
        for n in [1usize, 47, 48, 49, 79, 80, 81, 111] {
            cases.push((format!("{n} octets"), cwp[..n].to_vec()));
        }
        cases.push(("one octet cut".into(), cwp[..cwp.len() - 1].to_vec()));
        cases.push(("one octet more".into(), [&cwp[..], &[0u8][..]].concat()));
        cases.push(("last scalar cut".into(), cwp[..cwp.len() - 32].to_vec()));
        cases.push(("one scalar more".into(), [&cwp[..], &[1u8; 32][..]].concat()));
        cases.push(("one scalar more on the empty commitment".into(), [&cwp0[..], &[1u8; 32][..]].concat()));
        for bit in [0usize, 5, 47 * 8, 48 * 8, 80 * 8 + 1, 112 * 8, cwp.len() * 8 - 1] {
            let mut t = cwp.clone();
            t[bit / 8] ^= 1 << (bit % 8);
            cases.push((format!("bit {bit}"), t));
        }
        let r_order = hx("73eda753299d7d483339d80809a1d80553bda402fffe5bfeffffffff00000001");
        for k in 0..(cwp.len() - 48) / 32 {
            let mut t = cwp.clone();
            t[48 + 32 * k..80 + 32 * k].copy_from_slice(&r_order);
            cases.push((format!("scalar {k} = r"), t));
        }
        let mut t = cwp.clone();
        t[0] ^= 0x20;
        cases.push(("commitment negated".into(), t));
        cases.push(("proof of another commitment".into(), [&cwp0[..48], &cwp[48..]].concat()));
        cases.push(("a plain signature".into(), reference::sign(s, &sk, &pk, b"", &m).unwrap().to_vec()));
        for (n, c) in cases {
            let z = z_blind_sign::<CS>(s, Some(&c), Some(b"h"), Some(&m));
            let r = reference::blind_sign(s, &sk, &pk, &c, b"h", &m);
            assert_eq!(z.is_ok(), r.is_ok(), "{s:?} {n}: {z:?} / {r:?}");
            assert_eq!(z.is_ok(), n.starts_with("honest"), "{s:?} {n}");
            if let (Ok(z), Ok(r)) = (z, r) {
                assert_eq!(z, r, "{s:?} {n}");
            }
        }
    }
    both!(run);
}

#[test]
fn blind_proofs_of_the_library_are_accepted_by_the_reference_and_mutations_decided_alike() {
    fn run<CS: BbsCiphersuite>(s: Suite)
    where
        CS::Expander: for<'a> ExpandMsg<'a>,
    {
        let (sk, pk) = ref_keys(s);
        let zpk = BBSplusPublicKey::from_bytes(&pk).unwrap();
        let m = msgs(3);
        let committed: Vec<Vec<u8>> = vec![b"c0".to_vec(), b"c1".to_vec()];
        let r = det_scalars(71, 4);
        let cwp = reference::commit(s, &committed, &r).unwrap();
        let bf = BlindFactor::from_bytes(&r[0].to_be_bytes()).unwrap();
        let sig = reference::blind_sign(s, &sk, &pk, &cwp, b"hdr", &m).unwrap();
        for (idx, cidx) in [(vec![], vec![]), (vec![0usize, 2], vec![1usize]), (vec![0, 1, 2], vec![0, 1]), (vec![2], vec![]), (vec![], vec![0])] {
            let p = PoKSignature::<BBSplus<CS>>::blind_proof_gen(&zpk, &sig, Some(b"hdr"), Some(b"ph"), Some(&m), Some(&committed), Some(&idx), Some(&cidx), Some(&bf)).unwrap();
            let oct = p.to_bytes();
            let dm: Vec<Vec<u8>> = idx.iter().map(|&i| m[i].clone()).collect();
            let dc: Vec<Vec<u8>> = cidx.iter().map(|&i| committed[i].clone()).collect();
            type V<'a> = (&'a str, Option<usize>, Vec<Vec<u8>>, Vec<Vec<u8>>, Vec<usize>, Vec<usize>, &'a [u8], &'a [u8]);
            let mut variants: Vec<V> = vec![
                ("honest", Some(3), dm.clone(), dc.clone(), idx.clone(), cidx.clone(), b"hdr", b"ph"),
                ("L - 1", Some(2), dm.clone(), dc.clone(), idx.clone(), cidx.clone(), b"hdr", b"ph"),
                ("L + 1", Some(4), dm.clone(), dc.clone(), idx.clone(), cidx.clone(), b"hdr", b"ph"),
                ("L = None", None, dm.clone(), dc.clone(), idx.clone(), cidx.clone(), b"hdr", b"ph"),
                ("L = 5 (all messages signer messages)", Some(5), dm.clone(), dc.clone(), idx.clone(), cidx.clone(), b"hdr", b"ph"),
                ("L = 6", Some(6), dm.clone(), dc.clone(), idx.clone(), cidx.clone(), b"hdr", b"ph"),
                ("L = usize::MAX", Some(usize::MAX), dm.clone(), dc.clone(), idx.clone(), cidx.clone(), b"hdr", b"ph"),
                ("other ph", Some(3), dm.clone(), dc.clone(), idx.clone(), cidx.clone(), b"hdr", b"ph2"),
                ("other header", Some(3), dm.clone(), dc.clone(), idx.clone(), cidx.clone(), b"hdr2", b"ph"),
                ("lists exchanged", Some(3), dc.clone(), dm.clone(), cidx.clone(), idx.clone(), b"hdr", b"ph"),
            ];
            if !cidx.is_empty() {
                // a committed message presented as a signer message at the combined position, and the reverse
                let mut i2 = idx.clone();
                i2.push(cidx[0] + 4);
                let mut m2 = dm.clone();
                m2.push(dc[0].clone());
                variants.push(("committed message claimed through the signer list", Some(3), m2, dc[1..].to_vec(), i2, cidx[1..].to_vec(), b"hdr", b"ph"));
                let mut c2 = cidx.clone();
                c2[0] = usize::MAX - 3;
                variants.push(("committed index that overflows", Some(3), dm.clone(), dc.clone(), idx.clone(), c2, b"hdr", b"ph"));
            }
            for (n, l, dm, dc, idx, cidx, h, ph) in variants {
                let z = p.blind_proof_verify(&zpk, Some(h), Some(ph), l, Some(&dm), Some(&dc), Some(&idx), Some(&cidx)).is_ok();
                let rr = reference::blind_proof_verify(s, &pk, &oct, h, ph, l.unwrap_or(0), &dm, &dc, &idx, &cidx).is_ok();
                assert_eq!(z, rr, "{s:?} {n} idx={idx:?} cidx={cidx:?}");
                let same_as_honest = n == "honest" || (n == "lists exchanged" && idx == cidx && dm == dc);
                assert_eq!(z, same_as_honest, "{s:?} {n} idx={idx:?} cidx={cidx:?}");
            }
            // a blind proof is not a plain proof
            let all: Vec<usize> = idx.clone();
            assert!(p.proof_verify(&zpk, Some(&dm), Some(&all), Some(b"hdr"), Some(b"ph")).is_err());
        }
        // prover-side refusals
        for (idx, cidx) in [(vec![3usize], vec![]), (vec![], vec![2usize]), (vec![0, 1, 2, 0], vec![]), (vec![usize::MAX], vec![])] {
            assert!(PoKSignature::<BBSplus<CS>>::blind_proof_gen(&zpk, &sig, Some(b"hdr"), None, Some(&m), Some(&committed), Some(&idx), Some(&cidx), Some(&bf)).is_err(), "{idx:?} {cidx:?}");
        }
    }
    both!(run);
}

/// the blind flow reaches the zero response with an HONEST signer: without a commitment the message at position L is the
/// scalar 0 (secret_prover_blind defaults to 0), so a prover that takes m~ = 0 there sends m^ = 0.
/// BlindProofVerify ends in BBS.CoreProofVerify, whose octets_to_proof refuses a zero scalar.
#[test]
fn blind_proof_with_a_zero_response_is_refused_like_the_reference() {
    fn run<CS: BbsCiphersuite>(s: Suite)
    where
        CS::Expander: for<'a> ExpandMsg<'a>,
    {
        let (_, pk) = ref_keys(s);
        let zpk = BBSplusPublicKey::from_bytes(&pk).unwrap();
        let m = msgs(2);
        let sig = z_blind_sign::<CS>(s, None, Some(b"hdr"), Some(&m)).unwrap(); // the library's own signer
        let (scalars, gens) = reference::blind_params(s, &m, &[], 3, 1, Some(Scalar::ZERO)).unwrap();
        let mut r = det_scalars(81, 6);
        r[5] = Scalar::ZERO;
        let proof = reference::core_proof_gen(s, &pk, &sig, &gens, b"hdr", b"ph", &scalars, &[0, 1], &s.api_id_blind(), &r).unwrap();
        assert_eq!(&proof[240..272], &[0u8; 32]);
        let z = PoKSignature::<BBSplus<CS>>::from_bytes(&proof)
            .and_then(|p| p.blind_proof_verify(&zpk, Some(b"hdr"), Some(b"ph"), Some(2), Some(&m), None, Some(&[0, 1]), None))
            .is_ok();
        let rr = reference::blind_proof_verify(s, &pk, &proof, b"hdr", b"ph", 2, &m, &[], &[0, 1], &[]).is_ok();
        assert_eq!(z, rr, "{s:?}: library accepts = {z}, reference accepts = {rr}");
    }
    both_collect!(run);
}

// ---------------------------------------------------------------------------------------------------------
// 7. further shapes
// ---------------------------------------------------------------------------------------------------------
/// Sign takes PK as an input of the domain only: a key that does not belong to SK, and the identity key built through the pub
/// field, give the octets of the reference (which does not validate PK in Sign either) and a signature nobody accepts
#[test]
fn sign_with_a_foreign_or_identity_public_key_matches_reference() {
    fn run<CS: BbsCiphersuite>(s: Suite)
    where
        CS::Expander: for<'a> ExpandMsg<'a>,
    {
        let (sk, pk) = ref_keys(s);
        let zsk = BBSplusSecretKey::from_bytes(&sk).unwrap();
        let other_pk = reference::sk_to_pk(&reference::key_gen(s, IKM, Some(b"other"), Some(b"some-dst"), false).unwrap());
        let m = msgs(2);
        for foreign in [other_pk.to_vec(), reference::g2_oct(&G2Projective::IDENTITY).to_vec()] {
            let zpk = BBSplusPublicKey(G2Projective::from(G2Affine::from_compressed(&foreign.clone().try_into().unwrap()).unwrap()));
            let z = Signature::<BBSplus<CS>>::sign(Some(&m), &zsk, &zpk, Some(b"h")).unwrap().to_bytes();
            assert_eq!(hex::encode(z), hex::encode(reference::sign(s, &sk, &foreign, b"h", &m).unwrap()));
            assert!(!z_verify::<CS>(&pk, &z, Some(b"h"), Some(&m)) && !z_verify::<CS>(&foreign, &z, Some(b"h"), Some(&m)));
            assert!(reference::verify(s, &pk, &z, b"h", &m).is_err() && reference::verify(s, &foreign, &z, b"h", &m).is_err());
        }
    }
    both!(run);
}

/// disclosed index lists that are not strictly ascending: refused by both (the reference by its shape / challenge checks)
#[test]
fn proof_verify_with_unsorted_or_repeated_indexes_is_decided_like_the_reference() {
    fn run<CS: BbsCiphersuite>(s: Suite)
    where
        CS::Expander: for<'a> ExpandMsg<'a>,
    {
        let (sk, pk) = ref_keys(s);
        let m = msgs(4);
        let sig = reference::sign(s, &sk, &pk, b"", &m).unwrap();
        let proof = reference::proof_gen(s, &pk, &sig, b"", b"", &m, &[1, 3], &det_scalars(91, 7)).unwrap();
        for (idx, dm) in [
            (vec![3usize, 1], vec![m[3].clone(), m[1].clone()]),
            (vec![3, 1], vec![m[1].clone(), m[3].clone()]),
            (vec![1, 1], vec![m[1].clone(), m[1].clone()]),
            (vec![1, 3, 3], vec![m[1].clone(), m[3].clone(), m[3].clone()]),
            (vec![1, 3], vec![m[1].clone(), m[3].clone()]),
        ] {
            let z = z_proof_verify::<CS>(&pk, &proof, None, None, Some(&dm), Some(&idx));
            let r = reference::proof_verify(s, &pk, &proof, b"", b"", &dm, &idx).is_ok();
            assert_eq!(z, r, "{idx:?}");
            assert_eq!(z, idx == vec![1, 3]);
        }
        // the prover of the library orders and deduplicates its list: the proof is the one for the ascending list
        let zpk = BBSplusPublicKey::from_bytes(&pk).unwrap();
        let p = PoKSignature::<BBSplus<CS>>::proof_gen(&zpk, &sig, None, None, Some(&m), Some(&[3, 1, 3])).unwrap();
        assert!(reference::proof_verify(s, &pk, &p.to_bytes(), b"", b"", &[m[1].clone(), m[3].clone()], &[1, 3]).is_ok());
    }
    both!(run);
}

/// the commitment may be the identity with a valid proof (secret_prover_blind = 0, nothing committed) and a response of a
/// commitment proof may be 0: the repository's vectors do not pin these; the fixture-reproducing reference takes them as the
/// library's doc comment describes (the identity is the "default" commitment)
#[test]
fn blind_sign_with_identity_commitment_or_zero_response_matches_reference() {
    fn run<CS: BbsCiphersuite>(s: Suite)
    where
        CS::Expander: for<'a> ExpandMsg<'a>,
    {
        let (sk, pk) = ref_keys(s);
        let m = msgs(1);
        let mut r = det_scalars(95, 2);
        r[0] = Scalar::ZERO;
        let id = reference::commit(s, &[], &r).unwrap();
        assert_eq!(id[0], 0xc0);
        let mut r = det_scalars(96, 3);
        r[0] = Scalar::ZERO;
        r[1] = Scalar::ZERO;
        let zero = reference::commit(s, &[b"x".to_vec()], &r).unwrap();
        assert_eq!(&zero[48..80], &[0u8; 32]);
        for c in [id, zero] {
            let z = z_blind_sign::<CS>(s, Some(&c), None, Some(&m));
            let rr = reference::blind_sign(s, &sk, &pk, &c, b"", &m);
            assert_eq!(z.is_ok(), rr.is_ok());
            if let (Ok(z), Ok(rr)) = (z, rr) {
                assert_eq!(z, rr);
            }
        }
    }
    both!(run);
}

/// 16 threads interleave every deterministic operation; each result equals the single-threaded one
#[test]
fn sixteen_threads_get_the_single_threaded_octets() {
    fn one<CS: BbsCiphersuite>(s: Suite, k: u64) -> Vec<u8>
    where
        CS::Expander: for<'a> ExpandMsg<'a>,
    {
        let ikm = prng(k, 40);
        let kp = KeyPair::<BBSplus<CS>>::generate(&ikm, Some(b"i"), Some(b"d")).unwrap();
        let m = msgs((k % 3) as usize + 1);
        let sig = Signature::<BBSplus<CS>>::sign(Some(&m), kp.private_key(), kp.public_key(), Some(b"h")).unwrap();
        assert!(sig.verify(kp.public_key(), Some(&m), Some(b"h")).is_ok());
        let bs = BlindSignature::<BBSplus<CS>>::blind_sign(kp.private_key(), kp.public_key(), None, Some(b"h"), Some(&m)).unwrap();
        let p = PoKSignature::<BBSplus<CS>>::proof_gen(kp.public_key(), &sig.to_bytes(), Some(b"h"), None, Some(&m), Some(&[0])).unwrap();
        assert!(p.proof_verify(kp.public_key(), Some(&m[..1]), Some(&[0]), Some(b"h"), None).is_ok());
        let g = Generators::create::<CS>(3, Some(&ikm));
        let mut out = Vec::new();
        out.extend_from_slice(&kp.private_key().to_bytes());
        out.extend_from_slice(&kp.public_key().to_bytes());
        out.extend_from_slice(&sig.to_bytes());
        out.extend_from_slice(&bs.to_bytes());
        for v in &g.values {
            out.extend_from_slice(&reference::g1_oct(v));
        }
        out.extend_from_slice(&hash_to_scalar::<CS>(&ikm, b"x").unwrap().to_be_bytes());
        let _ = s;
        out
    }
    let expected: Vec<(Vec<u8>, Vec<u8>)> = (0..4u64).map(|k| (one::<Bls12381Sha256>(Suite::Sha256, k), one::<Bls12381Shake256>(Suite::Shake256, k))).collect();
    // the single-threaded values are the reference's
    for (k, e) in expected.iter().enumerate() {
        let ikm = prng(k as u64, 40);
        let sk = reference::key_gen(Suite::Sha256, &ikm, Some(b"i"), Some(b"d"), true).unwrap();
        let pk = reference::sk_to_pk(&sk);
        let m = msgs(k % 3 + 1);
        assert_eq!(&e.0[..32], &sk);
        assert_eq!(&e.0[128..208], &reference::sign(Suite::Sha256, &sk, &pk, b"h", &m).unwrap());
        assert_eq!(&e.0[208..288], &reference::blind_sign(Suite::Sha256, &sk, &pk, &[], b"h", &m).unwrap());
    }
    let expected = std::sync::Arc::new(expected);
    let handles: Vec<_> = (0..16u64)
        .map(|t| {
            let expected = expected.clone();
            std::thread::spawn(move || {
                for round in 0..2u64 {
                    let k = (t + round) % 4;
                    if (t + round) % 2 == 0 {
                        assert_eq!(one::<Bls12381Sha256>(Suite::Sha256, k), expected[k as usize].0);
                        assert_eq!(one::<Bls12381Shake256>(Suite::Shake256, k), expected[k as usize].1);
                    } else {
                        assert_eq!(one::<Bls12381Shake256>(Suite::Shake256, k), expected[k as usize].1);
                        assert_eq!(one::<Bls12381Sha256>(Suite::Sha256, k), expected[k as usize].0);
                    }
                }
            })
        })
        .collect();
    for h in handles {
        h.join().unwrap();
    }
}

/// the two ciphersuites do not accept each other's artefacts (a value of one type parameter re-read as the other through JSON)
#[test]
fn artefacts_of_one_ciphersuite_are_refused_by_the_other() {
    let (sk, pk) = ref_keys(Suite::Sha256);
    let zpk = BBSplusPublicKey::from_bytes(&pk).unwrap();
    let m = msgs(2);
    let sig = reference::sign(Suite::Sha256, &sk, &pk, b"", &m).unwrap();
    let a = Signature::<BBSplus<Bls12381Sha256>>::from_bytes(&sig).unwrap();
    let b: Signature<BBSplus<Bls12381Shake256>> = serde_json::from_str(&serde_json::to_string(&a).unwrap()).unwrap();
    assert!(a.verify(&zpk, Some(&m), None).is_ok());
    assert!(b.verify(&zpk, Some(&m), None).is_err());
    assert!(reference::verify(Suite::Shake256, &pk, &sig, b"", &m).is_err());
    let p = PoKSignature::<BBSplus<Bls12381Sha256>>::proof_gen(&zpk, &sig, None, None, Some(&m), Some(&[0])).unwrap();
    let q = PoKSignature::<BBSplus<Bls12381Shake256>>::from_bytes(&p.to_bytes()).unwrap();
    assert!(q.proof_verify(&zpk, Some(&m[..1]), Some(&[0]), None, None).is_err());
    assert!(reference::proof_verify(Suite::Shake256, &pk, &p.to_bytes(), b"", b"", &m[..1], &[0]).is_err());
    assert!(reference::proof_verify(Suite::Sha256, &pk, &p.to_bytes(), b"", b"", &m[..1], &[0]).is_ok());
}
