//! Red-team candidates for PROPERTY C09 ("Encodings are canonical and strict").
//!
//! Every test ASSERTS WHAT THE PROPERTY REQUIRES: a failing test is a demonstrated violation on
//! the unmodified tree, a passing test documents a family for which the property held.
//!
//! Reading used for panics: a panic is only counted where the statement requires a *value*
//! (`decode(encode(x)) = x`), never where it only requires "some refusal".

#![allow(non_snake_case)]

use bls12_381_plus::{G1Affine, G1Projective, G2Affine, G2Projective, Scalar};
use elliptic_curve::hash2curve::ExpandMsg;
use zkryptium::{
    bbsplus::{
        ciphersuites::{BbsCiphersuite, Bls12381Sha256, Bls12381Shake256},
        commitment::{BBSplusCommitment, BlindFactor},
        generators::Generators,
        keys::{BBSplusPublicKey, BBSplusSecretKey},
        proof::{BBSplusPoKSignature, BBSplusZKPoK},
        signature::BBSplusSignature,
    },
    keys::pair::KeyPair,
    schemes::{
        algorithms::BBSplus,
        generics::{BlindSignature, Commitment, PoKSignature, Signature},
    },
    utils::{
        message::bbsplus_message::BBSplusMessage,
        util::bbsplus_utils::calculate_blind_challenge,
    },
};

const IKM: &[u8] = b"this-IS-just-an-Test-IKM-to-generate-$e(r@t#-key";
const HEADER: &[u8] = b"\x11\x22\x33\x44header";
const PH: &[u8] = b"presentation-header";

/// group order r, big endian
const R_HEX: &str = "73eda753299d7d483339d80809a1d80553bda402fffe5bfeffffffff00000001";
/// r + 1
const R1_HEX: &str = "73eda753299d7d483339d80809a1d80553bda402fffe5bfeffffffff00000002";
const FF_HEX: &str = "ffffffffffffffffffffffffffffffffffffffffffffffffffffffffffffffff";
const ZERO32_HEX: &str = "0000000000000000000000000000000000000000000000000000000000000000";
/// base field modulus p, big endian
const P_HEX: &str = "1a0111ea397fe69a4b1ba7b6434bacd764774b84f38512bf6730d2a0f6b0f6241eabfffeb153ffffb9feffffffffaaab";

fn h(s: &str) -> Vec<u8> {
    hex::decode(s).unwrap()
}

fn bad_scalars() -> Vec<Vec<u8>> {
    vec![h(R_HEX), h(R1_HEX), h(FF_HEX)]
}

fn g1_identity() -> Vec<u8> {
    let mut v = vec![0u8; 48];
    v[0] = 0xc0;
    v
}
fn g2_identity() -> Vec<u8> {
    let mut v = vec![0u8; 96];
    v[0] = 0xc0;
    v
}

/// big-endian a + b, None if it does not fit in a.len() bytes
fn add_be(a: &[u8], b: &[u8]) -> Option<Vec<u8>> {
    assert_eq!(a.len(), b.len());
    let mut out = vec![0u8; a.len()];
    let mut carry = 0u16;
    for i in (0..a.len()).rev() {
        let s = a[i] as u16 + b[i] as u16 + carry;
        out[i] = (s & 0xff) as u8;
        carry = s >> 8;
    }
    if carry != 0 {
        None
    } else {
        Some(out)
    }
}

fn msgs(n: usize) -> Vec<Vec<u8>> {
    (0..n).map(|i| format!("message-{}", i).into_bytes()).collect()
}

struct Fix<CS: BbsCiphersuite> {
    kp: KeyPair<BBSplus<CS>>,
    messages: Vec<Vec<u8>>,
    sig: Signature<BBSplus<CS>>,
    proof: PoKSignature<BBSplus<CS>>,
    disclosed: Vec<usize>,
}

fn fixture<CS: BbsCiphersuite>(n: usize, disclosed: &[usize]) -> Fix<CS>
where
    CS::Expander: for<'a> ExpandMsg<'a>,
{
    let kp = KeyPair::<BBSplus<CS>>::generate(IKM, Some(b"info"), None).unwrap();
    let messages = msgs(n);
    let sig = Signature::<BBSplus<CS>>::sign(
        Some(&messages),
        kp.private_key(),
        kp.public_key(),
        Some(HEADER),
    )
    .unwrap();
    let proof = PoKSignature::<BBSplus<CS>>::proof_gen(
        kp.public_key(),
        &sig.to_bytes(),
        Some(HEADER),
        Some(PH),
        Some(&messages),
        Some(disclosed),
    )
    .unwrap();
    Fix {
        kp,
        messages,
        sig,
        proof,
        disclosed: disclosed.to_vec(),
    }
}

// ---------------------------------------------------------------------------------------------
// Family 1: honest objects round-trip through the octet codecs (both suites, several shapes)
// ---------------------------------------------------------------------------------------------

fn honest_octets<CS: BbsCiphersuite + std::fmt::Debug + Clone + serde::Serialize + serde::de::DeserializeOwned>()
where
    CS::Expander: for<'a> ExpandMsg<'a>,
{
    for (n, disclosed) in [
        (0usize, vec![]),
        (1, vec![]),
        (1, vec![0]),
        (3, vec![0, 2]),
        (5, vec![0, 1, 2, 3, 4]),
    ] {
        let f = fixture::<CS>(n, &disclosed);
        let pk = f.kp.public_key();
        let sk = f.kp.private_key();

        // public key, compressed octets
        let b = pk.to_bytes();
        let pk2 = BBSplusPublicKey::from_bytes(&b).unwrap();
        assert_eq!(&pk2, pk);
        assert_eq!(pk2.to_bytes(), b);
        // public key, coordinates
        let (x, y) = pk.to_coordinates();
        let pk3 = BBSplusPublicKey::from_coordinates(&x, &y).unwrap();
        assert_eq!(&pk3, pk);
        assert_eq!(pk3.to_coordinates(), (x, y));
        // secret key
        let b = sk.to_bytes();
        let sk2 = BBSplusSecretKey::from_bytes(&b).unwrap();
        assert_eq!(&sk2, sk);
        assert_eq!(sk2.to_bytes(), b);
        assert_eq!(&sk2.public_key(), pk);
        // signature
        let b = f.sig.to_bytes();
        let s2 = Signature::<BBSplus<CS>>::from_bytes(&b).unwrap();
        assert_eq!(s2, f.sig);
        assert_eq!(s2.to_bytes(), b);
        s2.verify(pk, Some(&f.messages), Some(HEADER)).unwrap();
        // proof
        let b = f.proof.to_bytes();
        assert_eq!(b.len(), 272 + 32 * (n - f.disclosed.len()));
        let p2 = PoKSignature::<BBSplus<CS>>::from_bytes(&b).unwrap();
        assert_eq!(p2, f.proof);
        assert_eq!(p2.to_bytes(), b);
        let dm: Vec<Vec<u8>> = f.disclosed.iter().map(|&i| f.messages[i].clone()).collect();
        p2.proof_verify(pk, Some(&dm), Some(&f.disclosed), Some(HEADER), Some(PH))
            .unwrap();

        // updated signature
        if n > 0 {
            let u = f
                .sig
                .update_signature(sk, &f.messages[n - 1], b"new", n - 1, n)
                .unwrap();
            let b = u.to_bytes();
            let u2 = Signature::<BBSplus<CS>>::from_bytes(&b).unwrap();
            assert_eq!(u2, u);
            assert_eq!(u2.to_bytes(), b);
        }

        // commitment, blind factor, blind signature
        let (c, bf) = Commitment::<BBSplus<CS>>::commit(Some(&f.messages)).unwrap();
        let b = c.to_bytes();
        assert_eq!(b.len(), 48 + 32 * (n + 2));
        let c2 = Commitment::<BBSplus<CS>>::from_bytes(&b).unwrap();
        assert_eq!(c2, c);
        assert_eq!(c2.to_bytes(), b);
        let bb = bf.to_bytes();
        let bf2 = BlindFactor::from_bytes(&bb).unwrap();
        assert_eq!(bf2.to_bytes(), bb);

        let bs = BlindSignature::<BBSplus<CS>>::blind_sign(
            sk,
            pk,
            Some(&c.to_bytes()),
            Some(HEADER),
            Some(&f.messages),
        )
        .unwrap();
        let b = bs.to_bytes();
        let bs2 = BlindSignature::<BBSplus<CS>>::from_bytes(&b).unwrap();
        assert_eq!(bs2, bs);
        assert_eq!(bs2.to_bytes(), b);
        bs2.verify_blind_sign(
            pk,
            Some(HEADER),
            Some(&f.messages),
            Some(&f.messages),
            Some(&bf2),
        )
        .unwrap();
    }
}

#[test]
fn f01_honest_octet_roundtrips_sha256() {
    honest_octets::<Bls12381Sha256>();
}

#[test]
fn f01_honest_octet_roundtrips_shake256() {
    honest_octets::<Bls12381Shake256>();
}

// ---------------------------------------------------------------------------------------------
// Family 2: honest objects round-trip through JSON, and JSON re-encoding is stable
// ---------------------------------------------------------------------------------------------

fn json_rt<T>(x: &T) -> String
where
    T: serde::Serialize + serde::de::DeserializeOwned + PartialEq + std::fmt::Debug,
{
    let s = serde_json::to_string(x).unwrap();
    let y: T = serde_json::from_str(&s).unwrap();
    assert_eq!(&y, x);
    assert_eq!(serde_json::to_string(&y).unwrap(), s);
    s
}

fn honest_json<CS: BbsCiphersuite + std::fmt::Debug + Clone + serde::Serialize + serde::de::DeserializeOwned>()
where
    CS::Expander: for<'a> ExpandMsg<'a>,
{
    for (n, disclosed) in [(0usize, vec![]), (2, vec![1]), (4, vec![0, 1, 2, 3])] {
        let f = fixture::<CS>(n, &disclosed);
        json_rt(&f.kp);
        json_rt(f.kp.public_key());
        json_rt(f.kp.private_key());
        json_rt(&f.sig);
        json_rt(f.sig.bbsPlusSignature());
        json_rt(&f.proof);
        json_rt(f.proof.to_bbsplus_proof());
        let (c, _bf) = Commitment::<BBSplus<CS>>::commit(Some(&f.messages)).unwrap();
        json_rt(&c);
        let bs = BlindSignature::<BBSplus<CS>>::blind_sign(
            f.kp.private_key(),
            f.kp.public_key(),
            Some(&c.to_bytes()),
            None,
            None,
        )
        .unwrap();
        json_rt(&bs);
        let m = BBSplusMessage::map_message_to_scalar_as_hash::<CS>(b"x", CS::API_ID).unwrap();
        json_rt(&m);
        // JSON and octets agree on the object
        let via_json: PoKSignature<BBSplus<CS>> =
            serde_json::from_str(&serde_json::to_string(&f.proof).unwrap()).unwrap();
        assert_eq!(via_json.to_bytes(), f.proof.to_bytes());
    }
}

#[test]
fn f02_honest_json_roundtrips_sha256() {
    honest_json::<Bls12381Sha256>();
}

#[test]
fn f02_honest_json_roundtrips_shake256() {
    honest_json::<Bls12381Shake256>();
}

// ---------------------------------------------------------------------------------------------
// Family 3: scalars >= r are refused by every octet decoder, in every scalar slot
// ---------------------------------------------------------------------------------------------

#[test]
fn f03_octet_decoders_reject_scalars_not_below_r() {
    let f = fixture::<Bls12381Sha256>(3, &[1]);
    for bad in bad_scalars() {
        // secret key
        assert!(BBSplusSecretKey::from_bytes(&bad).is_err());
        // blind factor
        assert!(BlindFactor::from_bytes(&<[u8; 32]>::try_from(&bad[..]).unwrap()).is_err());
        // message scalar
        assert!(BBSplusMessage::from_bytes_be(&<[u8; 32]>::try_from(&bad[..]).unwrap()).is_err());
        // signature e
        let mut s = f.sig.to_bytes();
        s[48..].copy_from_slice(&bad);
        assert!(BBSplusSignature::from_bytes(&s).is_err());
        assert!(Signature::<BBSplus<Bls12381Sha256>>::from_bytes(&s).is_err());
        assert!(BlindSignature::<BBSplus<Bls12381Sha256>>::from_bytes(&s).is_err());
        // every scalar slot of the proof
        let p = f.proof.to_bytes();
        let slots = (p.len() - 144) / 32;
        assert_eq!(slots, 6);
        for k in 0..slots {
            let mut q = p.clone();
            q[144 + 32 * k..144 + 32 * (k + 1)].copy_from_slice(&bad);
            assert!(BBSplusPoKSignature::from_bytes(&q).is_err(), "proof slot {}", k);
        }
        // every scalar slot of the commitment
        let (c, _) = Commitment::<BBSplus<Bls12381Sha256>>::commit(Some(&f.messages)).unwrap();
        let c = c.to_bytes();
        let slots = (c.len() - 48) / 32;
        assert_eq!(slots, 5);
        for k in 0..slots {
            let mut q = c.clone();
            q[48 + 32 * k..48 + 32 * (k + 1)].copy_from_slice(&bad);
            assert!(BBSplusCommitment::from_bytes(&q).is_err(), "commit slot {}", k);
            assert!(BBSplusZKPoK::from_bytes(&q[48..]).is_err(), "zkpok slot {}", k);
        }
    }
    // x + r for a small honest x is refused as well (non-canonical representative)
    let one_plus_r = h(R1_HEX);
    assert!(BBSplusSecretKey::from_bytes(&one_plus_r).is_err());
}

// ---------------------------------------------------------------------------------------------
// Family 4: scalars >= r are refused by the JSON decoders
// ---------------------------------------------------------------------------------------------

#[test]
fn f04_json_decoders_reject_scalars_not_below_r() {
    let f = fixture::<Bls12381Sha256>(2, &[0]);
    let sk_json = serde_json::to_string(f.kp.private_key()).unwrap();
    let sk_hex = hex::encode(f.kp.private_key().to_bytes());
    assert!(sk_json.contains(&sk_hex));
    let sig_json = serde_json::to_string(&f.sig).unwrap();
    let e_hex = hex::encode(&f.sig.to_bytes()[48..]);
    assert!(sig_json.contains(&e_hex));
    let proof_json = serde_json::to_string(&f.proof).unwrap();
    let pb = f.proof.to_bytes();
    for bad in [R_HEX, R1_HEX, FF_HEX] {
        let j = sk_json.replace(&sk_hex, bad);
        assert!(serde_json::from_str::<BBSplusSecretKey>(&j).is_err(), "sk {}", bad);
        let j = sig_json.replace(&e_hex, bad);
        assert!(
            serde_json::from_str::<Signature<BBSplus<Bls12381Sha256>>>(&j).is_err(),
            "sig e {}",
            bad
        );
        for k in 0..(pb.len() - 144) / 32 {
            let slot = hex::encode(&pb[144 + 32 * k..144 + 32 * (k + 1)]);
            assert!(proof_json.contains(&slot));
            let j = proof_json.replace(&slot, bad);
            assert!(
                serde_json::from_str::<PoKSignature<BBSplus<Bls12381Sha256>>>(&j).is_err(),
                "proof slot {} {}",
                k,
                bad
            );
        }
        let j = format!("{{\"value\":\"{}\"}}", bad);
        assert!(serde_json::from_str::<BBSplusMessage>(&j).is_err());
    }
}

// ---------------------------------------------------------------------------------------------
// Family 5: identity points / zero exponent are refused by the octet decoders
// ---------------------------------------------------------------------------------------------

#[test]
fn f05_octet_decoders_reject_identity_and_zero_exponent() {
    let f = fixture::<Bls12381Sha256>(2, &[0]);
    // public key
    assert!(BBSplusPublicKey::from_bytes(&g2_identity()).is_err());
    let mut x = [0u8; 96];
    x[0] = 0x40;
    let y = [0u8; 96];
    assert!(BBSplusPublicKey::from_coordinates(&x, &y).is_err());
    // signature point / exponent
    let mut s = f.sig.to_bytes();
    s[..48].copy_from_slice(&g1_identity());
    assert!(BBSplusSignature::from_bytes(&s).is_err());
    let mut s = f.sig.to_bytes();
    s[48..].copy_from_slice(&[0u8; 32]);
    assert!(BBSplusSignature::from_bytes(&s).is_err());
    assert!(BlindSignature::<BBSplus<Bls12381Sha256>>::from_bytes(&s).is_err());
    // proof points
    for k in 0..3 {
        let mut p = f.proof.to_bytes();
        p[48 * k..48 * (k + 1)].copy_from_slice(&g1_identity());
        assert!(BBSplusPoKSignature::from_bytes(&p).is_err(), "proof point {}", k);
    }
}

// ---------------------------------------------------------------------------------------------
// Family 6: identity points / zero exponent are refused by the JSON decoders
// (JSON is one of "the encodings the API offers"; "Decoders reject ... the identity where the
//  BBS drafts forbid it (public key, signature point, proof points) as well as a zero signature
//  exponent")
// ---------------------------------------------------------------------------------------------

#[test]
fn f06a_json_decoder_rejects_identity_public_key() {
    let j = format!("\"{}\"", hex::encode(g2_identity()));
    let r = serde_json::from_str::<BBSplusPublicKey>(&j);
    assert!(r.is_err(), "identity public key accepted through JSON: {:?}", r);
}

#[test]
fn f06b_json_decoder_rejects_identity_public_key_in_keypair() {
    let f = fixture::<Bls12381Sha256>(0, &[]);
    let j = serde_json::to_string(&f.kp).unwrap();
    let pk_hex = hex::encode(f.kp.public_key().to_bytes());
    let j = j.replace(&pk_hex, &hex::encode(g2_identity()));
    let r = serde_json::from_str::<KeyPair<BBSplus<Bls12381Sha256>>>(&j);
    assert!(r.is_err(), "key pair with identity public key accepted through JSON");
}

#[test]
fn f06c_json_decoder_rejects_identity_signature_point() {
    let f = fixture::<Bls12381Sha256>(1, &[]);
    let j = serde_json::to_string(&f.sig).unwrap();
    let a_hex = hex::encode(&f.sig.to_bytes()[..48]);
    let j = j.replace(&a_hex, &hex::encode(g1_identity()));
    let r = serde_json::from_str::<Signature<BBSplus<Bls12381Sha256>>>(&j);
    assert!(r.is_err(), "signature with A = identity accepted through JSON");
}

#[test]
fn f06d_json_decoder_rejects_zero_signature_exponent() {
    let f = fixture::<Bls12381Sha256>(1, &[]);
    let j = serde_json::to_string(&f.sig).unwrap();
    let e_hex = hex::encode(&f.sig.to_bytes()[48..]);
    let j = j.replace(&e_hex, ZERO32_HEX);
    let r = serde_json::from_str::<Signature<BBSplus<Bls12381Sha256>>>(&j);
    assert!(r.is_err(), "signature with e = 0 accepted through JSON");
    let j2 = j.clone();
    let r = serde_json::from_str::<BlindSignature<BBSplus<Bls12381Sha256>>>(&j2);
    assert!(r.is_err(), "blind signature with e = 0 accepted through JSON");
}

#[test]
fn f06e_json_decoder_rejects_identity_proof_points() {
    let f = fixture::<Bls12381Sha256>(2, &[0]);
    let j = serde_json::to_string(&f.proof).unwrap();
    let pb = f.proof.to_bytes();
    for k in 0..3 {
        let pt = hex::encode(&pb[48 * k..48 * (k + 1)]);
        let jj = j.replace(&pt, &hex::encode(g1_identity()));
        let r = serde_json::from_str::<PoKSignature<BBSplus<Bls12381Sha256>>>(&jj);
        assert!(r.is_err(), "proof with point {} = identity accepted through JSON", k);
    }
}

/// Consequence of f06a + the zero secret key: a verifier that imports the issuer key from JSON
/// accepts signatures anybody can make (SK = 0 <=> PK = Identity_G2).
#[test]
fn f06f_json_identity_public_key_does_not_verify_anyones_signature() {
    type S = BBSplus<Bls12381Sha256>;
    let j = format!("\"{}\"", hex::encode(g2_identity()));
    let pk = serde_json::from_str::<BBSplusPublicKey>(&j);
    let sk0 = BBSplusSecretKey::from_bytes(&[0u8; 32]);
    if let (Ok(pk), Ok(sk0)) = (pk, sk0) {
        let m = msgs(2);
        if let Ok(sig) = Signature::<S>::sign(Some(&m), &sk0, &pk, Some(HEADER)) {
            // through the octet codec as well
            let sig = Signature::<S>::from_bytes(&sig.to_bytes()).unwrap();
            assert!(
                sig.verify(&pk, Some(&m), Some(HEADER)).is_err(),
                "identity public key decoded from JSON verifies a signature made with SK = 0"
            );
        }
    }
}

// ---------------------------------------------------------------------------------------------
// Family 7: non-canonical flag patterns of compressed / uncompressed points
// ---------------------------------------------------------------------------------------------

#[test]
fn f07_noncanonical_point_flags_rejected() {
    let f = fixture::<Bls12381Sha256>(2, &[0]);
    let pk = f.kp.public_key().to_bytes();
    let sig = f.sig.to_bytes();

    // G2 compressed: compression flag cleared, infinity flag set on a finite point,
    // identity with the sort flag, identity with non-zero payload
    let mut v = pk;
    v[0] &= 0x7f;
    assert!(BBSplusPublicKey::from_bytes(&v).is_err());
    let mut v = pk;
    v[0] |= 0x40;
    assert!(BBSplusPublicKey::from_bytes(&v).is_err());
    let mut v = g2_identity();
    v[0] = 0xe0;
    assert!(BBSplusPublicKey::from_bytes(&v).is_err());
    let mut v = g2_identity();
    v[95] = 1;
    assert!(BBSplusPublicKey::from_bytes(&v).is_err());

    // flipping the sort flag gives the negated point: accepted, but it is a different object
    // and re-encodes to the string it was decoded from
    let mut v = pk;
    v[0] ^= 0x20;
    let neg = BBSplusPublicKey::from_bytes(&v).unwrap();
    assert_ne!(&neg, f.kp.public_key());
    assert_eq!(neg.to_bytes(), v);

    // G1 compressed inside a signature
    let mut s = sig;
    s[0] &= 0x7f;
    assert!(BBSplusSignature::from_bytes(&s).is_err());
    let mut s = sig;
    s[0] |= 0x40;
    assert!(BBSplusSignature::from_bytes(&s).is_err());
    let mut s = sig;
    s[..48].copy_from_slice(&g1_identity());
    s[0] = 0xe0;
    assert!(BBSplusSignature::from_bytes(&s).is_err());
    let mut s = sig;
    s[..48].copy_from_slice(&g1_identity());
    s[47] = 1;
    assert!(BBSplusSignature::from_bytes(&s).is_err());

    // uncompressed coordinates: any flag bit set on a finite point must be refused
    let (x, y) = f.kp.public_key().to_coordinates();
    assert_eq!(x[0] & 0xe0, 0);
    for flag in [0x80u8, 0x40, 0x20, 0xc0, 0xe0, 0xa0, 0x60] {
        let mut xx = x;
        xx[0] |= flag;
        assert!(
            BBSplusPublicKey::from_coordinates(&xx, &y).is_err(),
            "flag {:#x} accepted",
            flag
        );
    }
    // identity with sort flag / compression flag / garbage
    for first in [0x60u8, 0xc0, 0xe0] {
        let mut xx = [0u8; 96];
        xx[0] = first;
        assert!(BBSplusPublicKey::from_coordinates(&xx, &[0u8; 96]).is_err());
    }
    let mut xx = [0u8; 96];
    xx[0] = 0x40;
    let mut yy = [0u8; 96];
    yy[95] = 1;
    assert!(BBSplusPublicKey::from_coordinates(&xx, &yy).is_err());
    // (x, -y) is another point; it has to re-encode to itself
    let neg = BBSplusPublicKey::from_bytes(&{
        let mut v = pk;
        v[0] ^= 0x20;
        v
    })
    .unwrap();
    let (nx, ny) = neg.to_coordinates();
    assert_eq!(nx, x);
    assert_ne!(ny, y);
    let back = BBSplusPublicKey::from_coordinates(&nx, &ny).unwrap();
    assert_eq!(back.to_coordinates(), (nx, ny));
}

// ---------------------------------------------------------------------------------------------
// Family 8: field elements >= p (x + p representatives) are refused
// ---------------------------------------------------------------------------------------------

#[test]
fn f08_field_elements_not_below_p_rejected() {
    let p = h(P_HEX);
    // G1: look for a subgroup point whose x is small enough for x + p to fit in 381 bits
    let mut found = 0;
    let mut pt = G1Projective::GENERATOR;
    let e = Scalar::from(0x1234_5678u64);
    for _ in 0..200 {
        pt = pt + G1Projective::GENERATOR;
        let c = G1Affine::from(pt).to_compressed();
        let mut x = c.to_vec();
        let flags = x[0] & 0xe0;
        x[0] &= 0x1f;
        if let Some(mut xp) = add_be(&x, &p) {
            if xp[0] & 0xe0 == 0 {
                xp[0] |= flags;
                found += 1;
                // honest one is fine
                let mut s = [0u8; 80];
                s[..48].copy_from_slice(&c);
                s[48..].copy_from_slice(&e.to_be_bytes());
                assert!(BBSplusSignature::from_bytes(&s).is_ok());
                s[..48].copy_from_slice(&xp);
                assert!(BBSplusSignature::from_bytes(&s).is_err(), "x + p accepted in G1");
                let j = format!("{{\"A\":\"{}\",\"e\":\"{}\"}}", hex::encode(&xp), hex::encode(e.to_be_bytes()));
                assert!(serde_json::from_str::<BBSplusSignature>(&j).is_err(), "x + p accepted in G1 via JSON");
            }
        }
    }
    assert!(found > 10, "not enough candidates: {}", found);

    // G2 compressed: c0 (second half, no flag bits) + p always fits
    let f = fixture::<Bls12381Sha256>(0, &[]);
    let pk = f.kp.public_key().to_bytes();
    let c0p = add_be(&pk[48..], &p).unwrap();
    let mut v = pk;
    v[48..].copy_from_slice(&c0p);
    assert!(BBSplusPublicKey::from_bytes(&v).is_err(), "c0 + p accepted in G2");
    let j = format!("\"{}\"", hex::encode(v));
    assert!(serde_json::from_str::<BBSplusPublicKey>(&j).is_err());

    // G2 uncompressed: x.c0 + p, y.c1 + p (if it fits), y.c0 + p
    let (x, y) = f.kp.public_key().to_coordinates();
    let mut xx = x;
    xx[48..].copy_from_slice(&add_be(&x[48..], &p).unwrap());
    assert!(BBSplusPublicKey::from_coordinates(&xx, &y).is_err());
    let mut yy = y;
    yy[48..].copy_from_slice(&add_be(&y[48..], &p).unwrap());
    assert!(BBSplusPublicKey::from_coordinates(&x, &yy).is_err());
    let mut yy = y;
    yy[..48].copy_from_slice(&add_be(&y[..48], &p).unwrap());
    assert!(BBSplusPublicKey::from_coordinates(&x, &yy).is_err());
    // x.c1 + p fits only when the three top bits stay clear
    if let Some(s) = add_be(&x[..48], &p) {
        if s[0] & 0xe0 == 0 {
            let mut xx = x;
            xx[..48].copy_from_slice(&s);
            assert!(BBSplusPublicKey::from_coordinates(&xx, &y).is_err());
        }
    }
}

// ---------------------------------------------------------------------------------------------
// Family 9: points off the curve / on the curve but outside the prime-order subgroup
// ---------------------------------------------------------------------------------------------

fn g1_non_subgroup_points() -> Vec<[u8; 48]> {
    let mut out = Vec::new();
    for x in 0u16..400 {
        for sign in [0u8, 0x20] {
            let mut b = [0u8; 48];
            b[0] = 0x80 | sign;
            b[46] = (x >> 8) as u8;
            b[47] = (x & 0xff) as u8;
            let pt = G1Affine::from_compressed_unchecked(&b);
            if bool::from(pt.is_some()) {
                let pt = pt.unwrap();
                if !bool::from(pt.is_torsion_free()) && bool::from(pt.is_on_curve()) {
                    out.push(b);
                }
            }
        }
    }
    out
}

fn g2_non_subgroup_points() -> Vec<[u8; 96]> {
    let mut out = Vec::new();
    for x in 0u16..200 {
        let mut b = [0u8; 96];
        b[0] = 0x80;
        b[94] = (x >> 8) as u8;
        b[95] = (x & 0xff) as u8;
        let pt = G2Affine::from_compressed_unchecked(&b);
        if bool::from(pt.is_some()) {
            let pt = pt.unwrap();
            if !bool::from(pt.is_torsion_free()) && bool::from(pt.is_on_curve()) {
                out.push(b);
            }
        }
    }
    out
}

#[test]
fn f09a_g1_points_outside_subgroup_or_off_curve_rejected() {
    let f = fixture::<Bls12381Sha256>(2, &[0]);
    let bad = g1_non_subgroup_points();
    assert!(bad.len() > 20, "{}", bad.len());
    let sig = f.sig.to_bytes();
    let proof = f.proof.to_bytes();
    let (c, _) = Commitment::<BBSplus<Bls12381Sha256>>::commit(Some(&f.messages)).unwrap();
    let c = c.to_bytes();
    let sig_json = serde_json::to_string(&f.sig).unwrap();
    let a_hex = hex::encode(&sig[..48]);
    for b in bad.iter().take(40) {
        let mut s = sig;
        s[..48].copy_from_slice(b);
        assert!(BBSplusSignature::from_bytes(&s).is_err());
        for k in 0..3 {
            let mut p = proof.clone();
            p[48 * k..48 * (k + 1)].copy_from_slice(b);
            assert!(BBSplusPoKSignature::from_bytes(&p).is_err());
        }
        let mut cc = c.clone();
        cc[..48].copy_from_slice(b);
        assert!(BBSplusCommitment::from_bytes(&cc).is_err());
        let j = sig_json.replace(&a_hex, &hex::encode(b));
        assert!(serde_json::from_str::<Signature<BBSplus<Bls12381Sha256>>>(&j).is_err());
    }
    // off the curve: an x for which x^3 + 4 is not a square
    let mut off = 0;
    for x in 0u8..60 {
        let mut b = [0u8; 48];
        b[0] = 0x80;
        b[47] = x;
        if bool::from(G1Affine::from_compressed_unchecked(&b).is_none()) {
            off += 1;
            let mut s = sig;
            s[..48].copy_from_slice(&b);
            assert!(BBSplusSignature::from_bytes(&s).is_err());
            let j = sig_json.replace(&a_hex, &hex::encode(b));
            assert!(serde_json::from_str::<Signature<BBSplus<Bls12381Sha256>>>(&j).is_err());
        }
    }
    assert!(off > 5);
}

#[test]
fn f09b_g2_points_outside_subgroup_or_off_curve_rejected() {
    let f = fixture::<Bls12381Sha256>(0, &[]);
    let bad = g2_non_subgroup_points();
    assert!(bad.len() > 10, "{}", bad.len());
    for b in bad.iter().take(25) {
        assert!(BBSplusPublicKey::from_bytes(b).is_err());
        let j = format!("\"{}\"", hex::encode(b));
        assert!(serde_json::from_str::<BBSplusPublicKey>(&j).is_err());
        // the same point in uncompressed form
        let u = G2Affine::from_compressed_unchecked(b).unwrap().to_uncompressed();
        let x: [u8; 96] = u[..96].try_into().unwrap();
        let y: [u8; 96] = u[96..].try_into().unwrap();
        assert!(BBSplusPublicKey::from_coordinates(&x, &y).is_err());
    }
    // off the curve in uncompressed form: perturb y
    let (x, mut y) = f.kp.public_key().to_coordinates();
    y[95] ^= 1;
    assert!(BBSplusPublicKey::from_coordinates(&x, &y).is_err());
    // swapped coordinates
    let (x, y) = f.kp.public_key().to_coordinates();
    assert!(BBSplusPublicKey::from_coordinates(&y, &x).is_err());
}

// ---------------------------------------------------------------------------------------------
// Family 10: single-bit flips of honest encodings: decode(b) = Ok(x) => encode(x) = b
// ---------------------------------------------------------------------------------------------

#[test]
fn f10a_bitflips_public_key_and_signature() {
    let f = fixture::<Bls12381Shake256>(2, &[0]);
    let pk = f.kp.public_key().to_bytes();
    let mut accepted = 0;
    for i in 0..pk.len() * 8 {
        let mut v = pk;
        v[i / 8] ^= 1 << (i % 8);
        if let Ok(x) = BBSplusPublicKey::from_bytes(&v) {
            accepted += 1;
            assert_eq!(x.to_bytes(), v, "pk bit {}", i);
            assert_ne!(&x, f.kp.public_key());
        }
    }
    let sig = f.sig.to_bytes();
    for i in 0..sig.len() * 8 {
        let mut v = sig;
        v[i / 8] ^= 1 << (i % 8);
        if let Ok(x) = BBSplusSignature::from_bytes(&v) {
            accepted += 1;
            assert_eq!(x.to_bytes(), v, "sig bit {}", i);
            assert_ne!(&x, f.sig.bbsPlusSignature());
        }
    }
    assert!(accepted > 0);
}

#[test]
fn f10b_bitflips_proof() {
    let f = fixture::<Bls12381Sha256>(2, &[0]);
    let p = f.proof.to_bytes();
    let mut accepted = 0;
    for i in 0..p.len() * 8 {
        let mut v = p.clone();
        v[i / 8] ^= 1 << (i % 8);
        if let Ok(x) = BBSplusPoKSignature::from_bytes(&v) {
            accepted += 1;
            assert_eq!(x.to_bytes(), v, "proof bit {}", i);
            assert_ne!(&x, f.proof.to_bbsplus_proof());
        }
    }
    assert!(accepted > 0);
}

#[test]
fn f10d_bitflips_commitment() {
    let f = fixture::<Bls12381Sha256>(2, &[0]);
    let mut accepted = 0;
    let (c, _) = Commitment::<BBSplus<Bls12381Sha256>>::commit(Some(&f.messages)).unwrap();
    let cb = c.to_bytes();
    for i in 0..cb.len() * 8 {
        let mut v = cb.clone();
        v[i / 8] ^= 1 << (i % 8);
        if let Ok(x) = BBSplusCommitment::from_bytes(&v) {
            accepted += 1;
            assert_eq!(x.to_bytes(), v, "commitment bit {}", i);
            assert_ne!(Commitment::<BBSplus<Bls12381Sha256>>::BBSplus(x), c);
        }
    }
    assert!(accepted > 0);
}

#[test]
fn f10c_bitflips_coordinates() {
    let f = fixture::<Bls12381Sha256>(0, &[]);
    let (x, y) = f.kp.public_key().to_coordinates();
    for i in 0..96 * 8 {
        let mut xx = x;
        xx[i / 8] ^= 1 << (i % 8);
        if let Ok(k) = BBSplusPublicKey::from_coordinates(&xx, &y) {
            assert_eq!(k.to_coordinates(), (xx, y), "x bit {}", i);
        }
        let mut yy = y;
        yy[i / 8] ^= 1 << (i % 8);
        if let Ok(k) = BBSplusPublicKey::from_coordinates(&x, &yy) {
            assert_eq!(k.to_coordinates(), (x, yy), "y bit {}", i);
        }
    }
}

// ---------------------------------------------------------------------------------------------
// Family 11: extensions by 1..=64 bytes and truncations
// ---------------------------------------------------------------------------------------------

#[test]
fn f11_extensions_and_truncations() {
    let f = fixture::<Bls12381Sha256>(2, &[0]);
    let pk = f.kp.public_key().to_bytes().to_vec();
    let sk = f.kp.private_key().to_bytes().to_vec();
    let sig = f.sig.to_bytes().to_vec();
    let proof = f.proof.to_bytes();
    let (c, _) = Commitment::<BBSplus<Bls12381Sha256>>::commit(Some(&f.messages)).unwrap();
    let com = c.to_bytes();

    for fill in [0x00u8, 0x01, 0x73, 0xff] {
        for n in 1..=64usize {
            let ext = |b: &Vec<u8>| {
                let mut v = b.clone();
                v.extend(std::iter::repeat(fill).take(n));
                v
            };
            assert!(BBSplusPublicKey::from_bytes(&ext(&pk)).is_err());
            assert!(BBSplusSecretKey::from_bytes(&ext(&sk)).is_err());
            // signatures are decoded from a slice by proof_gen
            assert!(PoKSignature::<BBSplus<Bls12381Sha256>>::proof_gen(
                f.kp.public_key(),
                &ext(&sig),
                Some(HEADER),
                Some(PH),
                Some(&f.messages),
                Some(&[0])
            )
            .is_err());
            let v = ext(&proof);
            match BBSplusPoKSignature::from_bytes(&v) {
                Ok(x) => {
                    assert_eq!(n % 32, 0);
                    assert_eq!(x.to_bytes(), v);
                    assert_ne!(&x, f.proof.to_bbsplus_proof());
                }
                Err(_) => {}
            }
            let v = ext(&com);
            match BBSplusCommitment::from_bytes(&v) {
                Ok(x) => {
                    assert_eq!(n % 32, 0);
                    assert_eq!(x.to_bytes(), v);
                }
                Err(_) => {}
            }
            // a blind signer must not accept the extended commitment as the honest one
            if n % 32 != 0 {
                assert!(BlindSignature::<BBSplus<Bls12381Sha256>>::blind_sign(
                    f.kp.private_key(),
                    f.kp.public_key(),
                    Some(&v),
                    None,
                    None
                )
                .is_err());
            }
        }
    }
    // truncations
    for n in 0..pk.len() {
        assert!(BBSplusPublicKey::from_bytes(&pk[..n]).is_err());
    }
    for n in 0..sk.len() {
        assert!(BBSplusSecretKey::from_bytes(&sk[..n]).is_err());
    }
    for n in 0..sig.len() {
        assert!(PoKSignature::<BBSplus<Bls12381Sha256>>::proof_gen(
            f.kp.public_key(),
            &sig[..n],
            None,
            None,
            Some(&f.messages),
            None
        )
        .is_err());
    }
    for n in 0..proof.len() {
        match BBSplusPoKSignature::from_bytes(&proof[..n]) {
            Ok(x) => {
                assert_eq!(x.to_bytes(), &proof[..n]);
                assert_ne!(&x, f.proof.to_bbsplus_proof());
            }
            Err(_) => {}
        }
    }
    for n in 0..com.len() {
        match BBSplusCommitment::from_bytes(&com[..n]) {
            Ok(x) => assert_eq!(x.to_bytes(), &com[..n]),
            Err(_) => {}
        }
    }
    // empty strings
    assert!(BBSplusPoKSignature::from_bytes(&[]).is_err());
    assert!(BBSplusCommitment::from_bytes(&[]).is_err());
    assert!(BBSplusZKPoK::from_bytes(&[]).is_err());
}

// ---------------------------------------------------------------------------------------------
// Family 12: the commitment point. The statement's list of places where the identity is
// forbidden is (public key, signature point, proof points); the Blind BBS draft lets an
// Identity_G1 commitment stand for "no commitment". So only canonicity is asserted here: an
// identity commitment that decodes has to re-encode to the very same string, and what the signer
// validates is the point that was sent.
// ---------------------------------------------------------------------------------------------

#[test]
fn f12_identity_commitment_point_is_canonical() {
    type CS = Bls12381Sha256;
    // commitment = Q2 * 0 = identity, proof of knowledge of the opening (0)
    let api_id = <CS as BbsCiphersuite>::API_ID_BLIND;
    let blind_gens = Generators::create::<CS>(1, Some(&[b"BLIND_", api_id].concat()));
    let s_tilde = Scalar::from(7u64);
    let Cbar = blind_gens.values[0] * s_tilde;
    let challenge =
        calculate_blind_challenge::<CS>(G1Projective::IDENTITY, Cbar, &blind_gens.values, Some(api_id))
            .unwrap();
    let mut b = g1_identity();
    b.extend_from_slice(&s_tilde.to_be_bytes()); // s_cap = s_tilde + 0 * c
    b.extend_from_slice(&challenge.to_be_bytes());

    if let Ok(c) = BBSplusCommitment::from_bytes(&b) {
        assert_eq!(c.to_bytes(), b);
    }
    if let Ok(p) =
        Commitment::<BBSplus<CS>>::deserialize_and_validate_commit(Some(&b), &blind_gens, Some(api_id))
    {
        assert_eq!(p, G1Projective::IDENTITY);
    }
    // non-canonical identities stay refused inside a commitment
    for (i, v) in [(0usize, 0xe0u8), (47, 1)] {
        let mut bb = b.clone();
        bb[i] = v;
        assert!(BBSplusCommitment::from_bytes(&bb).is_err());
    }
}

// ---------------------------------------------------------------------------------------------
// Family 13: the zero secret key (the drafts require 0 < SK < r). Reading: "keys survive every
// encoding": a key accepted by from_bytes must have a public key that survives its own codec.
// ---------------------------------------------------------------------------------------------

#[test]
fn f13_zero_secret_key_public_key_survives_encoding() {
    match BBSplusSecretKey::from_bytes(&[0u8; 32]) {
        Err(_) => {} // refusing the zero key is fine
        Ok(sk) => {
            let pk = sk.public_key();
            let b = pk.to_bytes();
            let back = BBSplusPublicKey::from_bytes(&b);
            assert!(
                back.is_ok(),
                "SK = 0 is accepted, its public key {} does not decode",
                hex::encode(b)
            );
            assert_eq!(back.unwrap(), pk);
        }
    }
}

// ---------------------------------------------------------------------------------------------
// Family 14: JSON: wrong lengths, upper-case hex (two strings for one object), surrounding data
// ---------------------------------------------------------------------------------------------

#[test]
fn f14a_json_wrong_lengths_rejected() {
    let f = fixture::<Bls12381Sha256>(1, &[]);
    let pk_hex = hex::encode(f.kp.public_key().to_bytes());
    for j in [
        format!("\"{}\"", &pk_hex[..190]),
        format!("\"{}00\"", pk_hex),
        format!("\"00{}\"", pk_hex),
        format!("\"{}\"", &pk_hex[..191]),
        "\"\"".to_owned(),
        format!("\"0x{}\"", pk_hex),
        format!("\" {}\"", pk_hex),
    ] {
        assert!(serde_json::from_str::<BBSplusPublicKey>(&j).is_err(), "{}", j);
    }
    let sk_hex = hex::encode(f.kp.private_key().to_bytes());
    for j in [
        format!("\"{}\"", &sk_hex[..62]),
        format!("\"{}00\"", sk_hex),
        format!("\"00{}\"", sk_hex),
        format!("\"0x{}\"", sk_hex),
        "\"\"".to_owned(),
        "\"1\"".to_owned(),
        "1".to_owned(),
    ] {
        assert!(serde_json::from_str::<BBSplusSecretKey>(&j).is_err(), "{}", j);
    }
}

#[test]
fn f14b_json_hex_case_is_canonical() {
    // decode(b) = Ok(x) implies encode(x) = b, applied to the JSON codec at the level of the
    // string values (insignificant JSON white space is not considered)
    let f = fixture::<Bls12381Sha256>(1, &[]);
    let j = serde_json::to_string(f.kp.public_key()).unwrap();
    let upper = j.to_uppercase();
    assert_ne!(upper, j);
    if let Ok(x) = serde_json::from_str::<BBSplusPublicKey>(&upper) {
        assert_eq!(
            serde_json::to_string(&x).unwrap(),
            upper,
            "upper-case hex decodes to the same key as the canonical lower-case string"
        );
    }
    let j = serde_json::to_string(f.kp.private_key()).unwrap();
    let upper = j.to_uppercase();
    if let Ok(x) = serde_json::from_str::<BBSplusSecretKey>(&upper) {
        assert_eq!(serde_json::to_string(&x).unwrap(), upper);
    }
}

// ---------------------------------------------------------------------------------------------
// Family 15: objects of the "other" enum variants built through JSON: they must survive the
// octet codec as well (reading: "survive every encoding the API offers"), i.e. either the JSON
// decoder refuses them or to_bytes yields something that decodes back to them.
// ---------------------------------------------------------------------------------------------

#[test]
fn f15_json_built_unreachable_variant_survives_octets() {
    type S = BBSplus<Bls12381Sha256>;
    let j = "{\"_Unreachable\":null}";
    if let Ok(x) = serde_json::from_str::<Signature<S>>(j) {
        let r = std::panic::catch_unwind(|| x.to_bytes());
        assert!(r.is_ok(), "Signature accepted from JSON, to_bytes panics");
    }
    if let Ok(x) = serde_json::from_str::<PoKSignature<S>>(j) {
        let r = std::panic::catch_unwind(|| x.to_bytes());
        assert!(r.is_ok(), "PoKSignature accepted from JSON, to_bytes panics");
    }
    if let Ok(x) = serde_json::from_str::<Commitment<S>>(j) {
        let r = std::panic::catch_unwind(|| x.to_bytes());
        assert!(r.is_ok(), "Commitment accepted from JSON, to_bytes panics");
    }
    if let Ok(x) = serde_json::from_str::<BlindSignature<S>>(j) {
        let r = std::panic::catch_unwind(|| x.to_bytes());
        assert!(r.is_ok(), "BlindSignature accepted from JSON, to_bytes panics");
    }
}

// ---------------------------------------------------------------------------------------------
// Family 16: proof / commitment shapes at the length boundaries, zero scalars
// ---------------------------------------------------------------------------------------------

#[test]
fn f16_length_boundaries() {
    let f = fixture::<Bls12381Sha256>(1, &[0]);
    let p = f.proof.to_bytes();
    assert_eq!(p.len(), 272);
    for n in [0usize, 47, 48, 143, 144, 239, 240, 241, 255, 256, 271, 273, 288, 303] {
        let mut v = p.clone();
        v.resize(n, 0);
        assert!(BBSplusPoKSignature::from_bytes(&v).is_err(), "len {}", n);
    }
    let (c, _) = Commitment::<BBSplus<Bls12381Sha256>>::commit(None).unwrap();
    let c = c.to_bytes();
    assert_eq!(c.len(), 112);
    for n in [0usize, 1, 47, 48, 49, 79, 80, 81, 111, 113, 127, 143] {
        let mut v = c.clone();
        v.resize(n, 0);
        assert!(BBSplusCommitment::from_bytes(&v).is_err(), "len {}", n);
    }
    // zero scalars are legitimate values and must re-encode exactly
    let mut v = p.clone();
    for b in v[144..].iter_mut() {
        *b = 0;
    }
    let x = BBSplusPoKSignature::from_bytes(&v).unwrap();
    assert_eq!(x.to_bytes(), v);
    let z = BlindFactor::from_bytes(&[0u8; 32]).unwrap();
    assert_eq!(z.to_bytes(), [0u8; 32]);
    // r - 1 is the maximal scalar
    let mut rm1 = h(R_HEX);
    rm1[31] = 0;
    let k = BBSplusSecretKey::from_bytes(&rm1).unwrap();
    assert_eq!(k.to_bytes().to_vec(), rm1);
    let pk = k.public_key();
    assert_eq!(BBSplusPublicKey::from_bytes(&pk.to_bytes()).unwrap(), pk);
    let mut s = f.sig.to_bytes();
    s[48..].copy_from_slice(&rm1);
    assert_eq!(BBSplusSignature::from_bytes(&s).unwrap().to_bytes(), s);
}

// ---------------------------------------------------------------------------------------------
// Family 17: distinct strings never decode to the same object: JSON vs octets agree, and
// the JSON form of a point is exactly the hex of its octets (no second representation, e.g.
// uncompressed or projective coordinates, is accepted)
// ---------------------------------------------------------------------------------------------

#[test]
fn f17_json_accepts_only_the_compressed_form() {
    let f = fixture::<Bls12381Sha256>(1, &[]);
    let pk = f.kp.public_key();
    let (x, y) = pk.to_coordinates();
    let unc = [x.to_vec(), y.to_vec()].concat();
    let j = format!("\"{}\"", hex::encode(&unc));
    assert!(serde_json::from_str::<BBSplusPublicKey>(&j).is_err());
    // byte-array form of the same key
    let arr = serde_json::to_string(&pk.to_bytes().to_vec()).unwrap();
    if let Ok(k) = serde_json::from_str::<BBSplusPublicKey>(&arr) {
        assert_eq!(serde_json::to_string(&k).unwrap(), arr, "array form decodes to the same key");
    }
    let a = G1Affine::from(f.sig.a()).to_uncompressed();
    let j = format!(
        "{{\"A\":\"{}\",\"e\":\"{}\"}}",
        hex::encode(a),
        hex::encode(f.sig.e().to_be_bytes())
    );
    assert!(serde_json::from_str::<BBSplusSignature>(&j).is_err());
    // byte-array form of a scalar
    let arr = serde_json::to_string(&f.kp.private_key().to_bytes().to_vec()).unwrap();
    if let Ok(k) = serde_json::from_str::<BBSplusSecretKey>(&arr) {
        assert_eq!(serde_json::to_string(&k).unwrap(), arr, "array form decodes to the same secret key");
    }
    // message scalar octets
    let m = BBSplusMessage::map_message_to_scalar_as_hash::<Bls12381Sha256>(b"x", Bls12381Sha256::API_ID).unwrap();
    let mb = m.to_bytes_be();
    let m2 = BBSplusMessage::from_bytes_be(&mb).unwrap();
    assert_eq!(m2, m);
    assert_eq!(m2.to_bytes_be(), mb);
    let _ = G2Projective::IDENTITY;
}
