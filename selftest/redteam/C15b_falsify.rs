#![cfg(feature = "cl03")]
#![allow(non_snake_case, non_upper_case_globals, dead_code, unused_imports, unused_variables, unused_mut, deprecated)]

const PK_JSON: &str = r#"{"N":{"radix":16,"value":"2b88b198edff91c5a0a45debfe4276cf2a26838121dc8f214f21a7a88cbdd7feb913f5b1a7ba8a14f89d7d60de2d6f3969704eecd673729fa68797bcb9dc907426039a5b79b1b86a9a6675b503df68fff0bfe3f6e98ed998a635d33fe285b558c06d58b13fc8e5cf8ea198a711ba6afc3f65299d97f7009b5af5be269f3fc276d"},"b":{"radix":16,"value":"198ee35922df409a8e9243f95835fd94c5dce3e90a8758c2bf7484f3c4c7fd7cfa2dc16de98cb4602dc618066fcc434735a8def447c336f909c8728a22f7207152bbd7c177fa2077988c1571135e067b3f07b9c1191a95ee83a97dbdae2704129393d556af37ccf61dca3ae6ae5cc4250a4517370ea90a1739e6306194e5fa2e3"},"c":{"radix":16,"value":"444002dbfa0555504e7780a2729afbcd235aa4821903d74f0c81033327192caf0312fe461dbadf909cf8acee3870c9ad54968157cc5a0a404f44fac9ad83dc3bf00f57dbf858128558fb8a636a2b9327ab5f533d5b54cb60abdafec62914e86e523b32c19bbb23e8faa01613bf56005c77b78a8a63007950ecf956f8c778a2f7"}}"#;
const SK_JSON: &str = r#"{"p":{"radix":16,"value":"1de9218a3d2fac5e6e2891a338ecc54be7c5a18c8b04cda4dc3330cd8e1fb77ae23efe790707139c1b0f6314384dd5af5f52813b22c62a8e2756b6d5d9f5973ff"},"q":{"radix":16,"value":"174996b382ea8c4a062ec89ada5ac5237a0104bc76809d425ed0fc8cc2180d3ae1ea1acc699beddf92fc18de9a291cc2c08e21efa6220bb00e5065e6348f17493"}}"#;
const BASES_JSON: &str = r#"[{"radix":16,"value":"197a29b8243aff50549efef865da60b6fc4b0c9164d402c3c6e99a5aae96906e454b3c63ae8181185e7cd09cff5c0dbc71a78fa5928a3f91d3fe3cb71603f4d08f8e57c07605596025f0563026d86a2728d1a08851fde54313eedc861872fe0e3f22ed72e7b9ae85f744fce2b7c8cede0f9aaada6bd6285d06e8964e223296e0a"},{"radix":16,"value":"1245bcf40f79a483ceb492afcb0ee92d3d71ef8c5079953dc3f9c28d83fa3efbe67917df01619532798690b7d285cc8869610add1717b5608f45bdab587d83297246920283c693be92e43dbc6dd4766469f414ff1f893fea5dab91a90edf8547390d98f32b209d4f79c7d2fe8a90f58e16f1a01ce8b9c4f090cf1894643b1f317"},{"radix":16,"value":"8db2fb2862331279c5a01f8df0142b45373876209a98ac9f09a9831b9637982ddfd254e3b0a6c5af8f1401a324b30ca5122b2016440c9d5d4d7f714481d49afd17b23de54feaae444e12f0c0246fb44c40a2b6dceac09ad8a2aa697f20e7350d81d31c6baf76e5da06f12839872bff4d4283c1a3a17d30ce8cc6f7ee735f253"},{"radix":16,"value":"756bef09467a82aea2d2e4ba2ad70de3ea155cb300d9c6f6906bfe6ab661395e45f9fb622f8536de15975a04eeb213e7870d7e2a628f5c1d9b3b249f4a57157d7577716d6a8cd846734a252291f951c9c3363dffa3974891e47dc092edff719966a9bea3245a3241ee4819eecc957e95e8f56dd3550452850420427549b64fa8"},{"radix":16,"value":"206bb22f6cfc2c3390e6cc557e8cfe7650983c5f185e8d6cff84416efc9710a46cbdca3f8fe1ac7575da6b8a5af7f7a8a1d57cbf10cee8b401b8d91ca1926f02583fc70bab5ce9c429949b3c939b55197f371cf2f0a32700dcd373b83bb83394d323270e4a70c5765eae24060795cf2ea9dd99ec2d5be2d41fb47da6436c3df2f"}]"#;
const CPK_JSON: &str = r#"{"N":{"radix":16,"value":"2b88b198edff91c5a0a45debfe4276cf2a26838121dc8f214f21a7a88cbdd7feb913f5b1a7ba8a14f89d7d60de2d6f3969704eecd673729fa68797bcb9dc907426039a5b79b1b86a9a6675b503df68fff0bfe3f6e98ed998a635d33fe285b558c06d58b13fc8e5cf8ea198a711ba6afc3f65299d97f7009b5af5be269f3fc276d"},"h":{"radix":16,"value":"28fa7f5aa0490f003512ea4adb2c4201d4878f5e4a779b9e3b5608c9076a6b6e6eb36200cc8d6d8eb10fa86626449d707bf145c7d0af1241751f045ad4bda28717ed33fb93ae49c9831ba45cc19637a9637486832e2ff777268098cb17d8064b4dfb7bee81381e38d7969e723b6fae6a8bf8b9be7102daddc136859c289ed90c7"},"g_bases":[{"radix":16,"value":"6508128dcbc5393fdc813d4ed1ee65032aedf98eff02801c47fac929804b331d4f5afd6dd5995ec81c61523c9d803ba10d114fdbe1f48eb5c0c50c799866b41e61c0cbd4e8967cbc1f5d69e5b6c9c14fb388e03738a7da83fbd8705ca028208b754dea774d3ac48d7bc1749f81827b8997ea0fe97d9742e883c560686a57dde2"},{"radix":16,"value":"22ee8cfbe48dca130d86760f17f2581b87d0a07b8ac3ce5782d7daa5af9d1dc624a68b3e3015b0cc8f87260fe28c2e50a79de75e10f335f6a5d00d5e56af2b5bc53de2059b9a92424b0e57c7babf017922e5bb23fdeda81bd107bca7df721cce4c24dce333d8c389f9e528bcb1ba3fc37214e24635de74b3e0b1418f00e3a80b3"},{"radix":16,"value":"e8f9280f6bc4dcc31128a163ad297616a9a1a68523a048b378ab6315312455c94f3ac147b72d786012605e9f14af8af8a8704a9790d1a9d3785ff865a50bc017230b45832dbdfbdfb262b126bede37e81ff5a2a008d686747fa42d28a9daa8105dcd7053d4fdde58961e0cfc4833e6309d9cfc445be9676d87acaf1cdda48846"},{"radix":16,"value":"2b14247ae8404b26100b1d2ae1c1e8815c42b41e655a9168d832fb8ef1052c8bf64d3be4e785853c9ae4d2725096ec417012f362bcb5e217e3f226d56b972a197366590e4c4b9e8b270bb7e4287eda7614f45c72ff2c0cda575558c6e65140354023c64075e95c3570b38fa2a8f95390b253985df69ec180c3818a82cc9622741"},{"radix":16,"value":"b94be138cc4aa92d9d59ee0bd719b58da16195a4d591e855069e3dae5522b0cf6f2be4472e44ab73d59c8e292ca8a59f84681b86aa28c7c31207e3252f42954fd0274cc689818853f629a9bb7a03488caf58a8aa01af099b4d6cef3f5ed2f99c5a09687802416996c70cc0564fcf28e747d03722f3daf736efe03bc2d33b9a0c"}]}"#;

// ------------------------------------------------------------------------------------------------
// Red team, property C15 (second pass): CL03 proof of knowledge of a signature.
// Every test asserts what the property REQUIRES: a test that fails is a demonstrated violation.
// Reading used for panics: a panic of the verifier counts as a refusal (the statement says so); a panic of the honest prover
// on a valid signature would count as a completeness failure.
// Key material is fixed (generated once with KeyPair::generate / Bases::generate / CL03CommitmentPublicKey::generate for
// CL1024-SHA256, 5 bases); the provers' randomness is the library's own.
// ------------------------------------------------------------------------------------------------

use digest::Digest;
use rug::{integer::Order, ops::Pow, Complete, Integer};
use serde_json::{json, Value};
use sha2::Sha256;
use std::panic::{catch_unwind, AssertUnwindSafe};
use std::sync::OnceLock;
use zkryptium::{
    cl03::{
        bases::Bases,
        ciphersuites::{CL1024Sha256, CL2048Sha256},
        keys::{CL03CommitmentPublicKey, CL03PublicKey, CL03SecretKey},
    },
    schemes::algorithms::CL03,
    schemes::generics::{BlindSignature, Commitment, PoKSignature, Signature, ZKPoK},
    utils::message::cl03_message::CL03Message,
};

type CS = CL1024Sha256;
type Sig = Signature<CL03<CS>>;
type PoK = PoKSignature<CL03<CS>>;

const LM: u32 = 256;
const LE: u32 = 258;

struct Fx {
    pk: CL03PublicKey,
    sk: CL03SecretKey,
    bases: Bases,
    cpk: CL03CommitmentPublicKey,
}

fn fx() -> &'static Fx {
    static FX: OnceLock<Fx> = OnceLock::new();
    FX.get_or_init(|| Fx {
        pk: serde_json::from_str(PK_JSON).unwrap(),
        sk: serde_json::from_str(SK_JSON).unwrap(),
        bases: serde_json::from_str(BASES_JSON).unwrap(),
        cpk: serde_json::from_str(CPK_JSON).unwrap(),
    })
}

/// statement for n attributes: the signer key, the first n bases, the commitment key with the first n bases
fn stmt(n: usize) -> (CL03PublicKey, Bases, CL03CommitmentPublicKey) {
    let f = fx();
    let mut cpk = f.cpk.clone();
    cpk.g_bases.truncate(n);
    (f.pk.clone(), Bases(f.bases.0[..n].to_vec()), cpk)
}

fn sha_int(s: &str) -> Integer {
    Integer::from_digits(Sha256::digest(s.as_bytes()).as_slice(), Order::MsfBe)
}

/// deterministic pseudo-random non-negative integer of at most `bits` bits
fn det(label: &str, bits: u32) -> Integer {
    let mut acc = Integer::from(0);
    let mut i = 0;
    while acc.significant_bits() < bits {
        acc = (acc << 256u32) + sha_int(&format!("{label}/{i}"));
        i += 1;
    }
    acc.keep_bits(bits)
}

fn msgs(n: usize) -> Vec<CL03Message> {
    (0..n).map(|i| CL03Message::new(det(&format!("attribute {i}"), LM))).collect()
}

fn sign(m: &[CL03Message]) -> Sig {
    let f = fx();
    let (pk, bases, _) = stmt(m.len());
    let s = Sig::sign_multiattr(&pk, &f.sk, &bases, m);
    assert!(s.verify_multiattr(&pk, &bases, m), "honest signature must verify");
    s
}

/// a signature with chosen e and s, made with the secret key and decoded from its JSON form
fn craft_sig(m: &[CL03Message], e: &Integer, s: &Integer) -> Sig {
    let f = fx();
    let n = &f.pk.N;
    let phi = (&f.sk.p - Integer::from(1)) * (&f.sk.q - Integer::from(1));
    assert_eq!(Integer::from(e.gcd_ref(&phi)), 1, "precondition: e coprime to phi(N)");
    let d = Integer::from(e.invert_ref(&phi).unwrap());
    let mut acc = Integer::from(1);
    for (i, mi) in m.iter().enumerate() {
        acc = acc * pm(&f.bases.0[i], &mi.value, n) % n;
    }
    acc = acc * pm(&f.pk.b, s, n) % n * &f.pk.c % n;
    let v = pm(&acc, &d, n);
    serde_json::from_value(json!({"CL03": {"e": iv(e), "s": iv(s), "v": iv(&v)}})).unwrap()
}

fn revealed(m: &[CL03Message], hidden: &[usize]) -> Vec<CL03Message> {
    m.iter().enumerate().filter(|(i, _)| !hidden.contains(i)).map(|(_, x)| x.clone()).collect()
}

fn subsets(n: usize) -> Vec<Vec<usize>> {
    (0..(1usize << n)).map(|mask| (0..n).filter(|i| mask >> i & 1 == 1).collect()).collect()
}

fn gen(sig: &Sig, m: &[CL03Message], hidden: &[usize]) -> PoK {
    let (pk, bases, cpk) = stmt(m.len());
    PoK::proof_gen(sig.cl03Signature(), &cpk, &pk, &bases, m, hidden)
}

/// true when the verifier refuses (returns false or panics)
fn refuses(f: impl FnOnce() -> bool) -> bool {
    match catch_unwind(AssertUnwindSafe(f)) {
        Ok(b) => !b,
        Err(_) => true,
    }
}

fn ver(p: &PoK, pk: &CL03PublicKey, bases: &Bases, cpk: &CL03CommitmentPublicKey, rev: &[CL03Message], hidden: &[usize], n: usize) -> bool {
    p.proof_verify(cpk, pk, bases, rev, hidden, n)
}

fn pm(b: &Integer, e: &Integer, n: &Integer) -> Integer {
    Integer::from(b.pow_mod_ref(e, n).expect("pow_mod"))
}

fn iv(i: &Integer) -> Value {
    serde_json::to_value(i).unwrap()
}

fn vi(v: &Value) -> Integer {
    serde_json::from_value(v.clone()).unwrap()
}

fn is_int(v: &Value) -> bool {
    v.as_object().map_or(false, |o| o.len() == 2 && o.contains_key("radix") && o.contains_key("value"))
}

/// JSON pointers of all the integers of a serialised value
fn int_paths(v: &Value, cur: String, out: &mut Vec<String>) {
    if is_int(v) {
        out.push(cur);
        return;
    }
    match v {
        Value::Object(o) => {
            for (k, c) in o {
                int_paths(c, format!("{cur}/{k}"), out);
            }
        }
        Value::Array(a) => {
            for (k, c) in a.iter().enumerate() {
                int_paths(c, format!("{cur}/{k}"), out);
            }
        }
        _ => {}
    }
}

fn decode(v: &Value) -> Option<PoK> {
    serde_json::from_value::<PoK>(v.clone()).ok()
}

// ================================================================================================
// COMPLETENESS
// ================================================================================================

#[test]
fn c01_complete_all_subsets_n1_to_5() {
    for n in 1..=5usize {
        let m = msgs(n);
        let sig = sign(&m);
        let (pk, bases, cpk) = stmt(n);
        for hidden in subsets(n) {
            let p = gen(&sig, &m, &hidden);
            assert!(ver(&p, &pk, &bases, &cpk, &revealed(&m, &hidden), &hidden, n), "n={n} hidden={hidden:?} must verify");
            // and through its serialised form
            let p2: PoK = serde_json::from_str(&serde_json::to_string(&p).unwrap()).unwrap();
            assert_eq!(p, p2);
            assert!(ver(&p2, &pk, &bases, &cpk, &revealed(&m, &hidden), &hidden, n));
        }
    }
}

#[test]
fn c02_complete_edge_attribute_values() {
    // 0 and 2^lm - 1 at hidden and at revealed positions, first and last position
    let max = Integer::from(2).pow(LM) - Integer::from(1);
    let zero = Integer::from(0);
    for vals in [
        vec![zero.clone(), max.clone(), zero.clone()],
        vec![max.clone(), zero.clone(), max.clone()],
        vec![zero.clone(), zero.clone(), zero.clone()],
        vec![max.clone(), max.clone(), max.clone()],
        vec![Integer::from(1), max.clone() - Integer::from(1), Integer::from(2).pow(LM - 1)],
    ] {
        let m: Vec<CL03Message> = vals.into_iter().map(CL03Message::new).collect();
        let sig = sign(&m);
        let (pk, bases, cpk) = stmt(3);
        for hidden in subsets(3) {
            let p = gen(&sig, &m, &hidden);
            assert!(ver(&p, &pk, &bases, &cpk, &revealed(&m, &hidden), &hidden, 3), "edge values, hidden={hidden:?}");
        }
    }
}

#[test]
fn c03_complete_edge_e_and_unusual_s() {
    // verify_multiattr accepts 2^(le-1) < e < 2^le, any s: the extreme exponents of that range, a negative s and a very long s
    let m = msgs(2);
    let (pk, bases, cpk) = stmt(2);
    let f = fx();
    let phi = (&f.sk.p - Integer::from(1)) * (&f.sk.q - Integer::from(1));
    let lo = Integer::from(2).pow(LE - 1) + Integer::from(1);
    let hi = Integer::from(2).pow(LE) - Integer::from(1);
    let s_ok = det("s", 1536);
    let mut cases: Vec<(Integer, Integer)> = Vec::new();
    for e in [lo.clone(), hi.clone()] {
        if Integer::from(e.gcd_ref(&phi)) == 1 {
            cases.push((e, s_ok.clone()));
        } else {
            println!("c03: e = {e} not coprime to phi for the fixed key, skipped");
        }
    }
    let e_mid = det("e", LE).next_prime() | (Integer::from(1) << (LE - 1));
    let e_mid = e_mid.next_prime();
    cases.push((e_mid.clone(), Integer::from(-5)));
    cases.push((e_mid.clone(), Integer::from(0)));
    cases.push((e_mid.clone(), det("long s", 5000)));
    assert!(cases.len() >= 4);
    for (e, s) in cases {
        let sig = craft_sig(&m, &e, &s);
        assert!(sig.verify_multiattr(&pk, &bases, &m), "crafted signature is valid for verify_multiattr");
        for hidden in subsets(2) {
            let p = gen(&sig, &m, &hidden);
            assert!(ver(&p, &pk, &bases, &cpk, &revealed(&m, &hidden), &hidden, 2), "e={e} hidden={hidden:?}");
        }
    }
}

#[test]
fn c04_complete_other_entry_points() {
    // (a) single-attribute Signature::sign
    let f = fx();
    let m = msgs(1);
    let (pk, bases, cpk) = stmt(1);
    let sig = Sig::sign(&pk, &f.sk, &bases, &m[0]);
    assert!(sig.verify(&pk, &bases, &m[0]));
    for hidden in subsets(1) {
        let p = gen(&sig, &m, &hidden);
        assert!(ver(&p, &pk, &bases, &cpk, &revealed(&m, &hidden), &hidden, 1));
    }
    // (b) blind issuance, then unblind, then prove with another hidden set than the one of the issuance
    let m = msgs(3);
    let (pk, bases, cpk) = stmt(3);
    let issue_hidden = [0usize, 2];
    let issue_rev_idx = [1usize];
    let c = Commitment::<CL03<CS>>::commit_with_pk(&m, &pk, &bases, Some(&issue_hidden));
    let zk = ZKPoK::<CL03<CS>>::generate_proof(&m, c.cl03Commitment(), None, &pk, &bases, None, &issue_hidden);
    let bs = BlindSignature::<CL03<CS>>::blind_sign(
        &pk, &f.sk, &bases, &zk, Some(&revealed(&m, &issue_hidden)), c.cl03Commitment(), None, None, &issue_hidden, Some(&issue_rev_idx),
    );
    let sig = bs.unblind_sign(&c);
    assert!(sig.verify_multiattr(&pk, &bases, &m));
    for hidden in subsets(3) {
        let p = gen(&sig, &m, &hidden);
        assert!(ver(&p, &pk, &bases, &cpk, &revealed(&m, &hidden), &hidden, 3), "blind issued, hidden={hidden:?}");
    }
    // (c) update_signature, then unblind
    let bs2 = bs.update_signature(Some(&revealed(&m, &issue_hidden)), c.cl03Commitment(), &f.sk, &pk, &bases, Some(&issue_rev_idx));
    let sig2 = bs2.unblind_sign(&c);
    assert!(sig2.verify_multiattr(&pk, &bases, &m));
    let p = gen(&sig2, &m, &[1]);
    assert!(ver(&p, &pk, &bases, &cpk, &revealed(&m, &[1]), &[1], 3));
    // (d) signature through its byte form
    let sig3 = Sig::from_bytes(&sig.to_bytes());
    assert_eq!(sig3, sig);
    // (e) longer key material than attributes: 5 bases in both keys, 2 attributes
    let m = msgs(2);
    let sig = sign(&m);
    let p = PoK::proof_gen(sig.cl03Signature(), &f.cpk, &f.pk, &f.bases, &m, &[1]);
    assert!(p.proof_verify(&f.cpk, &f.pk, &f.bases, &m[0..1], &[1], 2));
}

// ================================================================================================
// BOUND TO THE STATEMENT: single edits of the verifier's arguments
// ================================================================================================

struct Honest {
    m: Vec<CL03Message>,
    hidden: Vec<usize>,
    rev: Vec<CL03Message>,
    n: usize,
    pk: CL03PublicKey,
    bases: Bases,
    cpk: CL03CommitmentPublicKey,
    p: PoK,
}

fn honest(n: usize, hidden: &[usize]) -> Honest {
    let m = msgs(n);
    let sig = sign(&m);
    let (pk, bases, cpk) = stmt(n);
    let p = gen(&sig, &m, hidden);
    let rev = revealed(&m, hidden);
    assert!(ver(&p, &pk, &bases, &cpk, &rev, hidden, n));
    Honest { m, hidden: hidden.to_vec(), rev, n, pk, bases, cpk, p }
}

#[test]
fn s01_different_revealed_attributes() {
    for hidden in [vec![], vec![0], vec![1, 3], vec![3]] {
        let h = honest(4, &hidden);
        let max = Integer::from(2).pow(LM) - Integer::from(1);
        for j in 0..h.rev.len() {
            for newv in [
                h.rev[j].value.clone() + Integer::from(1),
                h.rev[j].value.clone() - Integer::from(1),
                Integer::from(0),
                max.clone(),
                max.clone() + Integer::from(1),
                Integer::from(-1),
                -h.rev[j].value.clone(),
            ] {
                let mut rev = h.rev.clone();
                rev[j].value = newv.clone();
                assert!(refuses(|| ver(&h.p, &h.pk, &h.bases, &h.cpk, &rev, &h.hidden, h.n)), "revealed[{j}] := {newv} accepted, hidden={hidden:?}");
            }
            // swap with the next revealed attribute
            if j + 1 < h.rev.len() {
                let mut rev = h.rev.clone();
                rev.swap(j, j + 1);
                assert!(refuses(|| ver(&h.p, &h.pk, &h.bases, &h.cpk, &rev, &h.hidden, h.n)), "swap accepted");
            }
            // removed
            let mut rev = h.rev.clone();
            rev.remove(j);
            assert!(refuses(|| ver(&h.p, &h.pk, &h.bases, &h.cpk, &rev, &h.hidden, h.n)), "removal accepted");
        }
        // appended (also a zero)
        for extra in [Integer::from(0), Integer::from(7)] {
            let mut rev = h.rev.clone();
            rev.push(CL03Message::new(extra));
            assert!(refuses(|| ver(&h.p, &h.pk, &h.bases, &h.cpk, &rev, &h.hidden, h.n)), "appended accepted");
        }
        // the full attribute list in place of the revealed ones
        if !hidden.is_empty() {
            assert!(refuses(|| ver(&h.p, &h.pk, &h.bases, &h.cpk, &h.m, &h.hidden, h.n)));
        }
    }
}

#[test]
fn s02_different_signer_key() {
    let h = honest(3, &[1]);
    let one = Integer::from(1);
    let mut keys: Vec<(String, CL03PublicKey)> = Vec::new();
    for d in [one.clone(), -one.clone()] {
        keys.push((format!("N{d:+}"), CL03PublicKey::new(h.pk.N.clone() + &d, h.pk.b.clone(), h.pk.c.clone())));
        keys.push((format!("b{d:+}"), CL03PublicKey::new(h.pk.N.clone(), h.pk.b.clone() + &d, h.pk.c.clone())));
        keys.push((format!("c{d:+}"), CL03PublicKey::new(h.pk.N.clone(), h.pk.b.clone(), h.pk.c.clone() + &d)));
    }
    keys.push(("b<->c".into(), CL03PublicKey::new(h.pk.N.clone(), h.pk.c.clone(), h.pk.b.clone())));
    keys.push(("b=1".into(), CL03PublicKey::new(h.pk.N.clone(), one.clone(), h.pk.c.clone())));
    keys.push(("c=1".into(), CL03PublicKey::new(h.pk.N.clone(), h.pk.b.clone(), one.clone())));
    keys.push(("c^2".into(), CL03PublicKey::new(h.pk.N.clone(), h.pk.b.clone(), h.pk.c.clone() * &h.pk.c % &h.pk.N)));
    keys.push(("b^-1".into(), CL03PublicKey::new(h.pk.N.clone(), h.pk.b.clone().invert(&h.pk.N).unwrap(), h.pk.c.clone())));
    keys.push(("2N".into(), CL03PublicKey::new(h.pk.N.clone() * 2, h.pk.b.clone(), h.pk.c.clone())));
    keys.push(("b:=a0".into(), CL03PublicKey::new(h.pk.N.clone(), h.bases.0[0].clone(), h.pk.c.clone())));
    for (what, k) in keys {
        assert!(refuses(|| ver(&h.p, &k, &h.bases, &h.cpk, &h.rev, &h.hidden, h.n)), "signer key edit {what} accepted");
    }
}

#[test]
fn s03_different_bases() {
    for hidden in [vec![1usize], vec![], vec![0, 1, 2]] {
        let h = honest(3, &hidden);
        let one = Integer::from(1);
        for i in 0..3 {
            for d in [one.clone(), -one.clone()] {
                let mut b = h.bases.clone();
                b.0[i] += &d;
                assert!(refuses(|| ver(&h.p, &h.pk, &b, &h.cpk, &h.rev, &h.hidden, h.n)), "a[{i}]{d:+} accepted");
            }
            let mut b = h.bases.clone();
            b.0[i] = Integer::from(1);
            assert!(refuses(|| ver(&h.p, &h.pk, &b, &h.cpk, &h.rev, &h.hidden, h.n)), "a[{i}]=1 accepted");
            let mut b = h.bases.clone();
            b.0[i] = b.0[i].clone().invert(&h.pk.N).unwrap();
            assert!(refuses(|| ver(&h.p, &h.pk, &b, &h.cpk, &h.rev, &h.hidden, h.n)), "a[{i}]^-1 accepted");
            let mut b = h.bases.clone();
            b.0.swap(i, (i + 1) % 3);
            assert!(refuses(|| ver(&h.p, &h.pk, &b, &h.cpk, &h.rev, &h.hidden, h.n)), "swap a[{i}] accepted");
            let mut b = h.bases.clone();
            b.0.remove(i);
            assert!(refuses(|| ver(&h.p, &h.pk, &b, &h.cpk, &h.rev, &h.hidden, h.n)), "remove a[{i}] accepted");
            let mut b = h.bases.clone();
            b.0.insert(i, fx().bases.0[4].clone());
            assert!(refuses(|| ver(&h.p, &h.pk, &b, &h.cpk, &h.rev, &h.hidden, h.n)), "insert before a[{i}] accepted");
            // the commitment key's base in place of the signer's
            let mut b = h.bases.clone();
            b.0[i] = h.cpk.g_bases[i].clone();
            assert!(refuses(|| ver(&h.p, &h.pk, &b, &h.cpk, &h.rev, &h.hidden, h.n)), "a[{i}]:=g[{i}] accepted");
        }
        assert!(refuses(|| ver(&h.p, &h.pk, &Bases(vec![]), &h.cpk, &h.rev, &h.hidden, h.n)));
    }
}

#[test]
fn s04_different_commitment_key() {
    for hidden in [vec![1usize], vec![], vec![0, 1, 2]] {
        let h = honest(3, &hidden);
        let one = Integer::from(1);
        let mut keys: Vec<(String, CL03CommitmentPublicKey)> = Vec::new();
        for d in [one.clone(), -one.clone()] {
            let mut k = h.cpk.clone();
            k.N += &d;
            keys.push((format!("N{d:+}"), k));
            let mut k = h.cpk.clone();
            k.h += &d;
            keys.push((format!("h{d:+}"), k));
            for i in 0..3 {
                let mut k = h.cpk.clone();
                k.g_bases[i] += &d;
                keys.push((format!("g[{i}]{d:+}"), k));
            }
        }
        for i in 0..3 {
            let mut k = h.cpk.clone();
            k.g_bases.swap(i, (i + 1) % 3);
            keys.push((format!("swap g[{i}]"), k));
            let mut k = h.cpk.clone();
            k.g_bases.remove(i);
            keys.push((format!("remove g[{i}]"), k));
            let mut k = h.cpk.clone();
            k.g_bases[i] = Integer::from(1);
            keys.push((format!("g[{i}]=1"), k));
            let mut k = h.cpk.clone();
            k.g_bases[i] = k.h.clone();
            keys.push((format!("g[{i}]=h"), k));
        }
        let mut k = h.cpk.clone();
        std::mem::swap(&mut k.h, &mut k.g_bases[0]);
        keys.push(("h<->g0".into(), k));
        let mut k = h.cpk.clone();
        k.h = Integer::from(1);
        keys.push(("h=1".into(), k));
        let mut k = h.cpk.clone();
        k.g_bases.clear();
        keys.push(("no g".into(), k));
        // a fresh commitment key over the same modulus
        keys.push(("fresh".into(), CL03CommitmentPublicKey::generate::<CS>(Some(h.pk.N.clone()), Some(3))));
        // the signer's key material used as commitment key
        keys.push(("signer".into(), CL03CommitmentPublicKey { N: h.pk.N.clone(), h: h.pk.b.clone(), g_bases: h.bases.0.clone() }));
        for (what, k) in keys {
            assert!(refuses(|| ver(&h.p, &h.pk, &h.bases, &k, &h.rev, &h.hidden, h.n)), "commitment key edit {what} accepted (hidden={hidden:?})");
        }
    }
}

#[test]
fn s05_different_hidden_set_and_count() {
    for n in [3usize, 4] {
        for hidden in subsets(n) {
            let h = honest(n, &hidden);
            // every other subset, with the revealed list as it is
            for other in subsets(n) {
                if other != hidden {
                    assert!(refuses(|| ver(&h.p, &h.pk, &h.bases, &h.cpk, &h.rev, &other, n)), "hidden {hidden:?} verified as {other:?}");
                }
            }
            // odd shapes of the list
            let mut shapes: Vec<Vec<usize>> = Vec::new();
            let mut r = hidden.clone();
            r.reverse();
            if r != hidden {
                shapes.push(r);
            }
            if let Some(&x) = hidden.first() {
                let mut d = hidden.clone();
                d.insert(0, x);
                shapes.push(d);
                let mut d = hidden.clone();
                d.push(*hidden.last().unwrap());
                shapes.push(d);
            }
            let mut d = hidden.clone();
            d.push(n);
            shapes.push(d);
            let mut d = hidden.clone();
            d.push(usize::MAX);
            shapes.push(d);
            for s in shapes {
                assert!(refuses(|| ver(&h.p, &h.pk, &h.bases, &h.cpk, &h.rev, &s, n)), "hidden {hidden:?} verified as {s:?}");
            }
            // attribute count
            for n2 in [0usize, n - 1, n + 1, n + 2, 255, 256, 65535, usize::MAX] {
                assert!(refuses(|| ver(&h.p, &h.pk, &h.bases, &h.cpk, &h.rev, &h.hidden, n2)), "n={n} verified as {n2}");
                // with the long key material, so that no index can run out
                let f = fx();
                assert!(refuses(|| ver(&h.p, &f.pk, &f.bases, &f.cpk, &h.rev, &h.hidden, n2)), "n={n} verified as {n2} (5 bases)");
            }
        }
    }
}

#[test]
fn s06_proofs_do_not_transfer_between_signatures_and_statements() {
    // proof of a signature on other attributes, same hidden set
    let h = honest(3, &[1]);
    let mut m2 = h.m.clone();
    m2[0].value += 1;
    let sig2 = sign(&m2);
    let p2 = gen(&sig2, &m2, &[1]);
    assert!(refuses(|| ver(&p2, &h.pk, &h.bases, &h.cpk, &h.rev, &h.hidden, 3)));
    // the hidden attribute differs, the revealed ones agree: both verify, for their own signature
    let mut m3 = h.m.clone();
    m3[1].value += 1;
    let sig3 = sign(&m3);
    let p3 = gen(&sig3, &m3, &[1]);
    assert!(ver(&p3, &h.pk, &h.bases, &h.cpk, &h.rev, &h.hidden, 3));
    // prover given attributes the signature is not about (hidden position): the proof must not verify
    let sig = sign(&h.m);
    let p4 = gen(&sig, &m3, &[1]);
    assert!(refuses(|| ver(&p4, &h.pk, &h.bases, &h.cpk, &h.rev, &h.hidden, 3)), "proof from a signature on other attributes accepted");
    // prover given a signature altered in e / s / v
    let sv = serde_json::to_value(&sig).unwrap();
    for f in ["e", "s", "v"] {
        for d in [1, -1] {
            let mut v = sv.clone();
            let x = vi(&v["CL03"][f]) + d;
            v["CL03"][f] = iv(&x);
            let bad: Sig = serde_json::from_value(v).unwrap();
            // e - 1 may leave the range of the range proof: the prover may then panic, which is a refusal too
            let r = catch_unwind(AssertUnwindSafe(|| gen(&bad, &h.m, &[1])));
            if let Ok(p) = r {
                assert!(refuses(|| ver(&p, &h.pk, &h.bases, &h.cpk, &h.rev, &h.hidden, 3)), "signature.{f}{d:+} gave an accepted proof");
            }
        }
    }
    // parts of two proofs of the same signature and statement mixed: spok of one, range proof on e of the other
    let pa = serde_json::to_value(&gen(&sig, &h.m, &[1])).unwrap();
    let pb = serde_json::to_value(&gen(&sig, &h.m, &[1])).unwrap();
    for part in ["spok", "range_proof_e"] {
        let mut v = pa.clone();
        v["CL03"][part] = pb["CL03"][part].clone();
        let p = decode(&v).unwrap();
        assert!(refuses(|| ver(&p, &h.pk, &h.bases, &h.cpk, &h.rev, &h.hidden, 3)), "mixed {part} accepted");
    }
    // inside the range proof on e: the two halves of the tolerance proof exchanged, parts taken from the other proof
    for (x, y) in [("proof_of_square_a", "proof_of_square_b"), ("proof_large_i_a", "proof_large_i_b"), ("E_a_1", "E_b_1"), ("E_a_2", "E_b_2")] {
        let mut v = pa.clone();
        let t = &mut v["CL03"]["range_proof_e"]["proof_of_tolerance"];
        let a = t[x].clone();
        t[x] = t[y].clone();
        t[y] = a;
        let p = decode(&v).unwrap();
        assert!(refuses(|| ver(&p, &h.pk, &h.bases, &h.cpk, &h.rev, &h.hidden, 3)), "{x}<->{y} accepted");
        let mut v = pa.clone();
        v["CL03"]["range_proof_e"]["proof_of_tolerance"][x] = pb["CL03"]["range_proof_e"]["proof_of_tolerance"][x].clone();
        let p = decode(&v).unwrap();
        assert!(refuses(|| ver(&p, &h.pk, &h.bases, &h.cpk, &h.rev, &h.hidden, 3)), "{x} of another proof accepted");
    }
    // the range proof of the hidden attribute in place of the one on e, and the other way round
    let mut v = pa.clone();
    v["CL03"]["range_proof_e"] = pa["CL03"]["range_proofs_commited_mi"][0].clone();
    assert!(refuses(|| ver(&decode(&v).unwrap(), &h.pk, &h.bases, &h.cpk, &h.rev, &h.hidden, 3)));
    let mut v = pa.clone();
    v["CL03"]["range_proofs_commited_mi"][0] = pa["CL03"]["range_proof_e"].clone();
    assert!(refuses(|| ver(&decode(&v).unwrap(), &h.pk, &h.bases, &h.cpk, &h.rev, &h.hidden, 3)));
}

// ================================================================================================
// NO FIELD OF THE PROOF CAN BE ALTERED
// ================================================================================================

fn perturb_all(n: usize, hidden: &[usize]) {
    let h = honest(n, hidden);
    let base = serde_json::to_value(&h.p).unwrap();
    let mut paths = Vec::new();
    int_paths(&base, String::new(), &mut paths);
    // the `randomness` members are known to be unread: not looked at again here
    let paths: Vec<String> = paths.into_iter().filter(|p| !p.ends_with("/randomness")).collect();
    assert!(paths.len() >= 30);
    let nmod = h.pk.N.clone();
    let mut accepted: Vec<String> = Vec::new();
    for p in &paths {
        let orig = vi(base.pointer(p).unwrap());
        let mut alts = vec![
            ("+1", orig.clone() + Integer::from(1)),
            ("-1", orig.clone() - Integer::from(1)),
            ("+N", orig.clone() + &nmod),
            ("-N", orig.clone() - &nmod),
            ("neg", -orig.clone()),
            ("*2", orig.clone() * 2),
        ];
        if orig != 0 {
            alts.push(("zero", Integer::from(0)));
        }
        for (what, x) in alts {
            if x == orig {
                continue;
            }
            let mut v = base.clone();
            *v.pointer_mut(p).unwrap() = iv(&x);
            match decode(&v) {
                None => {}
                Some(q) => {
                    assert_ne!(q, h.p);
                    if !refuses(|| ver(&q, &h.pk, &h.bases, &h.cpk, &h.rev, &h.hidden, h.n)) {
                        accepted.push(format!("{p} {what}"));
                    }
                }
            }
        }
    }
    // swaps of neighbouring integers
    for w in paths.windows(2) {
        let (a, b) = (vi(base.pointer(&w[0]).unwrap()), vi(base.pointer(&w[1]).unwrap()));
        if a == b {
            continue;
        }
        let mut v = base.clone();
        *v.pointer_mut(&w[0]).unwrap() = iv(&b);
        *v.pointer_mut(&w[1]).unwrap() = iv(&a);
        if let Some(q) = decode(&v) {
            if !refuses(|| ver(&q, &h.pk, &h.bases, &h.cpk, &h.rev, &h.hidden, h.n)) {
                accepted.push(format!("{} <-> {}", w[0], w[1]));
            }
        }
    }
    assert!(accepted.is_empty(), "altered proofs accepted (n={n}, hidden={hidden:?}): {accepted:?}");
}

#[test]
fn f01_every_integer_perturbed_no_hidden() {
    perturb_all(2, &[]);
}

#[test]
fn f02_every_integer_perturbed_some_hidden() {
    perturb_all(3, &[0, 2]);
}

#[test]
fn f03_every_integer_perturbed_all_hidden() {
    perturb_all(1, &[0]);
}

#[test]
fn f04_list_shapes_of_the_proof() {
    let h = honest(3, &[0, 2]);
    let base = serde_json::to_value(&h.p).unwrap();
    let lists = ["/CL03/spok/s_5", "/CL03/proofs_commited_mi", "/CL03/range_proofs_commited_mi"];
    for l in lists {
        let arr = base.pointer(l).unwrap().as_array().unwrap().clone();
        let mut shapes: Vec<Vec<Value>> = Vec::new();
        shapes.push(vec![]);
        shapes.push(arr[..1].to_vec());
        shapes.push(arr[1..].to_vec());
        shapes.push(vec![arr[1].clone(), arr[0].clone()]);
        shapes.push(vec![arr[0].clone(), arr[0].clone()]);
        let mut longer = arr.clone();
        longer.push(arr[1].clone());
        shapes.push(longer);
        for s in shapes {
            // exchanging the two sub-proofs of hidden attributes among themselves is part of a known finding (sub-proofs not linked)
            if l != "/CL03/spok/s_5" && s.len() == 2 {
                continue;
            }
            let mut v = base.clone();
            *v.pointer_mut(l).unwrap() = Value::Array(s.clone());
            if let Some(q) = decode(&v) {
                assert!(refuses(|| ver(&q, &h.pk, &h.bases, &h.cpk, &h.rev, &h.hidden, h.n)), "{l} with {} entries accepted", s.len());
            }
        }
    }
    // another variant of the enum, a missing member
    let mut v = base.clone();
    let inner = v["CL03"].take();
    assert!(serde_json::from_value::<PoK>(json!({"_Unreachable": null})).is_err());
    assert!(serde_json::from_value::<PoK>(json!({"BBSplus": inner})).is_err());
    let mut v = base.clone();
    v["CL03"]["spok"].as_object_mut().unwrap().remove("s_9");
    assert!(decode(&v).is_none());
}

#[test]
fn f05_reencoding_of_the_json_is_the_same_proof() {
    // another radix / leading zeros / upper case in the JSON of an integer decode to the very same proof value: not an alteration of the proof
    let h = honest(2, &[1]);
    let base = serde_json::to_value(&h.p).unwrap();
    let x = vi(&base["CL03"]["spok"]["s_1"]);
    let mut v = base.clone();
    v["CL03"]["spok"]["s_1"] = json!({"radix": 10, "value": format!("000{}", x.to_string_radix(10))});
    let q = decode(&v).unwrap();
    assert_eq!(q, h.p);
    assert!(ver(&q, &h.pk, &h.bases, &h.cpk, &h.rev, &h.hidden, h.n));
}

// ================================================================================================
// ZERO-VALUED REVEALED ATTRIBUTE: its bases do not matter (same root as the known "n + 1 attributes with a zero attribute")
// ================================================================================================

#[test]
#[ignore = "fails, but it is one more instance of the KNOWN finding (the challenge does not hash the statement): run with --ignored"]
fn z01_base_of_a_zero_valued_revealed_attribute() {
    let mut m = msgs(3);
    m[1].value = Integer::from(0);
    let sig = sign(&m);
    let (pk, bases, cpk) = stmt(3);
    let p = gen(&sig, &m, &[0]);
    let rev = revealed(&m, &[0]);
    assert!(ver(&p, &pk, &bases, &cpk, &rev, &[0], 3));
    let mut b2 = bases.clone();
    b2.0[1] = fx().bases.0[4].clone();
    assert!(refuses(|| ver(&p, &pk, &b2, &cpk, &rev, &[0], 3)), "different base a[1] accepted");
}

#[test]
#[ignore = "fails, but it is one more instance of the KNOWN finding (the challenge does not hash the statement): run with --ignored"]
fn z02_commitment_base_of_a_zero_valued_revealed_attribute() {
    let mut m = msgs(3);
    m[1].value = Integer::from(0);
    let sig = sign(&m);
    let (pk, bases, cpk) = stmt(3);
    let p = gen(&sig, &m, &[0]);
    let rev = revealed(&m, &[0]);
    assert!(ver(&p, &pk, &bases, &cpk, &rev, &[0], 3));
    let mut c2 = cpk.clone();
    c2.g_bases[1] = fx().cpk.g_bases[4].clone();
    assert!(refuses(|| ver(&p, &pk, &bases, &c2, &rev, &[0], 3)), "different commitment base g[1] accepted");
}

// ================================================================================================
// FORGERY: a proof made WITHOUT any signature and without the secret key
// ================================================================================================
// The only thing that keeps the prover from using the "signature" (e = 1, s, v = prod a_i^m_i * b^s * c), which anybody can compute
// for any attributes, is the range proof on e. The verifier of the range proof bounds the response D_1 of the two
// "larger interval" proofs by 2^T * (2^(t+l) * b - 1), b being the upper end of the range: the second part of the decomposition
// x' - aa = x1^2 + x2 may therefore be any x2 with |x2| < about 2^(T+l) * b, negative ones included, and the committed value may be
// any integer of [a - 2^(l-1) * b, b + 2^(l-1) * b] instead of [a, b]: e = 1 passes as a member of [2^257 + 1, 2^258 - 1].

fn h_commas(vals: &[&Integer]) -> Integer {
    sha_int(&vals.iter().map(|v| v.to_string()).collect::<Vec<_>>().join(","))
}

fn h_concat(vals: &[&Integer]) -> Integer {
    sha_int(&vals.iter().map(|v| v.to_string()).collect::<Vec<_>>().join(""))
}

fn mulm(xs: &[Integer], n: &Integer) -> Integer {
    let mut acc = Integer::from(1);
    for x in xs {
        acc = acc * x % n;
    }
    if acc < 0 {
        acc += n;
    }
    acc
}

/// Boudot range proof for E = g^x h^r mod n and the range [a, b], by a prover that does not care whether x is in the range
fn my_range_proof(tag: &str, x: &Integer, r: &Integer, g: &Integer, h: &Integer, n: &Integer, a: &Integer, b: &Integer) -> Value {
    let (t, l) = (128u32, 40u32);
    let big_t = 2 * (t + l + 1) + (b - a).complete().significant_bits();
    let two_t = Integer::from(2).pow(big_t);
    let e0 = mulm(&[pm(g, x, n), pm(h, r, n)], n);
    let e_prime = pm(&e0, &two_t, n);
    let xp = (&two_t * x).complete();
    let rp = (&two_t * r).complete();
    let theta = Integer::from(2).pow(l + t + big_t / 2 + 1) * (b - a).complete().sqrt();
    let aa = (&two_t * a).complete() - &theta;
    let bb = (&two_t * b).complete() + &theta;
    let x_a = (&xp - &aa).complete();
    let x_b = (&bb - &xp).complete();
    let dec = |v: &Integer| -> (Integer, Integer) {
        if *v >= 0 {
            let s = v.clone().sqrt();
            let rest = v - (&s * &s).complete();
            (s, rest)
        } else {
            (Integer::from(0), v.clone())
        }
    };
    let (x_a_1, x_a_2) = dec(&x_a);
    let (x_b_1, x_b_2) = dec(&x_b);
    let r_a_1 = det(&format!("{tag} r_a_1"), 1000);
    let r_a_2 = (&rp - &r_a_1).complete();
    let r_b_1 = det(&format!("{tag} r_b_1"), 1000);
    let r_b_2 = -rp.clone() - &r_b_1;
    let com = |v: &Integer, rr: &Integer| mulm(&[pm(g, v, n), pm(h, rr, n)], n);
    let e_a_1 = com(&(&x_a_1 * &x_a_1).complete(), &r_a_1);
    let e_a_2 = com(&x_a_2, &r_a_2);
    let e_b_1 = com(&(&x_b_1 * &x_b_1).complete(), &r_b_1);
    let e_b_2 = com(&x_b_2, &r_b_2);

    let square = |lab: &str, x1: &Integer, r1: &Integer, e1: &Integer| -> Value {
        let r2 = det(&format!("{tag} {lab} r2"), 1000);
        let f = com(x1, &r2);
        let r3 = r1 - (&r2 * x1).complete();
        let omega = det(&format!("{tag} {lab} omega"), 900);
        let mu1 = det(&format!("{tag} {lab} mu1"), 1300);
        let mu2 = det(&format!("{tag} {lab} mu2"), 1900);
        let w1 = mulm(&[pm(g, &omega, n), pm(h, &mu1, n)], n);
        let w2 = mulm(&[pm(&f, &omega, n), pm(h, &mu2, n)], n);
        let c = h_commas(&[&w1, &w2, &f, e1, g, h, &f, h, n]);
        let d = omega + (&c * x1).complete();
        let d1 = mu1 + (&c * &r2).complete();
        let d2 = mu2 + (&c * &r3).complete();
        json!({"E": iv(e1), "F": iv(&f), "proof_ss": {"challenge": iv(&c), "d": iv(&d), "d_1": iv(&d1), "d_2": iv(&d2)}})
    };
    let large = |lab: &str, x2: &Integer, r2: &Integer, e2: &Integer| -> Value {
        // the mask sits in the middle of the interval the verifier allows for D_1
        let top = two_t.clone() * (Integer::from(2).pow(t + l) * b - Integer::from(1));
        let w = top.clone() / 2;
        let nu = det(&format!("{tag} {lab} nu"), 1900);
        let omega = mulm(&[pm(g, &w, n), pm(h, &nu, n)], n);
        let cc = h_commas(&[&omega, e2, &e0, g, h, n, b, &Integer::from(big_t)]);
        let c = cc.clone().keep_bits(t);
        let d1 = w + (x2 * &c).complete();
        let d2 = nu + (r2 * &c).complete();
        assert!((&c * b).complete() <= d1 && d1 <= top, "forger: D_1 inside the verifier's interval");
        json!({"C": iv(&cc), "D_1": iv(&d1), "D_2": iv(&d2)})
    };
    json!({
        "proof_of_tolerance": {
            "E_a_1": iv(&e_a_1), "E_a_2": iv(&e_a_2), "E_b_1": iv(&e_b_1), "E_b_2": iv(&e_b_2),
            "proof_of_square_a": square("sqa", &x_a_1, &r_a_1, &e_a_1),
            "proof_of_square_b": square("sqb", &x_b_1, &r_b_1, &e_b_1),
            "proof_large_i_a": large("lia", &x_a_2, &r_a_2, &e_a_2),
            "proof_large_i_b": large("lib", &x_b_2, &r_b_2, &e_b_2),
        },
        "E_prime": iv(&e_prime),
        "E": iv(&e0),
    })
}

/// The nine-response proof and its companions, computed from (e, s, v) by a re-implementation of the prover that only uses public data
fn my_pok(tag: &str, e: &Integer, s: &Integer, v: &Integer, m: &[CL03Message], hidden: &[usize], pk: &CL03PublicKey, bases: &Bases, cpk: &CL03CommitmentPublicKey) -> Value {
    let n = &pk.N;
    let nattr = m.len();
    let g0 = &cpk.g_bases[0];
    let hh = &cpk.h;
    let inv = |x: &Integer| x.clone().invert(n).unwrap();
    let r = |lab: &str| det(&format!("{tag} {lab}"), 1024);
    let (rx, w, rw, re) = (r("rx"), r("w"), r("rw"), r("re"));
    let mut cx_parts: Vec<Integer> = (0..nattr).map(|i| pm(&cpk.g_bases[i], &m[i].value, n)).collect();
    cx_parts.push(pm(hh, &rx, n));
    let cx = mulm(&cx_parts, n);
    let cv = mulm(&[v.clone(), pm(g0, &w, n)], n);
    let cw = mulm(&[pm(g0, &w, n), pm(hh, &rw, n)], n);
    let ce = mulm(&[pm(g0, e, n), pm(hh, &re, n)], n);
    let (r1, r2, r3, r4, r6, r7, r8, r9) = (r("r1"), r("r2"), r("r3"), r("r4"), r("r6"), r("r7"), r("r8"), r("r9"));
    let r5: Vec<Integer> = (0..nattr).map(|i| if hidden.contains(&i) { r(&format!("r5 {i}")) } else { m[i].value.clone() }).collect();
    let t_cx = mulm(&(0..nattr).map(|i| pm(&bases.0[i], &r5[i], n)).collect::<Vec<_>>(), n);
    let t1 = mulm(&[pm(&cv, &r4, n), inv(&t_cx), pm(&inv(&pk.b), &r6, n), pm(&inv(g0), &r8, n)], n);
    let t2 = mulm(&[pm(g0, &r7, n), pm(hh, &r1, n)], n);
    let t3 = mulm(&[pm(&cw, &r4, n), pm(&inv(g0), &r8, n), pm(&inv(hh), &r2, n)], n);
    let mut t4_parts: Vec<Integer> = (0..nattr).map(|i| pm(&cpk.g_bases[i], &r5[i], n)).collect();
    t4_parts.push(pm(hh, &r3, n));
    let t4 = mulm(&t4_parts, n);
    let t5 = mulm(&[pm(g0, &r4, n), pm(hh, &r9, n)], n);
    let c = h_concat(&[&t1, &t2, &t3, &t4, &t5]);
    let s1 = r1 + (&rw * &c).complete();
    let s2 = r2 + (&rw * e).complete() * &c;
    let s3 = r3 + (&rx * &c).complete();
    let s4 = r4 + (e * &c).complete();
    let s5: Vec<Value> = hidden.iter().map(|&i| iv(&(r5[i].clone() + (&m[i].value * &c).complete()))).collect();
    let s6 = r6 + (s * &c).complete();
    let s7 = r7 + (&w * &c).complete();
    let s8 = r8 + (&w * e).complete() * &c;
    let s9 = r9 + (&re * &c).complete();
    let zero = iv(&Integer::from(0));
    let comm = |x: &Integer| json!({"value": iv(x), "randomness": zero.clone()});

    let min_e = Integer::from(2).pow(LE - 1) + Integer::from(1);
    let max_e = Integer::from(2).pow(LE) - Integer::from(1);
    let rp_e = my_range_proof(&format!("{tag} rp_e"), e, &re, g0, hh, &cpk.N, &min_e, &max_e);
    assert_eq!(vi(&rp_e["E"]), ce);

    let mut pov = Vec::new();
    let mut rps = Vec::new();
    for &i in hidden {
        let gi = &cpk.g_bases[i];
        let ri = r(&format!("ri {i}"));
        let cmi = mulm(&[pm(gi, &m[i].value, n), pm(hh, &ri, n)], n);
        let (k1, k2) = (r(&format!("k1 {i}")), r(&format!("k2 {i}")));
        let t = mulm(&[pm(gi, &k1, n), pm(hh, &k2, n)], n);
        let ch = h_concat(&[gi, hh, &cmi, &t]);
        let z1 = k1 + (&ch * &m[i].value).complete();
        let z2 = k2 + (&ch * &ri).complete();
        pov.push(json!({"value": {"t": iv(&t), "s1": iv(&z1), "s2": iv(&z2)}, "commitment": comm(&cmi)}));
        rps.push(my_range_proof(&format!("{tag} rp_m{i}"), &m[i].value, &ri, gi, hh, &cpk.N, &Integer::from(0), &(Integer::from(2).pow(LM) - Integer::from(1))));
    }

    json!({"CL03": {
        "spok": {
            "challenge": iv(&c), "s_1": iv(&s1), "s_2": iv(&s2), "s_3": iv(&s3), "s_4": iv(&s4), "s_5": s5,
            "s_6": iv(&s6), "s_7": iv(&s7), "s_8": iv(&s8), "s_9": iv(&s9),
            "Cx": comm(&cx), "Cv": comm(&cv), "Cw": comm(&cw), "Ce": comm(&ce),
        },
        "range_proof_e": rp_e,
        "proofs_commited_mi": pov,
        "range_proofs_commited_mi": rps,
    }})
}

#[test]
fn x00_reimplemented_prover_agrees_with_the_library() {
    // sanity of the re-implementation: with a real signature its proofs verify
    let m = msgs(3);
    let sig = sign(&m);
    let (pk, bases, cpk) = stmt(3);
    let sv = serde_json::to_value(&sig).unwrap();
    let (e, s, v) = (vi(&sv["CL03"]["e"]), vi(&sv["CL03"]["s"]), vi(&sv["CL03"]["v"]));
    for hidden in [vec![], vec![1usize], vec![0, 1, 2]] {
        let p = decode(&my_pok("sanity", &e, &s, &v, &m, &hidden, &pk, &bases, &cpk)).unwrap();
        assert!(ver(&p, &pk, &bases, &cpk, &revealed(&m, &hidden), &hidden, 3), "hidden={hidden:?}");
    }
}

#[test]
fn x01_forged_proof_for_attributes_nobody_signed() {
    // public data only: the signer key, the bases, the verifier's commitment key. The secret key is not touched.
    let (pk, bases, cpk) = stmt(3);
    let claimed: Vec<CL03Message> = ["forged attribute A", "forged attribute B", "forged attribute C"]
        .iter()
        .map(|x| CL03Message::map_message_to_integer_as_hash::<CS>(x.as_bytes()))
        .collect();
    let n = &pk.N;
    let e = Integer::from(1);
    let s = det("forged s", 1536);
    let mut parts: Vec<Integer> = (0..3).map(|i| pm(&bases.0[i], &claimed[i].value, n)).collect();
    parts.push(pm(&pk.b, &s, n));
    parts.push(pk.c.clone());
    let v = mulm(&parts, n);
    // this is no signature for the library
    let fake: Sig = serde_json::from_value(json!({"CL03": {"e": iv(&e), "s": iv(&s), "v": iv(&v)}})).unwrap();
    assert!(!fake.verify_multiattr(&pk, &bases, &claimed));

    let mut accepted = Vec::new();
    for hidden in [vec![], vec![1usize], vec![0, 2], vec![0, 1, 2]] {
        let p = decode(&my_pok("forgery", &e, &s, &v, &claimed, &hidden, &pk, &bases, &cpk)).unwrap();
        let rev = revealed(&claimed, &hidden);
        if !refuses(|| ver(&p, &pk, &bases, &cpk, &rev, &hidden, 3)) {
            accepted.push(hidden);
        }
    }
    assert!(accepted.is_empty(), "proofs of knowledge made without any signature (e = 1) are accepted, for the hidden sets {accepted:?}");
}

#[test]
fn x02_honest_proof_does_not_verify_for_other_revealed_attributes_but_a_forged_one_does() {
    // the clause "does not verify with different revealed attributes", seen from the holder of ONE real signature:
    // a proof that verifies for revealed attributes which differ from the signed ones
    let m = msgs(2);
    let _sig = sign(&m);
    let (pk, bases, cpk) = stmt(2);
    let mut other = m.clone();
    other[0].value = Integer::from(18); // e.g. an age the issuer never certified
    let n = &pk.N;
    let s = det("forged s 2", 1536);
    let v = mulm(&[pm(&bases.0[0], &other[0].value, n), pm(&bases.0[1], &other[1].value, n), pm(&pk.b, &s, n), pk.c.clone()], n);
    let p = decode(&my_pok("forgery 2", &Integer::from(1), &s, &v, &other, &[1], &pk, &bases, &cpk)).unwrap();
    assert!(refuses(|| ver(&p, &pk, &bases, &cpk, &other[0..1], &[1], 2)), "revealed attribute 18 accepted although never signed");
}

#[test]
fn x03_the_library_prover_itself_refuses_e_outside_the_range() {
    // sibling behaviour: verify_multiattr and the honest prover both refuse e = 1 (the prover by a panic in the range proof)
    let (pk, bases, cpk) = stmt(1);
    let m = msgs(1);
    let n = &pk.N;
    let s = det("s3", 1536);
    let v = mulm(&[pm(&bases.0[0], &m[0].value, n), pm(&pk.b, &s, n), pk.c.clone()], n);
    let fake: Sig = serde_json::from_value(json!({"CL03": {"e": iv(&Integer::from(1)), "s": iv(&s), "v": iv(&v)}})).unwrap();
    assert!(!fake.verify_multiattr(&pk, &bases, &m));
    let r = catch_unwind(AssertUnwindSafe(|| PoK::proof_gen(fake.cl03Signature(), &cpk, &pk, &bases, &m, &[])));
    match r {
        Err(_) => {}
        Ok(p) => assert!(refuses(|| ver(&p, &pk, &bases, &cpk, &m, &[], 1))),
    }
}


#[test]
fn x04_range_proof_alone_accepts_values_far_outside_the_range() {
    // the root of x01, on the public range proof API: commitments to 1, to a - 1, to b + 1, to 0, to a negative value and to 2^l * b / 4
    // are accepted as members of [a, b] = [2^257 + 1, 2^258 - 1]
    use zkryptium::cl03::range_proof::Boudot2000RangeProof;
    let (_, _, cpk) = stmt(1);
    let (g, h, n) = (&cpk.g_bases[0], &cpk.h, &cpk.N);
    let a = Integer::from(2).pow(LE - 1) + Integer::from(1);
    let b = Integer::from(2).pow(LE) - Integer::from(1);
    let r = det("x04 r", 1024);
    // in the range: accepted
    let inside = a.clone() + Integer::from(12345);
    let rp: Boudot2000RangeProof = serde_json::from_value(my_range_proof("x04 in", &inside, &r, g, h, n, &a, &b)).unwrap();
    assert!(rp.verify::<Sha256>(g, h, n, &a, &b));
    let mut accepted = Vec::new();
    for (what, x) in [
        ("1", Integer::from(1)),
        ("a-1", a.clone() - Integer::from(1)),
        ("b+1", b.clone() + Integer::from(1)),
        ("0", Integer::from(0)),
        ("-(2^200)", -Integer::from(2).pow(200)),
        ("2^38*b", Integer::from(2).pow(38) * &b),
    ] {
        let rp: Boudot2000RangeProof = serde_json::from_value(my_range_proof(&format!("x04 {what}"), &x, &r, g, h, n, &a, &b)).unwrap();
        if !refuses(|| rp.verify::<Sha256>(g, h, n, &a, &b)) {
            accepted.push(what);
        }
    }
    assert!(accepted.is_empty(), "range proof for [2^257+1, 2^258-1] accepted commitments to: {accepted:?}");
}

#[test]
fn c05_complete_more_attributes_than_five() {
    let f = fx();
    let n = 12usize;
    let bases = Bases::generate(&f.pk, n);
    let cpk = CL03CommitmentPublicKey::generate::<CS>(Some(f.pk.N.clone()), Some(n));
    let m = msgs(n);
    let sig = Sig::sign_multiattr(&f.pk, &f.sk, &bases, &m);
    assert!(sig.verify_multiattr(&f.pk, &bases, &m));
    for hidden in [vec![], vec![0], vec![11], vec![0, 11], vec![3, 4, 5, 9], (0..12).collect::<Vec<_>>(), (1..12).collect::<Vec<_>>()] {
        let p = PoK::proof_gen(sig.cl03Signature(), &cpk, &f.pk, &bases, &m, &hidden);
        let rev = revealed(&m, &hidden);
        assert!(p.proof_verify(&cpk, &f.pk, &bases, &rev, &hidden, n), "n=12 hidden={hidden:?}");
        // and bound to the revealed attributes / hidden set there too
        if let Some(last) = rev.len().checked_sub(1) {
            let mut r2 = rev.clone();
            r2[last].value += 1;
            assert!(refuses(|| p.proof_verify(&cpk, &f.pk, &bases, &r2, &hidden, n)));
        }
    }
}

#[test]
fn p01_commitment_key_over_another_modulus() {
    // outside the quantifier of the statement (commitment keys over the issuer modulus): documented only. The prover's output for a
    // commitment key with a modulus of its own is not accepted (no completeness there), and an honest proof is not accepted when the
    // verifier is handed such a key.
    let h = honest(2, &[1]);
    let other = CL03CommitmentPublicKey::generate::<CS>(None, Some(2));
    assert_ne!(other.N, h.pk.N);
    assert!(refuses(|| ver(&h.p, &h.pk, &h.bases, &other, &h.rev, &h.hidden, 2)));
    let sig = sign(&h.m);
    let r = catch_unwind(AssertUnwindSafe(|| PoK::proof_gen(sig.cl03Signature(), &other, &h.pk, &h.bases, &h.m, &[1])));
    if let Ok(p) = r {
        let ok = !refuses(|| ver(&p, &h.pk, &h.bases, &other, &h.rev, &h.hidden, 2));
        println!("p01: proof made for a commitment key over another modulus verifies: {ok}");
    }
}

// ================================================================================================
// The ciphersuite is a type parameter of the verifier only (le, lm and the hash agree in the three suites): informational
// ================================================================================================

#[test]
fn i01_same_artefacts_under_the_cl2048_type() {
    // nothing in the statement names the ciphersuite; the test only documents that the 1024-bit artefacts are read alike by the
    // CL2048 instantiation and still bound to their statement there
    let h = honest(2, &[0]);
    let p2: PoKSignature<CL03<CL2048Sha256>> = serde_json::from_value(serde_json::to_value(&h.p).unwrap()).unwrap();
    let ok = p2.proof_verify(&h.cpk, &h.pk, &h.bases, &h.rev, &h.hidden, 2);
    println!("i01: CL1024 proof under the CL2048 verifier type: {ok}");
    let mut rev = h.rev.clone();
    rev[0].value += 1;
    assert!(refuses(|| p2.proof_verify(&h.cpk, &h.pk, &h.bases, &rev, &h.hidden, 2)));
}

#[test]
fn i02_the_serialised_randomness_members_open_the_commitments() {
    // informational (privacy is not a clause of C15; the members themselves are a known finding): with Cv.randomness the signature
    // value v is recovered from a proof, so two proofs of one signature are linkable
    let h = honest(2, &[0, 1]);
    let sig = sign(&h.m);
    let p = gen(&sig, &h.m, &[0, 1]);
    let v = serde_json::to_value(&p).unwrap();
    let cv = vi(&v["CL03"]["spok"]["Cv"]["value"]);
    let w = vi(&v["CL03"]["spok"]["Cv"]["randomness"]);
    let n = &h.pk.N;
    let rec = mulm(&[cv, pm(&h.cpk.g_bases[0], &w, n).invert(n).unwrap()], n);
    let real = vi(&serde_json::to_value(&sig).unwrap()["CL03"]["v"]);
    println!("i02: v recovered from the proof: {}", rec == real);
}
