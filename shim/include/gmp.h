/* shim: system GMP is 6.2.1; gmp-mpfr-sys' build probe wants >= 6.3.0.  Only rustc's front end
   (type checking -> MIR) is used by the verification; nothing is linked or run. */
#include_next <gmp.h>
#undef __GNU_MP_VERSION_MINOR
#define __GNU_MP_VERSION_MINOR 3
#undef __GNU_MP_VERSION_PATCHLEVEL
#define __GNU_MP_VERSION_PATCHLEVEL 0
