"""Small helpers to express tabled requirements against atom sets."""
from dep import strip, DEPTH
from framework import AnchorMissing


def parse_req(body, spec):
    """spec strings:
         name[.field[.field]]     parameter (by debug name) and field path
         len(name...)             the length of that parameter / field
         a:NAME                   associated / named constant whose def path ends in ::NAME
         c:TEXT                   literal constant with that display text
         o:SUFFIX                 origin call whose callee ends with SUFFIX
    returns a matcher description (kind, payload)."""
    s = spec.strip()
    if s.startswith('len(') and s.endswith(')'):
        inner = parse_req(body, s[4:-1])
        return ('len', inner)
    if s.startswith('a:'):
        return ('a', s[2:])
    if s.startswith('c:'):
        return ('c', s[2:])
    if s.startswith('o:'):
        return ('o', s[2:])
    parts = s.split('.')
    k = body.param_index(parts[0])
    if k is None and len(parts) > 1:
        # `name.field` where the parameter was renamed (a helper turned into a method: `init_res.Abar` is now `self.Abar`): the one
        # parameter whose type is a struct of this crate with a field of that name
        owners = []
        for j in range(1, body.arg_count + 1):
            ty = body.local_ty(j).replace('&mut ', '').lstrip('&').strip()
            adt = body.prog.adts.get(ty) if getattr(body, 'prog', None) is not None else None
            if adt and any(f['name'] == parts[1] for v in adt['variants'] for f in v['fields']):
                owners.append(j)
        if len(owners) == 1:
            k = owners[0]
    if k is None:
        raise AnchorMissing('function %s has no parameter named %r' % (body.path, parts[0]))
    return ('p', k, tuple(parts[1:]))


def atom_matches(a, req):
    kind = req[0]
    if kind == 'len':
        if a[0] != 'len':
            return False
        return atom_matches(a[1], req[1])
    if a[0] in ('len', 'narrow'):
        # a narrowed / length atom does not satisfy a content requirement
        return False
    if kind == 'p':
        if a[0] != 'p' or a[1] != req[1]:
            return False
        q, path = a[2], req[2]
        # whole-value dependence covers a field; a recorded sub-field covers the whole-value requirement
        if q == path[:len(q)] or path == q[:len(path)]:
            return True
        # field name anywhere in the recorded path (wrapper levels differ between enum/struct views)
        if bool(path) and all(f in q for f in path):
            return True
        # the same comparison with the positional levels (enum payloads, tuple members) left out: a whole-value dependence recorded under a
        # wrapper level (`self.0.list`) covers a field of it (`self.list.commitment.value`)
        q2, p2 = tuple(x for x in q if not str(x).isdigit()), tuple(x for x in path if not str(x).isdigit())
        return bool(q2) and bool(p2) and (q2 == p2[:len(q2)] or p2 == q2[:len(p2)])
    if kind == 'a':
        return a[0] == 'a' and (a[1] == req[1] or a[1].endswith('::' + req[1]))
    if kind == 'c':
        return a[0] == 'c' and a[1] == req[1]
    if kind == 'o':
        return a[0] == 'o' and a[1].endswith(req[1])
    return False


def has(atoms, req):
    return any(atom_matches(a, req) for a in atoms)


def has_narrow_only(atoms, req):
    """the required length is present only in narrowed form."""
    if req[0] != 'len':
        return False
    for a in atoms:
        if a[0] == 'narrow' and atom_matches(a[1], req[1]):
            return True
    return False
