"""Frozen, hand-confirmed rule instances for the BBS / Blind-BBS code (oracle: IETF drafts + today's code)."""

SIG = 'Signature<schemes::algorithms::BBSplus<CS>>>::'
BSIG = 'BlindSignature<schemes::algorithms::BBSplus<CS>>>::'
POK = 'PoKSignature<schemes::algorithms::BBSplus<CS>>>::'
COM = 'Commitment<schemes::algorithms::BBSplus<CS>>>::'
KP = 'KeyPair<schemes::algorithms::BBSplus<CS>>>::'

PROOF_FIELDS = ['Abar', 'Bbar', 'D', 'e_cap', 'r1_cap', 'r3_cap', 'm_cap', 'challenge']

# ---------------------------------------------------------------- RF-D requirements per verifier
# a per-element range validation: a comparison inside the validating loop (which may run zero times), or a quantified predicate over the
# whole list that must hold for every element (all(..) true / any(violates) false / find(violates) == None) on every path
INDEX_RANGE_ALTS = [{'gate_op': ['Gt', 'Ge', 'Lt', 'Le'], 'any_path': True},
                    {'gate_callee': ['Iterator::any', 'Iterator::all', 'Iterator::find', 'Iterator::position'], 'quantifier': 'forall'}]

VERIFY_REQS = [
    (SIG + 'verify', [
        {'id': 'pairing', 'what': 'pairing comparison depends on A, e, pk, every message, header, api id, P1',
         'gate_callee': ['PartialEq', 'is_identity'],
         'cover': ['self.A', 'self.e', 'pk', 'messages', 'header', 'a:API_ID', 'a:P1', 'a:MAP_MSG_SCALAR', 'a:H2S']},
    ]),
    (BSIG + 'verify_blind_sign', [
        {'id': 'pairing', 'what': 'pairing comparison depends on A, e, pk, signer messages, committed messages, blind factor, header, blind api id',
         'gate_callee': ['PartialEq', 'is_identity'],
         'cover': ['self.A', 'self.e', 'pk', 'messages', 'committed_messages', 'secret_prover_blind', 'header',
                   'a:API_ID_BLIND', 'c:b"BLIND_"', 'a:P1']},
    ]),
    (POK + 'proof_verify', [
        {'id': 'challenge', 'what': 'challenge equality depends on every proof field, disclosed data, header, ph, pk, api id',
         'gate_callee': ['PartialEq'],
         'cover': ['self.challenge', 'self.Abar', 'self.Bbar', 'self.D', 'self.e_cap', 'self.r1_cap', 'self.r3_cap', 'self.m_cap',
                   'pk', 'disclosed_messages', 'disclosed_indexes', 'len(disclosed_indexes)', 'header', 'ph', 'len(ph)',
                   'a:API_ID', 'a:H2S', 'a:P1']},
        {'id': 'pairing', 'what': 'pairing check depends on Abar, Bbar, pk', 'gate_callee': ['is_identity', 'PartialEq'], 'cover': ['self.Abar', 'self.Bbar', 'pk'], 'pure': ['self.Abar', 'self.Bbar', 'pk']},
        {'id': 'index-range', 'what': 'each disclosed index is compared with U + R', 'alts': INDEX_RANGE_ALTS,
         'cover': ['disclosed_indexes', 'len(self.m_cap)', 'len(disclosed_indexes)']},
        {'id': 'count', 'what': 'len(disclosed messages) == len(disclosed indexes)', 'gate_op': ['Ne', 'Eq'],
         'cover': ['len(disclosed_messages)', 'len(disclosed_indexes)']},
    ]),
    (POK + 'blind_proof_verify', [
        {'id': 'challenge', 'what': 'challenge equality depends on every proof field, both disclosed lists, L, header, ph, pk, blind api id',
         'gate_callee': ['PartialEq'],
         'cover': ['self.challenge', 'self.Abar', 'self.Bbar', 'self.D', 'self.e_cap', 'self.r1_cap', 'self.r3_cap', 'self.m_cap',
                   'pk', 'disclosed_messages', 'disclosed_committed_messages', 'disclosed_indexes', 'disclosed_commitment_indexes',
                   'L', 'header', 'ph', 'a:API_ID_BLIND', 'c:b"BLIND_"', 'a:H2S']},
        {'id': 'pairing', 'what': 'pairing check depends on Abar, Bbar, pk', 'gate_callee': ['is_identity', 'PartialEq'], 'cover': ['self.Abar', 'self.Bbar', 'pk'], 'pure': ['self.Abar', 'self.Bbar', 'pk']},
        {'id': 'index-range', 'what': 'each (translated) disclosed index is compared with U + R', 'alts': INDEX_RANGE_ALTS,
         'cover': ['disclosed_indexes', 'disclosed_commitment_indexes', 'L', 'len(self.m_cap)']},
    ]),
    (BSIG + 'blind_sign', [
        {'id': 'commit-proof', 'what': 'signing is gated by the commitment-proof challenge equality (over the commitment, its proof, the blind generators, the blind api id)',
         'gate_callee': ['PartialEq'],
         'cover': ['commitment_with_proof', 'a:API_ID_BLIND', 'c:b"BLIND_"', 'a:H2S'],
         'exempt': {'gate_callee': ['is_empty'], 'cover': ['commitment_with_proof'], 'truth': True}},
    ]),
    (COM + 'deserialize_and_validate_commit', [
        {'id': 'commit-proof', 'what': 'a non-empty commitment is returned only after the challenge equality',
         'gate_callee': ['PartialEq'],
         'cover': ['commitment_with_proof', 'blind_generators', 'api_id'],
         'exempt': {'gate_callee': ['is_empty'], 'cover': ['commitment_with_proof'], 'truth': True}},
    ]),
]

# the CtOption a checked constructor returns decides acceptance: through is_none / is_some, or through Option::from(..) + ok_or / match / ?
# (the switch is then classified as depending on the constructor call itself)
VALIDITY = ['is_none', 'is_some', '::from_be_bytes', '::from_compressed', '::from_uncompressed']

IDENT_ALTS = [{'gate_callee': ['is_identity']}, {'gate_callee': ['PartialEq'], 'const': ['IDENTITY']}]

# identity / zero exclusion (draft-08 octets_to_signature / octets_to_pubkey / octets_to_proof, ProofVerify)
IDENTITY_REQS = [
    (POK + 'proof_verify', [
        {'id': 'Abar-nonidentity', 'what': 'Abar = identity is refused on every constructor path into the verifier',
         'alts': IDENT_ALTS, 'cover': ['self.Abar'], 'pure': ['self.Abar']},
        {'id': 'Bbar-nonidentity', 'what': 'Bbar = identity is refused', 'alts': IDENT_ALTS, 'cover': ['self.Bbar'], 'pure': ['self.Bbar']},
        {'id': 'D-nonidentity', 'what': 'D = identity is refused', 'alts': IDENT_ALTS, 'cover': ['self.D'], 'pure': ['self.D']},
    ]),
    (POK + 'blind_proof_verify', [
        {'id': 'Abar-nonidentity', 'what': 'Abar = identity is refused', 'alts': IDENT_ALTS, 'cover': ['self.Abar'], 'pure': ['self.Abar']},
        {'id': 'Bbar-nonidentity', 'what': 'Bbar = identity is refused', 'alts': IDENT_ALTS, 'cover': ['self.Bbar'], 'pure': ['self.Bbar']},
        {'id': 'D-nonidentity', 'what': 'D = identity is refused', 'alts': IDENT_ALTS, 'cover': ['self.D'], 'pure': ['self.D']},
    ]),
]


# decoders: acceptance gated by the checked constructors and by identity / zero exclusion (draft-08 octets_to_*)
DECODER_REQS = [
    ('bbsplus::keys::BBSplusPublicKey::from_bytes', [
        {'id': 'point-valid', 'what': 'G2 point validity (curve, subgroup) gates acceptance', 'gate_callee': VALIDITY, 'per_item': True, 'cover': ['bytes']},
        {'id': 'pk-nonidentity', 'what': 'identity public key refused', 'alts': IDENT_ALTS, 'cover': ['bytes']},
    ]),
    ('bbsplus::keys::BBSplusPublicKey::from_coordinates', [
        {'id': 'point-valid', 'what': 'G2 point validity gates acceptance', 'gate_callee': VALIDITY, 'per_item': True, 'cover': ['x', 'y']},
        {'id': 'pk-nonidentity', 'what': 'identity public key refused', 'alts': IDENT_ALTS, 'cover': ['x', 'y']},
    ]),
    ('bbsplus::keys::BBSplusSecretKey::from_bytes', [
        {'id': 'scalar-range', 'what': 'scalar < r gates acceptance', 'gate_callee': VALIDITY, 'per_item': True, 'cover': ['bytes']},
        {'id': 'sk-nonzero', 'what': 'the zero scalar is refused as a secret key (its public key is the identity)',
         'alts': [{'gate_callee': ['is_zero']}, {'gate_callee': ['PartialEq'], 'const': ['ZERO']}], 'cover': ['bytes']},
    ]),
    ('bbsplus::signature::BBSplusSignature::from_bytes', [
        {'id': 'point-valid', 'what': 'G1 point validity gates acceptance', 'gate_callee': VALIDITY, 'per_item': True, 'cover': ['data']},
        {'id': 'A-nonidentity', 'what': 'A = identity refused', 'alts': IDENT_ALTS, 'cover': ['data']},
        {'id': 'e-nonzero', 'what': 'e = 0 refused', 'alts': [{'gate_callee': ['is_zero']}, {'gate_callee': ['PartialEq'], 'const': ['ZERO']}], 'cover': ['data']},
    ]),
    ('bbsplus::proof::BBSplusPoKSignature::from_bytes', [
        {'id': 'point-valid', 'what': 'G1 point validity gates acceptance', 'gate_callee': VALIDITY, 'per_item': True, 'cover': ['bytes']},
        {'id': 'points-nonidentity', 'what': 'identity proof points refused', 'alts': IDENT_ALTS, 'cover': ['bytes']},
        {'id': 'scalars-nonzero', 'what': 'octets_to_proof: a zero scalar is refused (which members are tested: rule_decoded_values_tested)',
         'alts': [{'gate_callee': ['is_zero']}, {'gate_callee': ['PartialEq'], 'const': ['ZERO']}], 'cover': ['bytes']},
    ]),
    ('bbsplus::proof::BBSplusZKPoK::from_bytes', [
        {'id': 'scalar-range', 'what': 'scalar < r gates acceptance', 'gate_callee': VALIDITY, 'per_item': True, 'cover': ['bytes']},
    ]),
    ('bbsplus::commitment::BBSplusCommitment::from_bytes', [
        {'id': 'point-valid', 'what': 'G1 point validity gates acceptance', 'gate_callee': VALIDITY, 'per_item': True, 'cover': ['bytes']},
    ]),
    ('bbsplus::commitment::BlindFactor::from_bytes', [
        {'id': 'scalar-range', 'what': 'scalar < r gates acceptance', 'gate_callee': VALIDITY, 'per_item': True, 'cover': ['bytes']},
    ]),
]


# the verifier itself refuses what the octet decoders refuse, however the key and the signature objects were built (pub fields, serde)
ZERO_ALTS = [{'gate_callee': ['is_zero']}, {'gate_callee': ['PartialEq'], 'const': ['ZERO']}, {'gate_callee': ['<impl [T]>::contains'], 'const': ['ZERO'], 'truth': False}]
def _proof_scalar_reqs():
    out = []
    for f in ('e_cap', 'r1_cap', 'r3_cap', 'challenge'):
        out.append({'id': 'scalars-nonzero:' + f, 'what': 'a proof whose %s is zero is refused by the verifier (as octets_to_proof does)' % f,
                    'alts': ZERO_ALTS, 'cover': ['self.' + f], 'pure': ['self.' + f]})
    out.append({'id': 'scalars-nonzero:m_cap', 'what': 'a proof with a zero response m^_j is refused by the verifier (every one of them is tested)',
                'alts': ZERO_ALTS, 'cover': ['self.m_cap'], 'pure': ['self.m_cap'], 'quantifier': 'forall'})
    return out


PROOF_VALUE_REQS = [
    (POK + 'proof_verify', _proof_scalar_reqs()),
    (POK + 'blind_proof_verify', _proof_scalar_reqs()),
]
VERIFY_VALUE_REQS = [
    (SIG + 'verify', [
        {'id': 'pk-nonidentity', 'what': 'the identity public key is refused by the verifier', 'alts': IDENT_ALTS, 'cover': ['pk'], 'pure': ['pk']},
        {'id': 'A-nonidentity', 'what': 'a signature with A = identity is refused by the verifier', 'alts': IDENT_ALTS, 'cover': ['self'], 'pure': ['self']},
        {'id': 'e-nonzero', 'what': 'a signature with e = 0 is refused by the verifier', 'alts': ZERO_ALTS, 'cover': ['self'], 'pure': ['self']},
    ]),
    (BSIG + 'verify_blind_sign', [
        {'id': 'pk-nonidentity', 'what': 'the identity public key is refused by the verifier', 'alts': IDENT_ALTS, 'cover': ['pk'], 'pure': ['pk']},
        {'id': 'A-nonidentity', 'what': 'a signature with A = identity is refused by the verifier', 'alts': IDENT_ALTS, 'cover': ['self'], 'pure': ['self']},
        {'id': 'e-nonzero', 'what': 'a signature with e = 0 is refused by the verifier', 'alts': ZERO_ALTS, 'cover': ['self'], 'pure': ['self']},
    ]),
]


# members of the objects the octet decoders return, and the value of each that the decoder refuses (draft-08 octets_to_proof, octets_to_signature,
# octets_to_pubkey; the secret key and e are in 1 .. r - 1)
DECODED_MEMBERS = [
    ('bbsplus::proof::BBSplusPoKSignature::from_bytes', 'BBSplusPoKSignature',
     [('Abar', 'identity'), ('Bbar', 'identity'), ('D', 'identity'), ('e_cap', 'zero'), ('r1_cap', 'zero'), ('r3_cap', 'zero'), ('m_cap', 'zero'), ('challenge', 'zero')]),
    ('bbsplus::signature::BBSplusSignature::from_bytes', 'BBSplusSignature', [('A', 'identity'), ('e', 'zero')]),
    ('bbsplus::keys::BBSplusPublicKey::from_bytes', 'BBSplusPublicKey', [('0', 'identity')]),
    ('bbsplus::keys::BBSplusSecretKey::from_bytes', 'BBSplusSecretKey', [('0', 'zero')]),
]
