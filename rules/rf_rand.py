"""RF-G randomness provenance / freshness, RF-O cfg-twin agreement, RF-I serialised-form reachability (BBS)."""
from framework import Ob, AnchorMissing
from rf_gates import resolve_fn
from flow import local_target, walk
from dep import strip, fmt_atoms
from zone import tfmt, tadd
import bbs_tables as T

APPROVED_ORIGINS = ('rand::thread_rng', 'rand::rngs::OsRng', 'rand::rngs::ThreadRng::default', 'rand::rngs::OsRng::default')

# (function, local variable) holding blinding values, and functions whose return value is blinding material
ROLE_LOCALS = [('bbsplus::proof::core_proof_gen', 'random_scalars'), ('bbsplus::commitment::core_commit', 'random_scalars')]
ROLE_RETURNS = ['utils::util::bbsplus_utils::get_random', 'utils::util::bbsplus_utils::calculate_random_scalars',
                'bbsplus::commitment::BlindFactor::random', 'utils::util::bbsplus_utils::generate_random_secret']


def _judge(atoms, allow_size_params=()):
    """returns (ok, offending atoms).  A blinding value must come from an approved CSPRNG origin and from nothing else
    (a parameter, a constant seed, a static, or another origin would make it predictable or repeatable)."""
    origins = [a for a in atoms if a[0] == 'o']
    bad = []
    for a in atoms:
        s = strip(a)
        if a[0] == 'len':
            continue      # a length / count only decides how many values are drawn, not what they are
        if a[0] == 'o':
            if not a[1].endswith(APPROVED_ORIGINS):
                bad.append(a)
        elif s[0] == 's':
            bad.append(a)
        elif s[0] == 'p':
            if s[1] not in allow_size_params:
                bad.append(a)
        elif s[0] == 'a':
            bad.append(a)
        elif s[0] == 'c':
            # integer zero (buffer initialisation) is harmless; any other literal is a potential seed
            if s[1] not in ('0',):
                bad.append(a)
    ok = bool(origins) and not bad
    return ok, bad


def rule_randomness_provenance(ctx, cfg='prod-all', rule='RF-G1'):
    prog, eng = ctx.prog(cfg), ctx.eng(cfg)
    for fn, var in ROLE_LOCALS:
        b = prog.bodies.get(fn)
        if b is None:
            raise AnchorMissing(fn)
        fd = eng.fndep(fn)
        ls = [l for l, loc in enumerate(b.locals) if loc.get('name') == var and l > b.arg_count]
        if not ls:
            raise AnchorMissing('%s has no local %s' % (fn, var))
        for l in ls:
            atoms = fd.read(l, ())
            ok, bad = _judge(atoms)
            yield Ob(rule, '%s#role:%s' % (fn, var), ok, 'blinding scalars have their only provenance in the thread-local CSPRNG', b.span,
                     fact={'provenance': fmt_atoms(b, atoms), 'offending': fmt_atoms(b, bad)}, expected='{rand::thread_rng}')
    for fn in ROLE_RETURNS:
        b = prog.bodies.get(fn)
        if b is None:
            raise AnchorMissing(fn)
        summ = eng.summary(fn)
        atoms = set()
        for p, a in summ['ret'].items():
            atoms |= a
        size_params = tuple(k for k in range(1, b.arg_count + 1) if b.local_ty(k) == 'usize')
        ok, bad = _judge(atoms, allow_size_params=size_params)
        yield Ob(rule, '%s#ret' % fn, ok, 'returned blinding material has its only provenance in the thread-local CSPRNG', b.span,
                 fact={'provenance': fmt_atoms(b, atoms), 'offending': fmt_atoms(b, bad)}, expected='{rand::thread_rng} (+ size parameter)')
    # KeyPair::random: key material is generate_random_secret(..) only
    kr = resolve_fn(prog, T.KP + 'random')
    fd = eng.fndep(kr.path)
    ls = [l for l, loc in enumerate(kr.locals) if loc.get('name') == 'key_material']
    for l in ls:
        atoms = fd.read(l, ())
        ok, bad = _judge({a for a in atoms if not (a[0] == 'c' and a[1].isdigit())})
        yield Ob(rule, '%s#role:key_material' % kr.path, ok, 'random key material comes from the CSPRNG', kr.span,
                 fact={'provenance': fmt_atoms(kr, atoms), 'offending': fmt_atoms(kr, bad)}, expected='{rand::thread_rng}')
    # deny-list census: seeded / mock generators anywhere in non-test code
    deny = []
    n_calls = 0
    for p, b in prog.bodies.items():
        if b.from_expansion:
            continue
        for bi, t in b.calls():
            n_calls += 1
            cal = (t.get('callee') or '') + ' ' + (t.get('resolved') or '')
            if any(x in cal for x in ('SeedableRng', 'seed_from_u64', 'from_seed', 'StepRng', 'rngs::mock', 'SmallRng', 'seeded_random_scalars',
                                      'SystemTime', 'Instant::now', 'process::id')):
                if p.startswith('utils::random') and 'ChaCha20Rng' in (t.get('callee_full') or '') + ' '.join(t.get('targs') or []):
                    # CL03 helper: ChaCha20 seeded from thread_rng; its seed provenance is checked by the CL03 rule
                    continue
                deny.append('%s L%s: %s' % (p, t['line'], t.get('callee')))
    yield Ob(rule, 'crate#seeded-generators', not deny, 'no seeded / mock / clock-derived generator is called in the production configuration', '',
             fact={'calls_scanned': n_calls, 'offending': deny[:8]}, expected='none')


def rule_draw_in_loop(ctx, cfg='prod-all', rule='RF-G2'):
    """each element of the vector returned by calculate_random_scalars is a separate draw: the call that produces the pushed
    value sits inside the loop that pushes it."""
    prog, eng, za = ctx.prog(cfg), ctx.eng(cfg), ctx.zone(cfg)
    fn = 'utils::util::bbsplus_utils::calculate_random_scalars'
    b = prog.bodies.get(fn)
    if b is None:
        raise AnchorMissing(fn)
    zf = za.zf(fn)
    za.summary(fn)
    pushes = [(bi, t) for bi, t in b.calls() if (t.get('callee') or '') == 'std::vec::Vec::<T, A>::push']
    ok = bool(pushes)
    detail = []
    for bi, t in pushes:
        loops = [(h, bl) for h, bl in zf.loops if bi in bl]
        a = t['args'][1]
        src_block = None
        if a['k'] in ('copy', 'move') and not a['pl'].get('p'):
            l = a['pl']['l']
            for _ in range(6):
                d = zf.single_def(l)
                if d and d[0] == 'call':
                    src_block = d[1]
                    src = d[2].get('callee')
                    break
                if d and d[0] == 'assign' and d[2]['rv']['k'] == 'use' and d[2]['rv']['op']['k'] in ('copy', 'move'):
                    l = d[2]['rv']['op']['pl']['l']
                    continue
                break
        inside = bool(loops) and src_block is not None and all(src_block in bl for h, bl in loops)
        detail.append({'push_block': bi, 'draw_block': src_block, 'in_same_loop': inside})
        ok = ok and inside
    if not pushes:
        # iterator form: `(0..count).map(|_| draw()).collect()` - the closure is evaluated once per element and its value is a call made inside it
        fd = zf.fd
        for bi, t in b.calls():
            if (t.get('callee') or '') == 'std::iter::Iterator::map' and len(t['args']) == 2 and t['args'][1]['k'] in ('copy', 'move'):
                ci = fd._closure_info(t['args'][1]['pl']['l'])
                if ci is None:
                    continue
                czf = za.zf(ci[0])
                l, drawn = 0, None
                for _ in range(6):
                    d = czf.single_def(l)
                    if d and d[0] == 'call':
                        drawn = d[2].get('callee')
                        break
                    if d and d[0] == 'assign' and d[2]['rv']['k'] == 'use' and d[2]['rv']['op']['k'] in ('copy', 'move') and not d[2]['rv']['op']['pl'].get('p'):
                        l = d[2]['rv']['op']['pl']['l']
                        continue
                    break
                detail.append({'map_closure': ci[0].split('::')[-1], 'element_is_result_of': drawn, 'captures': len(ci[1])})
                # the value must be produced inside the closure (a captured, pre-drawn value would repeat)
                ok = drawn is not None
    retlen = za.summary(fn)['retlen'].get(())
    yield Ob(rule, '%s#draw-per-element' % fn, ok, 'every pushed scalar is drawn by a call inside the pushing loop (no hoisted / repeated value)', b.span,
             fact=detail, expected='draw inside loop')
    yield Ob(rule, '%s#count' % fn, retlen == ('p1', 0), 'the vector has exactly `count` elements', b.span, fact=tfmt(retlen), expected='p1 (= count)')


RANDOM_VECTOR_ROOTS = ('calculate_random_scalars', 'seeded_random_scalars')


def _role_indexes(ctx, cfg, fn):
    """{label: constant position}, {label: (start, end)} of the vector of random scalars, for every value fn reads that is one element /
    one sub-slice of that vector.  The vector is followed from the call that draws it through parameters, struct fields, slice patterns and
    helpers (vecpos).  The label is the user variable that holds the value, or - when the value is read straight out of a struct of named
    roles (`rnd.r2`) - the name of that field."""
    import vecpos
    body = ctx.prog(cfg).bodies[fn]
    tr = vecpos.Tracer(ctx, cfg, RANDOM_VECTOR_ROOTS)
    out, rng, places = {}, {}, {}

    def note(label, ps, pl=None):
        if label is None or len(ps) != 1:
            return
        pos = next(iter(ps))
        if pos is None:
            return
        if pos[0] == 'idx':
            out.setdefault(label, pos[1])
            places.setdefault(label, pl)
        elif pos[0] == 'rng' and not (pos[1] == (None, 0) and pos[2] is None):
            rng.setdefault(label, (pos[1], pos[2]))
            places.setdefault(label, pl)

    # named locals
    for l, loc in enumerate(body.locals):
        nm = loc.get('name')
        if nm and nm not in out and nm not in rng and 'Scalar' in loc.get('ty', ''):
            note(nm, tr.trace(fn, l, []), {'l': l})
    # fields of a struct of roles read in place
    seen = set()
    for bi, blk in enumerate(body.blocks):
        if blk['cleanup']:
            continue
        ops = []
        for st in blk['stmts']:
            if st['k'] == 'assign':
                rv = st['rv']
                ops += [o for o in [rv.get('op'), rv.get('a'), rv.get('b')] + list(rv.get('ops') or []) if isinstance(o, dict)]
                if rv.get('pl') is not None:
                    ops.append({'k': 'copy', 'pl': rv['pl']})
        t = blk['term']
        if t['k'] == 'call':
            ops += list(t['args'])
        for o in ops:
            if o.get('k') not in ('copy', 'move'):
                continue
            fs = [q for q in o['pl'].get('p', []) if q['k'] == 'field' and not str(q.get('adt', '')).startswith(('std::option', 'std::result', 'std::ops::ControlFlow'))]
            if not fs or 'Scalar' not in str(fs[-1].get('ty', '')):
                continue
            label = fs[-1]['n']
            key = (o['pl']['l'], tuple(q['n'] for q in fs))
            if key in seen or label.isdigit():
                continue
            seen.add(key)
            if label in out or label in rng:
                continue
            note(label, tr.trace_op(fn, {'k': 'copy', 'pl': o['pl']}, []), o['pl'])
    _role_indexes.visited = set(tr.visited_fns)
    _role_indexes.places = places
    return out, rng


def _role_label(b, fd, pl, idx):
    """the role a read place stands for: the named local it resolves to, or the role-struct field it reads"""
    r, p = fd.resolve_place(pl)
    nm = b.local_name(r)
    if nm in idx and not p:
        return nm
    if p and str(p[-1]) in idx:
        return str(p[-1])
    fs = [q for q in pl.get('p', []) if q['k'] == 'field']
    if fs and fs[-1]['n'] in idx:
        return fs[-1]['n']
    return None


def rule_role_projection(ctx, cfg='prod-all', rule='RF-G2'):
    """the fixed blinding roles are pairwise distinct positions of the random vector, the per-message masks start right after
    them, and producer / consumer functions agree on the positions."""
    prog, za = ctx.prog(cfg), ctx.zone(cfg)
    specs = [('bbsplus::proof::proof_init', 'random_scalars', {'r1': 0, 'r2': 1, 'e_tilde': 2, 'r1_tilde': 3, 'r3_tilde': 4}, 'm_tilde', 5),
             ('bbsplus::proof::proof_finalize', 'random_scalars', {'r1': 0, 'r2': 1, 'e_tilde': 2, 'r1_tilde': 3, 'r3_tilde': 4}, 'm_tilde', 5),
             ('bbsplus::commitment::core_commit', 'random_scalars', {'secret_prover_blind': 0, 's_tilde': 1}, 'm_tilde', 2)]
    maps = {}
    for fn, var, exp, mt, start in specs:
        b = prog.bodies.get(fn)
        if b is None:
            raise AnchorMissing(fn)
        za.summary(fn)
        zf = za.zf(fn)
        idx, rng = _role_indexes(ctx, cfg, fn)
        maps[fn] = idx
        vals = list(idx.values())
        distinct = len(set(vals)) == len(vals) and len(vals) >= len(exp)
        yield Ob(rule, '%s#roles-distinct' % fn, distinct and sorted(vals) == list(range(len(vals))),
                 'each fixed blinding role reads its own position of the random vector (0..k-1, no position shared)', b.span,
                 fact=idx, expected='%d distinct positions 0..%d' % (len(exp), len(exp) - 1))
        r = rng.get(mt)
        ok = r is not None and r[0] == (None, len(vals))
        yield Ob(rule, '%s#mask-range' % fn, ok, 'per-message masks are the slice that starts right after the fixed roles', b.span,
                 fact={'range': (tfmt(r[0]), tfmt(r[1])) if r else None, 'fixed_roles': len(vals)}, expected='[%d..%d+n)' % (len(vals), len(vals)))
    a, c = maps.get('bbsplus::proof::proof_init'), maps.get('bbsplus::proof::proof_finalize')
    yield Ob(rule, 'proof_init~proof_finalize#role-agreement', a == c, 'proof_init and proof_finalize read the same roles at the same positions', '',
             fact={'proof_init': a, 'proof_finalize': c}, expected='equal')


def rule_response_masks(ctx, cfg='prod-all', rule='RF-G4'):
    """every response scalar of the proof is `mask +/- secret * challenge` with a mask of its own; proof points are never a copy
    of a secret."""
    prog, eng, za = ctx.prog(cfg), ctx.eng(cfg), ctx.zone(cfg)
    fn = 'bbsplus::proof::proof_finalize'
    b = prog.bodies.get(fn)
    if b is None:
        raise AnchorMissing(fn)
    za.summary(fn)
    zf = za.zf(fn)
    fd = zf.fd
    idx, rng = _role_indexes(ctx, cfg, fn)
    # the final aggregate
    agg = None
    for bi, s in b.stmts():
        if s['k'] == 'assign' and s['rv']['k'] == 'agg' and s['rv']['name'].endswith('BBSplusPoKSignature'):
            agg = s['rv']
    if agg is None:
        raise AnchorMissing('BBSplusPoKSignature aggregate in proof_finalize')
    used = {}
    for f, o in zip(agg['fields'], agg['ops']):
        if f not in ('e_cap', 'r1_cap', 'r3_cap'):
            continue
        mask = None
        if o['k'] in ('copy', 'move') and not o['pl'].get('p'):
            l = o['pl']['l']
            for _ in range(4):
                d = zf.single_def(l)
                if d and d[0] == 'call' and (d[2].get('callee') or '') in ('std::ops::Add::add', 'std::ops::Sub::sub'):
                    for a in d[2]['args']:
                        if a['k'] in ('copy', 'move'):
                            lab = _role_label(b, fd, a['pl'], idx)
                            if lab is not None:
                                mask = lab
                            else:
                                # a role bound by destructuring (`let Roles { e_tilde, .. } = ..`): follow plain copies to the named local
                                l2 = a['pl']['l']
                                for _k in range(4):
                                    if b.local_name(l2) in idx:
                                        mask = b.local_name(l2)
                                        break
                                    d2 = zf.single_def(l2)
                                    if d2 and d2[0] == 'assign' and d2[2]['rv']['k'] in ('use', 'ref') and not d2[2]['dst'].get('p'):
                                        src = d2[2]['rv'].get('pl') or d2[2]['rv'].get('op', {}).get('pl')
                                        if src and not [q for q in src.get('p', []) if q['k'] not in ('deref',)]:
                                            l2 = src['l']
                                            continue
                                    break
                    break
                if d and d[0] == 'assign' and d[2]['rv']['k'] == 'use' and d[2]['rv']['op']['k'] in ('copy', 'move'):
                    l = d[2]['rv']['op']['pl']['l']
                    continue
                break
        used[f] = mask
        yield Ob(rule, '%s#response:%s' % (fn, f), mask is not None, 'response is mask +/- secret * challenge with a fresh role as mask', b.span,
                 fact={'mask': mask, 'position': idx.get(mask)}, expected='an additive mask drawn from the random vector')
    ms = [m for m in used.values() if m]
    yield Ob(rule, '%s#masks-distinct' % fn, len(set(ms)) == len(ms) == 3, 'the three fixed responses use three different masks', b.span, fact=used, expected='3 distinct')
    # no proof field is a plain copy of a secret input
    secrets = {'e', 'undisclosed_messages', 'random_scalars'}
    for lab, pl in getattr(_role_indexes, 'places', {}).items():
        if pl is not None:
            for a in fd.read_op({'k': 'copy', 'pl': pl}):
                if strip(a)[0] == 'p':
                    secrets.add(b.local_name(strip(a)[1]))
    for f, o in zip(agg['fields'], agg['ops']):
        if o['k'] in ('copy', 'move'):
            r, p = fd.resolve_place(o['pl'])
            nm = b.local_name(r)
            yield Ob(rule, '%s#no-copy:%s' % (fn, f), not (fd.is_param(r) and nm in secrets),
                     'proof field is not a plain copy of a secret input', b.span, fact={'source': nm + ''.join('.' + x for x in p)}, expected='computed value')
    # proof_init: Abar, Bbar, D are products with fresh roles, not copies of signature.A
    pi = prog.bodies.get('bbsplus::proof::proof_init')
    if pi is None:
        raise AnchorMissing('proof_init')
    fdi = eng.fndep(pi.path)
    # parameters of proof_init that carry the random vector: the ones its role variables are read from
    ridx, rrng = _role_indexes(ctx, cfg, pi.path)
    rs_params = set()
    for lab, pl in getattr(_role_indexes, 'places', {}).items():
        if pl is not None:
            for a in fdi.read_op({'k': 'copy', 'pl': pl}):
                if strip(a)[0] == 'p':
                    rs_params.add(strip(a)[1])
    for bi, s in pi.stmts():
        if s['k'] == 'assign' and s['rv']['k'] == 'agg' and s['rv']['name'].endswith('ProofInitResult'):
            for f, o in zip(s['rv']['fields'], s['rv']['ops']):
                if f in ('Abar', 'Bbar', 'D') and o['k'] in ('copy', 'move'):
                    at = fdi.read_op(o)
                    masked = any(strip(a)[0] == 'p' and strip(a)[1] in rs_params for a in at)
                    r, p = fdi.resolve_place(o['pl'])
                    yield Ob(rule, '%s#randomised:%s' % (pi.path, f), masked and not fdi.is_param(r),
                             'transmitted point depends on fresh randomness and is not a copy of a signature component', pi.span,
                             fact={'depends_on_random_scalars': masked, 'source': pi.local_name(r)}, expected='randomised')


# ---------------------------------------------------------------------------- RF-O cfg twins
def _count_desc(ctx, cfg, fn, callee_suffix):
    prog, eng, za = ctx.prog(cfg), ctx.eng(cfg), ctx.zone(cfg)
    b = prog.bodies.get(fn)
    if b is None:
        raise AnchorMissing('%s in %s' % (fn, cfg))
    za.summary(fn)
    zf = za.zf(fn)
    out = []
    for bi, t in b.calls():
        tgt = local_target(eng, t) or ''
        if tgt.endswith(callee_suffix):
            op = t['args'][0]
            term = zf.term_op(op)
            # describe the symbol by user-visible structure
            desc = describe(zf, op)
            out.append((desc, bi, t))
    return out


def describe(zf, op, depth=0):
    body = zf.body
    if op['k'] == 'const':
        return str(op.get('int', op.get('disp')))
    pl = op['pl']
    if depth > 24:
        return '?'
    if pl.get('p'):
        ps = pl['p']
        if len(ps) == 1 and ps[0]['k'] == 'field' and ps[0]['n'] == '0':
            d = zf.single_def(pl['l'])
            if d and d[0] == 'assign' and d[2]['rv']['k'] == 'binop':
                rv = d[2]['rv']
                return '(%s %s %s)' % (describe(zf, rv['a'], depth + 1), rv['op'].replace('WithOverflow', ''), describe(zf, rv['b'], depth + 1))
        if any(p['k'] == 'downcast' for p in ps):
            o = zf._origin_call(pl['l'])
            if o:
                return '%s(%s)?' % ((o[1].get('callee') or '').split('::')[-1], ', '.join(describe(zf, a, depth + 1) for a in o[1]['args']))
        return '?proj'
    l = pl['l']
    if zf.fd.is_param(l):
        return body.local_name(l)
    d = zf.single_def(l)
    if d is None:
        return body.local_name(l)
    kind, bi, x = d
    if kind == 'assign':
        rv = x['rv']
        if rv['k'] == 'use':
            return describe(zf, rv['op'], depth + 1)
        if rv['k'] == 'binop':
            return '(%s %s %s)' % (describe(zf, rv['a'], depth + 1), rv['op'].replace('WithOverflow', ''), describe(zf, rv['b'], depth + 1))
        if rv['k'] == 'unop' and rv['op'] == 'PtrMetadata':
            return 'len(%s)' % describe(zf, rv['a'], depth + 1)
        if rv['k'] == 'ref':
            r, p = zf.fd.resolve_place(rv['pl'])
            return body.local_name(r) + ''.join('.' + q for q in p)
        return rv['k']
    cal = (x.get('callee') or '').split('::')[-1]
    if (x.get('callee') or '') in ('core::slice::<impl [T]>::len', 'std::vec::Vec::<T, A>::len'):
        return 'len(%s)' % describe(zf, x['args'][0], depth + 1)
    if cal in ('branch', 'ok_or', 'ok_or_else', 'map_err', 'deref'):
        return describe(zf, x['args'][0], depth + 1)
    return '%s(%s)' % (cal, ', '.join(describe(zf, a, depth + 1) for a in x['args'] if a['k'] != 'const' or 'int' in a))


def rule_cfg_twins(ctx, rule='RF-O'):
    """the production randomness call (never compiled into the test binary) requests the same number of scalars as the seeded
    mock the tests exercise, and the consumers' length guards match that count."""
    twins = [('bbsplus::proof::core_proof_gen', 'bbsplus::proof::proof_init'), ('bbsplus::commitment::core_commit', None)]
    for fn, consumer in twins:
        prod = _count_desc(ctx, 'prod-default', fn, 'calculate_random_scalars')
        test = _count_desc(ctx, 'test-default', fn, 'seeded_random_scalars')
        pa = _count_desc(ctx, 'prod-all', fn, 'calculate_random_scalars')
        ok = len(prod) == 1 and len(test) == 1 and len(pa) == 1 and prod[0][0] == test[0][0] == pa[0][0]
        yield Ob(rule, '%s#twin-count' % fn, ok, 'production count expression equals the mocked one', '',
                 fact={'prod-default': [p[0] for p in prod], 'prod-all': [p[0] for p in pa], 'test-default': [p[0] for p in test]}, expected='equal, one call each')
        # the mock must not be callable in production, and the seed / dst parameters must be dead there
        for cfg in ('prod-default', 'prod-all'):
            prog = ctx.prog(cfg)
            mocks = [p for p in prog.bodies if p.endswith('seeded_random_scalars')]
            yield Ob(rule, '%s#no-mock@%s' % (fn, cfg), not mocks, 'the seeded mock does not exist in the production configuration', '', fact=mocks, expected='absent')
    # consumer guard: proof_init requires len(random_scalars) == 5 + U, core_commit indexes [0], [1], [2..M+2] of a vector of M + 2
    for cfg in ('prod-all',):
        prog, za = ctx.prog(cfg), ctx.zone(cfg)
        pi = 'bbsplus::proof::proof_init'
        # some function on the way from the draw to proof_init's roles succeeds only if len(vector) == 5 + (a count)
        _role_indexes(ctx, cfg, pi)
        visited = set(getattr(_role_indexes, 'visited', set())) | {pi}
        ok, seen = False, {}
        for f in sorted(visited):
            post = set(za.summary(f)['post'])
            seen[f.split('::')[-1]] = [(tfmt(a), tfmt(b)) for a, b in post][:6]
            for a, b in post:
                if a[0] and b[0] and a[0] != b[0] and (b, a) in post:
                    for v, o in ((a, b), (b, a)):
                        # len:v + v1 == o0 + o1  <=>  len:v == o0 + (o1 - v1)
                        if v[0].startswith('len:') and not o[0].startswith('N:') and o[1] - v[1] == 5 and f in visited:
                            fb = prog.bodies[f]
                            k = fb.param_index(v[0][4:].split('.')[0])
                            if k is not None and fb.local_ty(k).lstrip('&').strip().startswith(('[', 'std::vec::Vec<')):
                                ok = True
        yield Ob(rule, '%s#consumer-guard' % pi, ok, 'proof_init (or the helper that names the roles) succeeds only if len(random vector) == 5 + U', '',
                 fact=seen, expected='len(random_scalars) == (count) + 5 in a postcondition')
        # in core_proof_gen the production vector has 5 + U elements where U is the checked difference L - R
        cpg = 'bbsplus::proof::core_proof_gen'
        za.summary(cpg)
        zf = za.zf(cpg)
        b = prog.bodies[cpg]
        for bi, t in b.calls():
            if (local_target(ctx.eng(cfg), t) or '').endswith('calculate_random_scalars'):
                term = zf.term_op(t['args'][0])
                d = describe(zf, t['args'][0])
                ok = term is not None and term[1] == 5 and 'checked_sub(len(messages), len(' in d
                yield Ob(rule, '%s#count-term' % cpg, ok, 'count = 5 + (L - R)', '', fact={'term': tfmt(term), 'desc': d}, expected='(5 Add checked_sub(len(messages), len(disclosed_indexes))?)')
        cc = 'bbsplus::commitment::core_commit'
        za.summary(cc)
        zf = za.zf(cc)
        b = prog.bodies[cc]
        for bi, t in b.calls():
            if (local_target(ctx.eng(cfg), t) or '').endswith('calculate_random_scalars'):
                d = describe(zf, t['args'][0])
                term = zf.term_op(t['args'][0])
                ok = False
                if term is not None and term[1] == 2 and (term[0] or '').startswith('len:'):
                    # the counted list is the committed-messages parameter (possibly after Option defaulting / a copy)
                    from rf_consts import _trace_identity
                    nm = term[0][4:]
                    kp = b.param_index('committed_messages_scalars')
                    if nm == 'committed_messages_scalars':
                        ok = True
                    elif nm.startswith('_') and nm[1:].isdigit() and kp is not None:
                        ok = _trace_identity(zf.fd, b, {'k': 'copy', 'pl': {'l': int(nm[1:])}})[0] == kp
                yield Ob(rule, '%s#count-term' % cc, ok, 'count = M + 2', '',
                         fact={'desc': d, 'term': tfmt(term)}, expected='len(committed_messages_scalars) + 2')


# ---------------------------------------------------------------------------- RF-I (BBS)
SECRET_TYPES = ('bbsplus::signature::BBSplusSignature', 'bbsplus::commitment::BlindFactor', 'bbsplus::keys::BBSplusSecretKey',
                'bbsplus::proof::ProofInitResult')


def rule_serialised_leaves_bbs(ctx, cfg='prod-all', rule='RF-I'):
    prog = ctx.prog(cfg)
    roots = ['bbsplus::proof::BBSplusPoKSignature', 'bbsplus::commitment::BBSplusCommitment', 'bbsplus::proof::BBSplusZKPoK']
    for r in roots:
        adt = prog.adts.get(r)
        if adt is None:
            raise AnchorMissing(r)
        seen = set()
        leaves = []
        bad = []
        st = [(r, r)]
        while st:
            path, tname = st.pop()
            a = prog.adts.get(tname)
            if a is None:
                leaves.append((path, tname))
                continue
            if tname in seen:
                continue
            seen.add(tname)
            if tname in SECRET_TYPES:
                bad.append(path)
            for v in a['variants']:
                for f in v['fields']:
                    ty = f['ty']
                    inner = ty
                    for pre in ('std::vec::Vec<', 'std::option::Option<'):
                        if inner.startswith(pre):
                            inner = inner[len(pre):-1]
                    st.append((path + '.' + f['name'], inner))
        yield Ob(rule, '%s#no-secret-type' % r, not bad, 'no secret-bearing type is reachable from the fields of a transmitted type', adt['span'],
                 fact={'leaves': [(p, t) for p, t in leaves][:12], 'secret_paths': bad}, expected='only G1Projective / Scalar leaves')
        ok_leaf = all(t in ('bls12_381_plus::G1Projective', 'bls12_381_plus::Scalar') for _, t in leaves)
        yield Ob(rule, '%s#leaf-types' % r, ok_leaf, 'transmitted leaves are group elements and scalars only', adt['span'], fact=sorted({t for _, t in leaves}), expected=['G1Projective', 'Scalar'])
    # BlindFactor and the secret key must not be serialisable as part of anything the prover sends
    bf = prog.adts.get('bbsplus::commitment::BlindFactor')
    ser = [i for i in prog.impls if i['self'] == 'bbsplus::commitment::BlindFactor' and i['trait'] and i['trait'].endswith('Serialize')]
    yield Ob(rule, 'bbsplus::commitment::BlindFactor#not-serialize', bf is not None and not ser, 'the blind factor type has no Serialize impl', bf['span'] if bf else '',
             fact=[i['trait'] for i in ser], expected='none')



def rule_filled_buffers(ctx, cfg='prod-all', scope=('utils::', 'bbsplus::')):
    """Octets of secret material are drawn by `fill_bytes(&mut buf)`: the generator fills exactly the octets the buffer *has* at that moment.  The
    buffer is created with its final length (`vec![0; n]`, `[0u8; N]`), not with a capacity only, and its length is not changed afterwards - a buffer
    that is empty when it is filled and resized afterwards holds zeros (`with_capacity(n)` .. `fill_bytes` .. `resize(n, 0)`)."""
    prog, eng = ctx.prog(cfg), ctx.eng(cfg)
    n = 0
    for p, b in sorted(prog.bodies.items()):
        if b.from_expansion or not p.startswith(scope) or '::tests::' in p:
            continue
        fd = eng.fndep(p)
        for bi, t in b.calls():
            if not (t.get('callee') or '').endswith('fill_bytes') or len(t['args']) < 2 or t['args'][1].get('k') not in ('copy', 'move'):
                continue
            n += 1
            root = fd.base(t['args'][1]['pl']['l'])[0] if hasattr(fd, 'base') else t['args'][1]['pl']['l']
            # through deref_mut / as_mut_slice of a Vec
            for _ in range(4):
                ds = fd.defs.get(root, [])
                if len(ds) == 1 and ds[0][0] == 'call' and (ds[0][2].get('callee') or '').endswith(('deref_mut', 'as_mut_slice', 'as_mut', 'borrow_mut')) and ds[0][2]['args'] \
                        and ds[0][2]['args'][0].get('k') in ('copy', 'move'):
                    root = fd.base(ds[0][2]['args'][0]['pl']['l'])[0]
                    continue
                break
            made = [((x.get('callee') or '').split('::')[-1] if kd == 'call' else x['rv'].get('k')) for kd, _b, x in fd.defs.get(root, [])]
            sized = bool(made) and all(m in ('from_elem', 'repeat', 'agg', 'use') for m in made)
            later = []
            for bj, tj in b.calls():
                if bj == bi or bj not in b.reachable(bi):
                    continue
                short = (tj.get('callee') or '').split('::')[-1]
                if short in ('resize', 'push', 'extend', 'extend_from_slice', 'truncate', 'clear', 'resize_with', 'set_len', 'insert') and tj['args'] \
                        and tj['args'][0].get('k') in ('copy', 'move') and fd.base(tj['args'][0]['pl']['l'])[0] == root:
                    later.append(short)
            yield Ob('RF-G1', '%s#filled-buffer:%d' % (p, n), sized and not later, 'the buffer has its final length when the generator fills it', '%s L%s' % (b.file(), t.get('line')),
                     fact={'created_by': made, 'length_changed_afterwards_by': later}, expected='created with its length, not resized after the fill')
    yield Ob('RF-G1', 'crate#filled-buffers', n >= 1, 'fill_bytes sites examined', '', fact=n, expected='>= 1', nontrivial=False)
