"""RF-B: interface-constant propagation (which ciphersuite / interface constants reach which role site from
each public entry point, context sensitively) and RF-A: Option normalisation, RF-S: shared-state census,
A5: ciphersuite constant table."""
from framework import Ob, AnchorMissing
from flow import walk, local_target, callee_matches
from dep import strip, fmt_atom
from rf_gates import resolve_fn
import bbs_tables as T

ROLE_SITES = {
    'bbsplus::generators::Generators::create': ('gen.api', 1),
    'utils::message::bbsplus_message::BBSplusMessage::messages_to_scalar': ('map.api', 1),
    'utils::message::bbsplus_message::BBSplusMessage::map_message_to_scalar_as_hash': ('map.api', 1),
    'utils::util::bbsplus_utils::calculate_domain': ('dom.api', 4),
    'bbsplus::proof::proof_challenge_calculate': ('chal.api', 4),
    'utils::util::bbsplus_utils::calculate_blind_challenge': ('bchal.api', 3),
    'utils::util::bbsplus_utils::hash_to_scalar': ('h2s.dst', 1),
}

A, AB, BL = 'API_ID', 'API_ID_BLIND', 'c:b"BLIND_"'
H2S, MAP, KG = 'H2S', 'MAP_MSG_SCALAR', 'KEYGEN_DST'


def fs(*x):
    return frozenset(x)


# entry -> role -> set of constant sets (one per distinct site context); oracle: draft-08 section 3.4/3.5/3.6 (api_id =
# ciphersuite_id || "H2G_HM2S_"), blind-01 (api_id = ciphersuite_id || "BLIND_H2G_HM2S_", blind generators under "BLIND_" || api_id)
EXPECTED_ROLES = {
    T.SIG + 'sign': {'gen.api': {fs(A)}, 'map.api': {fs(A)}, 'dom.api': {fs(A)}, 'h2s.dst': {fs(A, H2S), fs(A, MAP)}},
    T.SIG + 'verify': {'gen.api': {fs(A)}, 'map.api': {fs(A)}, 'dom.api': {fs(A)}, 'h2s.dst': {fs(A, H2S), fs(A, MAP)}},
    T.SIG + 'update_signature': {'gen.api': {fs(A)}, 'map.api': {fs(A)}, 'h2s.dst': {fs(A, MAP)}},
    T.POK + 'proof_gen': {'gen.api': {fs(A)}, 'map.api': {fs(A)}, 'dom.api': {fs(A)}, 'chal.api': {fs(A)}, 'h2s.dst': {fs(A, H2S), fs(A, MAP)}},
    T.POK + 'proof_verify': {'gen.api': {fs(A)}, 'map.api': {fs(A)}, 'dom.api': {fs(A)}, 'chal.api': {fs(A)}, 'h2s.dst': {fs(A, H2S), fs(A, MAP)}},
    T.KP + 'generate': {'h2s.dst': {fs(A, KG)}},
    T.KP + 'random': {'h2s.dst': {fs(A, KG)}},
    T.COM + 'commit': {'gen.api': {fs(AB, BL)}, 'map.api': {fs(AB)}, 'bchal.api': {fs(AB)}, 'h2s.dst': {fs(AB, H2S), fs(AB, MAP)}},
    T.BSIG + 'blind_sign': {'gen.api': {fs(AB), fs(AB, BL)}, 'map.api': {fs(AB)}, 'dom.api': {fs(AB)}, 'bchal.api': {fs(AB)},
                            'h2s.dst': {fs(AB, H2S), fs(AB, MAP)}},
    T.BSIG + 'verify_blind_sign': {'gen.api': {fs(AB), fs(AB, BL)}, 'map.api': {fs(AB)}, 'dom.api': {fs(AB)}, 'h2s.dst': {fs(AB, H2S), fs(AB, MAP)}},
    T.POK + 'blind_proof_gen': {'gen.api': {fs(AB), fs(AB, BL)}, 'map.api': {fs(AB)}, 'dom.api': {fs(AB)}, 'chal.api': {fs(AB)},
                                'h2s.dst': {fs(AB, H2S), fs(AB, MAP)}},
    T.POK + 'blind_proof_verify': {'gen.api': {fs(AB), fs(AB, BL)}, 'map.api': {fs(AB)}, 'dom.api': {fs(AB)}, 'chal.api': {fs(AB)},
                                   'h2s.dst': {fs(AB, H2S), fs(AB, MAP)}},
}


def const_names(atoms, free_consts=None):
    out = set()
    for a in atoms:
        if a[0] in ('len', 'narrow'):
            continue
        if a[0] == 'a':
            v = (free_consts or {}).get(a[1])
            if v is not None and v.startswith('b"'):
                if v != 'b""':
                    out.add('c:' + v)       # a module-level constant stands for its octets, like a literal
                continue
            out.add(a[1].split('::')[-1])
        elif a[0] == 'c' and a[1].startswith('b"') and a[1] != 'b""':
            out.add('c:' + a[1])
    return frozenset(out)


# the parameter whose argument is the role value, by name (used when a tabled helper was relocated and its parameter list changed)
ROLE_PARAM = {'chal.api': 'api_id', 'dom.api': 'api_id', 'bchal.api': 'api_id', 'gen.api': 'api_id', 'map.api': 'api_id', 'h2s.dst': 'dst'}


def _role_sites(prog):
    """ROLE_SITES with a hashing helper that was renamed / moved / made a method found again (rf_hash.relocation)"""
    import rf_hash
    sites = dict(ROLE_SITES)
    for old, new in rf_hash.relocation(prog, rf_hash.BBS_TABLE).items():
        if old in sites:
            role, ai = sites.pop(old)
            k = prog.bodies[new].param_index(ROLE_PARAM.get(role, ''))
            if k is not None:
                sites[new] = (role, k - 1)
    return sites


def role_table(eng, entry_path):
    res = {}
    where = {}
    ROLE_SITES = _role_sites(eng.prog)
    for fr in walk(eng, entry_path):
        for bi, t in fr.body.calls():
            tgt = local_target(eng, t)
            if tgt in ROLE_SITES:
                role, ai = ROLE_SITES[tgt]
                # the role argument is found by its parameter name when the helper has one (its parameter list may have changed)
                k = eng.prog.bodies[tgt].param_index(ROLE_PARAM.get(role, '')) if tgt in eng.prog.bodies else None
                if k is not None:
                    ai = k - 1
                if ai >= len(t['args']):
                    raise AnchorMissing('argument %d (role %s) of %s' % (ai, role, tgt))
                at = fr.lift(fr.fd.read_op(t['args'][ai]))
                cs = const_names(at, eng.prog.free_consts())
                res.setdefault(role, set()).add(cs)
                where.setdefault((role, cs), []).append('%s L%s' % (fr.path.split('::')[-1], t['line']))
    return res, where


def rule_interface_constants(ctx, entries=None, cfg='prod-all'):
    prog, eng = ctx.prog(cfg), ctx.eng(cfg)
    for suffix, exp in EXPECTED_ROLES.items():
        if entries and suffix not in entries:
            continue
        body = resolve_fn(prog, suffix)
        got, where = role_table(eng, body.path)
        for role in sorted(set(exp) | set(got)):
            e = exp.get(role, set())
            g = got.get(role, set())
            ok = (e == g)
            detail = {'got': sorted(sorted(x) for x in g), 'sites': {str(sorted(k[1])): v[:3] for k, v in where.items() if k[0] == role}}
            yield Ob('RF-B', '%s#role:%s' % (body.path, role), ok,
                     'constants reaching role %s from this entry point' % role, body.span,
                     fact=detail, expected=sorted(sorted(x) for x in e))


# ------------------------------------------------------------------ A5 constant table (draft-08 / blind-01)
CS_EXPECT = {
    'bbsplus::ciphersuites::Bls12381Sha256': {
        'ID': 'b"BBS_BLS12381G1_XMD:SHA-256_SSWU_RO_"',
        'P1': '"a8ce256102840821a3e94ea9025e4662b205762f9776b3a766c872b948f1fd225e7c59698588e70d11406d161b4e28c9"',
        'Expander': 'ExpandMsgXmd', 'ExpanderHash': 'Sha256'},
    'bbsplus::ciphersuites::Bls12381Shake256': {
        'ID': 'b"BBS_BLS12381G1_XOF:SHAKE-256_SSWU_RO_"',
        'P1': '"8929dfbc7e6642c4ed9cba0856e493f8b9d7d5fcb0c31ef8fdcd34d50648a56c795e106e9eada6e0bda386b414150755"',
        'Expander': 'ExpandMsgXof', 'ExpanderHash': 'Shake256'},
}
COMMON = {'KEYGEN_DST': 'b"KEYGEN_DST_"', 'GENERATOR_SEED': 'b"MESSAGE_GENERATOR_SEED"', 'GENERATOR_SEED_DST': 'b"SIG_GENERATOR_SEED_"',
          'GENERATOR_DST': 'b"SIG_GENERATOR_DST_"', 'MAP_MSG_SCALAR': 'b"MAP_MSG_TO_SCALAR_AS_HASH_"', 'H2S': 'b"H2S_"'}
COMMON_INT = {'EXPAND_LEN': '48', 'IKM_LEN': '32', 'OCTECT_SCALAR_LEN': '32'}


def _unq(v):
    return v[2:-1] if v and v.startswith('b"') else (v[1:-1] if v and v.startswith('"') else v)


def rule_ciphersuite_constants(ctx, cfg='prod-all'):
    prog = ctx.prog(cfg)
    impls = prog.impl_consts('BbsCiphersuite')
    if set(impls) != set(CS_EXPECT):
        yield Ob('A5', 'BbsCiphersuite#impl-set', False, 'set of BBS ciphersuite impls', '', fact=sorted(impls), expected=sorted(CS_EXPECT))
        return
    for ty, consts in sorted(impls.items()):
        exp = CS_EXPECT[ty]
        def val(n):
            return consts[n]['val'] if n in consts else None
        def integer(n):
            return consts[n]['int'] if n in consts else None
        for n in ('ID', 'P1'):
            yield Ob('A5', '%s#const:%s' % (ty, n), val(n) == exp[n], 'ciphersuite constant equals the draft', ty, fact=val(n), expected=exp[n])
        for n, e in COMMON.items():
            yield Ob('A5', '%s#const:%s' % (ty, n), val(n) == e, 'ciphersuite constant equals the draft', ty, fact=val(n), expected=e)
        for n, e in COMMON_INT.items():
            yield Ob('A5', '%s#const:%s' % (ty, n), integer(n) == e, 'ciphersuite constant equals the draft', ty, fact=integer(n), expected=e)
        idv = _unq(val('ID') or '')
        yield Ob('A5', '%s#derived:API_ID' % ty, _unq(val('API_ID') or '') == idv + 'H2G_HM2S_', 'API_ID == ID || "H2G_HM2S_"', ty,
                 fact=val('API_ID'), expected=idv + 'H2G_HM2S_')
        yield Ob('A5', '%s#derived:API_ID_BLIND' % ty, _unq(val('API_ID_BLIND') or '') == idv + 'BLIND_H2G_HM2S_',
                 'API_ID_BLIND == ID || "BLIND_H2G_HM2S_"', ty, fact=val('API_ID_BLIND'), expected=idv + 'BLIND_H2G_HM2S_')
        # DST length: api_id || longest suffix must stay <= 255 (hash_to_scalar refuses longer DSTs)
        longest = max(len(_unq(val(n) or '')) for n in ('H2S', 'MAP_MSG_SCALAR', 'KEYGEN_DST', 'GENERATOR_SEED_DST', 'GENERATOR_DST'))
        mx = max(len(_unq(val('API_ID') or '')), len(_unq(val('API_ID_BLIND') or '')) + len('BLIND_')) + longest
        yield Ob('A5', '%s#dst-length' % ty, mx <= 255, 'every DST built from the constants is <= 255 octets', ty, fact=mx, expected='<= 255')
        # expander type
        at = None
        for i in prog.impls:
            if i['self'] == ty and i['trait'] and i['trait'].endswith('BbsCiphersuite'):
                for a in i['assoc_tys']:
                    if a['name'] == 'Expander':
                        at = a['ty']
        ok = at is not None and exp['Expander'] in at and exp['ExpanderHash'].lower() in at.lower()
        yield Ob('A5', '%s#type:Expander' % ty, ok, 'expand_message variant and hash of the suite', ty, fact=at, expected=[exp['Expander'], exp['ExpanderHash']])
    # both suites define the same constant names
    names = [frozenset(c) for c in impls.values()]
    yield Ob('A5', 'BbsCiphersuite#same-const-set', len(set(names)) == 1, 'both ciphersuites define the same set of constants', '',
             fact=[len(n) for n in names], expected='equal')
    # the two suites differ in every interface constant
    a, b = list(impls.values())
    for n in ('ID', 'API_ID', 'API_ID_BLIND', 'P1'):
        yield Ob('A5', 'BbsCiphersuite#distinct:%s' % n, a[n]['val'] != b[n]['val'], 'suites are separated by this constant', '',
                 fact=[a[n]['val'], b[n]['val']], expected='different')


# ------------------------------------------------------------------ RF-A Option normalisation
def _is_empty_default(fd, op):
    """operand is an empty slice / array constant, or a freshly created empty Vec."""
    body = fd.body
    if op['k'] == 'const':
        ty = op.get('ty', '')
        return '; 0]' in ty or op.get('disp') in ('b""', '""')
    # &BlindFactor(Scalar::ZERO): the documented default of an absent blind factor
    if body.local_ty(op['pl']['l']) == '&bbsplus::commitment::BlindFactor':
        at = fd.read_op(op)
        return bool(at) and all(a[0] == 'a' and a[1].endswith('::ZERO') for a in at)
    l = op['pl']['l']
    seen = set()
    while True:
        if l in seen:
            return False
        seen.add(l)
        ty = body.local_ty(l)
        if ty.endswith('; 0]'):
            return True
        ds = fd.defs.get(l, [])
        if len(ds) != 1:
            return False
        kind, bi, x = ds[0]
        if kind == 'call':
            return (x.get('callee') or '').endswith('Vec::<T>::new') or (x.get('callee') or '').endswith('::default')
        rv = x['rv']
        if rv['k'] in ('use', 'cast') and rv['op']['k'] == 'const':
            return _is_empty_default(fd, rv['op'])
        if rv['k'] in ('use', 'cast') and rv['op']['k'] in ('copy', 'move'):
            l = rv['op']['pl']['l']
            continue
        if rv['k'] == 'ref':
            l = rv['pl']['l']
            continue
        return False


def option_param_uses(eng, path, k, _seen=None):
    """violations of the normalisation discipline for parameter k of function `path`."""
    _seen = _seen or set()
    if (path, k) in _seen:
        return [], 0
    _seen.add((path, k))
    fd = eng.fndep(path)
    body = fd.body
    carriers = {k}
    changed = True
    while changed:
        changed = False
        for bi, s in body.stmts():
            if s['k'] == 'assign' and s['rv']['k'] == 'use' and s['rv']['op']['k'] in ('copy', 'move'):
                src = s['rv']['op']['pl']
                if src['l'] in carriers and not src.get('p') and not s['dst'].get('p') and s['dst']['l'] not in carriers:
                    carriers.add(s['dst']['l'])
                    changed = True
    viol = []
    uses = 0

    def mentions(pl):
        return pl['l'] in carriers

    for bi, blk in enumerate(body.blocks):
        if blk['cleanup']:
            continue
        for s in blk['stmts']:
            if s['k'] != 'assign':
                continue
            rv = s['rv']
            ops = []
            if rv['k'] in ('use', 'cast', 'repeat'):
                ops = [rv['op']]
            elif rv['k'] == 'unop':
                ops = [rv['a']]
            elif rv['k'] == 'binop':
                ops = [rv['a'], rv['b']]
            elif rv['k'] == 'agg':
                ops = rv['ops']
            pls = [o['pl'] for o in ops if o['k'] in ('copy', 'move')]
            if rv['k'] in ('ref', 'discr', 'rawptr'):
                pls.append(rv['pl'])
            for pl in pls:
                if not mentions(pl):
                    continue
                if rv['k'] == 'use' and not pl.get('p') and not s['dst'].get('p') and s['dst']['l'] in carriers:
                    continue  # carrier copy
                uses += 1
                viol.append('%s: `%s` is inspected (%s) at L%s' % (body.path, body.local_name(k), rv['k'], s.get('line')))
        t = blk['term']
        if t['k'] == 'switch' and t['discr']['k'] in ('copy', 'move') and mentions(t['discr']['pl']):
            uses += 1
            viol.append('%s: `%s` is matched on at L%s' % (body.path, body.local_name(k), t.get('line')))
        if t['k'] == 'call':
            for ai, a in enumerate(t['args']):
                if a['k'] in ('copy', 'move') and mentions(a['pl']):
                    uses += 1
                    cal = t.get('callee') or ''
                    tgt = local_target(eng, t)
                    if a['pl'].get('p'):
                        viol.append('%s: projection of `%s` passed to %s at L%s' % (body.path, body.local_name(k), cal, t['line']))
                    elif cal in ('std::option::Option::<T>::unwrap_or',) and ai == 0:
                        if not _is_empty_default(fd, t['args'][1]):
                            viol.append('%s: `%s`.unwrap_or(<non-empty default>) at L%s' % (body.path, body.local_name(k), t['line']))
                    elif cal in ('std::option::Option::<T>::unwrap_or_default',) and ai == 0:
                        pass
                    elif tgt is not None:
                        v2, u2 = option_param_uses(eng, tgt, ai + 1, _seen)
                        viol.extend(v2)
                    else:
                        viol.append('%s: `%s` passed to %s at L%s (distinguishes None from empty)' % (body.path, body.local_name(k), cal, t['line']))
    return viol, uses


def rule_option_normalisation(ctx, entry_suffixes, cfg='prod-all', exclude=()):
    prog, eng = ctx.prog(cfg), ctx.eng(cfg)
    for suffix in entry_suffixes:
        body = resolve_fn(prog, suffix)
        for k in range(1, body.arg_count + 1):
            ty = body.local_ty(k)
            if not (ty.startswith('std::option::Option<&[') or ty.startswith('std::option::Option<std::vec::Vec<')
                    or ty == 'std::option::Option<&bbsplus::commitment::BlindFactor>'):
                continue
            if (suffix, body.local_name(k)) in exclude:
                continue  # tabled: the documented default of this parameter is not the empty string
            viol, uses = option_param_uses(eng, body.path, k)
            yield Ob('RF-A', '%s#opt:%s' % (body.path, body.local_name(k)), not viol,
                     'Option parameter `%s` is only ever normalised with an empty default (None behaves exactly like empty)' % body.local_name(k),
                     body.span, fact={'uses': uses, 'violations': viol[:5]}, expected='unwrap_or(<empty>) on every path', nontrivial=uses > 0)


def rule_option_normalisation_all(ctx, cfg='prod-all', scope=('bbsplus::', 'utils::util::bbsplus_utils', 'utils::message::bbsplus_message'),
                                  exclude_params=('key_dst', 'secret_prover_blind'), min_params=50):
    """RF-A for every function of the BBS layer, not only the public entry points: an optional octet-string parameter (header, ph, api_id,
    key_info, message lists ...) is only ever defaulted to the empty string - an internal helper that substitutes another default makes an
    absent value differ from an empty one for every caller.  key_dst (documented non-empty default) and the blind factor (normalised at the
    entry points, see RF-A there) are tabled exclusions."""
    prog = ctx.prog(cfg)
    fns = [p for p, b in sorted(prog.bodies.items()) if p.startswith(scope) and not b.from_expansion and b.kind != 'Closure']
    n = 0
    for ob in rule_option_normalisation(ctx, fns, cfg=cfg):
        if ob.key.rsplit('#opt:', 1)[1] in exclude_params:
            continue
        n += 1
        yield ob
    yield Ob('RF-A', 'crate#option-parameter-census', n >= min_params, 'optional octet-string parameters checked', '', fact=n, expected='>= %d' % min_params, nontrivial=False)


# ------------------------------------------------------------------ RF-S shared-state census
INTERIOR = ('Cell<', 'RefCell<', 'Mutex<', 'RwLock<', 'Atomic', 'OnceCell<', 'OnceLock<', 'LazyLock<', 'LazyCell<', 'UnsafeCell<', 'Lazy<')


def rule_shared_state(ctx, cfg='prod-all', scope_prefixes=('',)):
    prog = ctx.prog(cfg)
    statics = prog.items['statics']
    bad = [s for s in statics if s['mut'] or not s['freeze'] or s['thread_local'] or any(x in s['ty'] for x in INTERIOR)]
    yield Ob('RF-S', 'crate#statics', not bad, 'no static item with mutability, interior mutability or thread-local storage', '',
             fact={'statics': [s['path'] for s in statics], 'offending': [(s['path'], s['ty']) for s in bad]}, expected='none')
    # reads of foreign statics / thread locals inside bodies
    refs = []
    n_ops = 0
    for p, b in prog.bodies.items():
        if b.from_expansion:
            continue
        for bi, s in b.stmts():
            if s['k'] != 'assign':
                continue
            rv = s['rv']
            if rv['k'] == 'tlsref':
                refs.append((p, 'thread_local ' + rv['def']))
            for o in (rv.get('op'), rv.get('a'), rv.get('b')):
                if isinstance(o, dict) and o.get('k') == 'const':
                    n_ops += 1
                    if 'static' in o:
                        refs.append((p, 'static ' + o['static']))
        for bi, t in b.calls():
            for a in t['args']:
                if a.get('k') == 'const' and 'static' in a:
                    refs.append((p, 'static ' + a['static']))
            cal = t.get('callee') or ''
            if any(x in cal for x in ('OnceCell', 'OnceLock', 'LazyLock', 'lazy_static', 'thread::LocalKey', 'AtomicU', 'AtomicI', 'AtomicBool', 'AtomicPtr', 'Mutex<', 'RwLock<')):
                refs.append((p, 'call ' + cal))
    yield Ob('RF-S', 'crate#static-refs', not refs, 'no body reads or writes a static / thread-local / once-cell', '',
             fact={'const_operands_scanned': n_ops, 'refs': refs[:10]}, expected='none')
    unsafe_fns = [f['path'] for f in prog.items['fns'] if f['unsafe']]
    yield Ob('RF-S', 'crate#unsafe-fns', not unsafe_fns, 'no unsafe fn in the crate', '', fact=unsafe_fns, expected='none')


# ------------------------------------------------------------------ argument roles
PASS_THROUGH_ROLES = ('pk', 'sk', 'header', 'ph', 'api_id', 'key_info', 'key_dst', 'key_material', 'signer_pk', 'commitment_pk', 'a_bases')


def rule_argument_roles(ctx, cfg='prod-all', scope=('bbsplus::', 'utils::util::bbsplus_utils', 'utils::message::bbsplus_message'), roles=PASS_THROUGH_ROLES, min_sites=40, callee_scope=None, tag=''):
    """context data is handed down unchanged: when a function passes an argument for a callee parameter named pk / sk / header / ph /
    api_id (...), that argument is computed from the caller's parameter of the same name and from no other parameter (or from constants
    only when the caller has no such parameter).  A header passed where the presentation header belongs, or a key of the wrong party,
    breaks this."""
    prog, eng = ctx.prog(cfg), ctx.eng(cfg)
    n = 0
    for p, b in sorted(prog.bodies.items()):
        if b.from_expansion or not p.startswith(scope) or b.kind == 'Closure':
            continue
        fd = eng.fndep(p)
        for bi, t in b.calls():
            tgt = local_target(eng, t)
            if tgt is None or tgt not in prog.bodies:
                continue
            if callee_scope is not None and not tgt.startswith(callee_scope):
                continue
            cb = prog.bodies[tgt]
            for k, a in enumerate(t['args']):
                if k + 1 > cb.arg_count:
                    continue
                role = cb.local_name(k + 1)
                if role not in roles:
                    continue
                at = fd.read_op(a)
                srcs = sorted({b.local_name(strip(x)[1]) for x in at if strip(x)[0] == 'p'})
                aliases = {'pk': ('pk', 'signer_pk'), 'signer_pk': ('signer_pk', 'pk'), 'a': ('a', 'rmin'), 'b': ('b', 'rmax')}.get(role, (role,))
                own = [x for x in aliases if b.param_index(x) is not None]
                if not own:
                    continue      # the caller computes this value itself (e.g. sk_to_pk(sk) in key generation): nothing to pass through
                ok = srcs == [own[0]]
                exp = [own[0]]
                n += 1
                yield Ob('RF-B', '%s#arg:%s(%s)@%d' % (p, tgt.split('::')[-1], role, sum(1 for bj, tj in b.calls() if bj < bi and local_target(eng, tj) == tgt)), ok,
                         'argument for `%s` of %s comes from the caller\'s own `%s`' % (role, tgt.split('::')[-1], role), '%s L%s' % (b.file(), t['line']),
                         fact={'sources': srcs}, expected=exp)
    yield Ob('RF-B', 'crate#argument-role-census%s' % tag, n >= min_sites, 'pass-through arguments checked', '', fact=n, expected='>= %d' % min_sites, nontrivial=False)


# ------------------------------------------------------------------ message lists handed down whole
LIST_ROLES = ('messages', 'committed_messages')
LIST_SINKS = ('messages_to_scalar', 'prepare_parameters', 'commit')
# calls whose result is the same list as their first argument (same elements, same order, same count)
IDENTITY_CALLS = ALIAS_IDENT = (
    'std::option::Option::<T>::unwrap_or', 'std::option::Option::<T>::unwrap_or_default', 'std::option::Option::<T>::unwrap',
    'std::option::Option::<T>::expect', 'std::option::Option::<T>::as_ref', 'std::option::Option::<T>::as_deref', 'std::option::Option::<T>::copied',
    'std::option::Option::<T>::cloned', 'std::option::Option::<&T>::copied', 'std::option::Option::<&T>::cloned',
    'std::ops::Deref::deref', 'std::convert::AsRef::as_ref', 'std::borrow::Borrow::borrow', 'std::vec::Vec::<T, A>::as_slice',
    'std::slice::<impl [T]>::to_vec', 'std::clone::Clone::clone', 'std::borrow::ToOwned::to_owned', 'std::convert::Into::into', 'std::convert::From::from',
)


def _trace_identity(fd, body, op, seen=None):
    """follow an operand backwards through identity-preserving steps.  Returns (param_local | None, chain_locals, reason)."""
    chain = []
    cur = op
    for _ in range(64):
        if cur['k'] == 'const':
            return None, chain, 'constant'
        if cur['k'] not in ('copy', 'move'):
            return None, chain, 'not a place'
        pl = cur['pl']
        l = pl['l']
        projs = [p for p in pl.get('p', []) if p['k'] not in ('deref', 'downcast')]
        # (x as Some).0 is the payload of an Option: identity; any other field/index is a part, not the whole
        if any(p['k'] != 'field' or not str(p.get('adt', '')).startswith(('std::option::Option', 'core::option::Option')) for p in projs):
            return None, chain, 'a part of a value (projection) is passed'
        chain.append(l)
        if fd.is_param(l):
            return l, chain, None
        ds = [d for d in fd.defs.get(l, []) if d[0] != 'setdiscr']
        if len(ds) != 1:
            return None, chain, 'value is assigned on several paths / rebuilt'
        kind, bi, x = ds[0]
        if kind == 'assign':
            if x['dst'].get('p'):
                return None, chain, 'value is assembled field by field'
            rv = x['rv']
            if rv['k'] == 'use':
                cur = rv['op']
            elif rv['k'] in ('ref', 'rawptr'):
                cur = {'k': 'copy', 'pl': rv['pl']}
            elif rv['k'] == 'cast':
                cur = rv['op']
            elif rv['k'] == 'agg' and rv.get('name') in ('std::option::Option', 'core::option::Option') and rv.get('variant') == 'Some' and len(rv.get('ops', [])) == 1:
                cur = rv['ops'][0]
            else:
                return None, chain, 'value is computed (%s)' % rv['k']
        else:
            cal = x.get('callee') or ''
            if cal in IDENTITY_CALLS and x['args']:
                cur = x['args'][0]
            else:
                return None, chain, 'value is produced by %s' % (cal.split('::')[-1] or 'a call')
    return None, chain, 'chain too long'


def _mut_borrowed(fd, body, locs):
    """locals of the chain that are mutably borrowed (or passed by &mut) anywhere in the body"""
    out = []
    for bi, s in body.stmts():
        if s['k'] == 'assign' and s['rv']['k'] in ('ref', 'rawptr') and s['rv'].get('mut') and s['rv']['pl']['l'] in locs:
            out.append((s['rv']['pl']['l'], s.get('line')))
    return out


def rule_list_integrity(ctx, cfg='prod-all', scope=('bbsplus::', 'utils::util::bbsplus_utils'), only_fns=None, min_sites=12):
    """the octet-string message lists a caller gives to an API-layer function reach the message-to-scalar mapping whole: same elements,
    same order, same count.  The argument in a `messages` / `committed_messages` role of messages_to_scalar / prepare_parameters / commit
    must be the caller's own parameter, reached only through identity steps (Option defaulting, borrows, plain copies), and no copy on the
    way may be mutably borrowed (sort / dedup / retain / truncate ...).  A verifier that drops, merges or reorders disclosed messages
    checks a different statement than the one it was given; a signer that does so signs a different vector."""
    prog, eng = ctx.prog(cfg), ctx.eng(cfg)
    n = 0
    for p, b in sorted(prog.bodies.items()):
        if b.from_expansion or not p.startswith(scope) or b.kind == 'Closure':
            continue
        if only_fns and not any(p.endswith(x) for x in only_fns):
            continue
        fd = eng.fndep(p)
        for bi, t in b.calls():
            tgt = local_target(eng, t)
            if tgt is None or tgt not in prog.bodies or tgt.split('::')[-1] not in LIST_SINKS:
                continue
            cb = prog.bodies[tgt]
            for k, a in enumerate(t['args']):
                if k + 1 > cb.arg_count or cb.local_name(k + 1) not in LIST_ROLES:
                    continue
                role = cb.local_name(k + 1)
                if 'u8' not in cb.locals[k + 1]['ty']:
                    continue          # scalar lists are derived values, not the caller's octet strings
                n += 1
                key = '%s#list:%s(%s)@%d' % (p, tgt.split('::')[-1], role, sum(1 for bj, tj in b.calls() if bj < bi and local_target(eng, tj) == tgt))
                if a['k'] == 'const':
                    yield Ob('RF-B', key, True, 'message list argument is a constant (absent list)', '%s L%s' % (b.file(), t['line']), fact='const', expected='param or const')
                    continue
                par, chain, why = _trace_identity(fd, b, a)
                muts = _mut_borrowed(fd, b, set(chain)) if par is not None else []
                ok = par is not None and not muts
                yield Ob('RF-B', key, ok, 'message list handed to %s is the caller\'s own list, whole and unaltered' % tgt.split('::')[-1], '%s L%s' % (b.file(), t['line']),
                         fact={'param': b.local_name(par) if par is not None else None, 'why': why, 'mutably_borrowed': [(b.local_name(l) or '_%d' % l, ln) for l, ln in muts]},
                         expected='identity chain to a parameter; no &mut borrow on the way')
    if not only_fns:
        yield Ob('RF-B', 'crate#message-list-census', n >= min_sites, 'message-list hand-over sites checked', '', fact=n, expected='>= %d' % min_sites, nontrivial=False)
