"""A1: interprocedural, field-sensitive *value* dependence (provenance) over the MIR facts.

Atoms (the sources a value may be computed from):
  ('p', k, path)      parameter k (MIR local index) of the function under analysis, field path (<= DEPTH)
  ('c', text)         a literal constant (integers, byte strings, strs)
  ('a', defpath)      a named / associated constant that stays symbolic (e.g. BbsCiphersuite::API_ID)
  ('o', callee)       an origin call: an external call that takes no place operands (thread_rng(), ...)
  ('s', defpath)      a static item
  ('len', atom)       the length of something computed from `atom`
  ('narrow', atom)    a length that went through a narrowing cast / mask / remainder
Only *data* flow is followed (assignments, operands of operators and calls, writes through `&mut`
arguments and by-mut closure captures).  Control dependence is never folded into a value's atoms; it is
handled separately by gates.py.  The analysis over-approximates: if an atom is absent from a value's set,
no data-flow path from that source to the value exists in the MIR."""
from mir import Body, Program

DEPTH = 6

TRANSPARENT_ADT_PREFIX = (
    'std::result::Result::', 'std::option::Option::', 'std::ops::ControlFlow::',
    'core::result::Result::', 'core::option::Option::', 'core::ops::ControlFlow::',
)

# external calls whose result is (a view into / a wrapper of) their first argument
ALIAS_CALLS = (
    'std::ops::Deref::deref', 'std::ops::DerefMut::deref_mut',
    'std::ops::Index::index', 'std::ops::IndexMut::index_mut',
    'std::ops::Try::branch',
    'std::convert::AsRef::as_ref', 'std::convert::AsMut::as_mut',
    'std::borrow::Borrow::borrow', 'std::borrow::BorrowMut::borrow_mut',
    'std::vec::Vec::<T, A>::as_slice', 'std::vec::Vec::<T, A>::as_mut_slice',
    'std::option::Option::<T>::as_ref', 'std::option::Option::<T>::as_mut',
    'std::option::Option::<T>::unwrap', 'std::option::Option::<T>::expect',
    'std::result::Result::<T, E>::unwrap', 'std::result::Result::<T, E>::expect',
    'core::slice::<impl [T]>::get', 'core::slice::<impl [T]>::get_mut',
    'core::slice::<impl [T]>::iter', 'core::slice::<impl [T]>::iter_mut',
)

LEN_CALLS = (
    'core::slice::<impl [T]>::len', 'std::vec::Vec::<T, A>::len', 'core::str::<impl str>::len',
    'std::string::String::len', 'std::collections::VecDeque::<T, A>::len',
)

NON_ORIGIN_SUFFIX = ('::new', '::from_elem', '::with_capacity', '::default', '::from_str', '::new_display', '::new_debug', '::from', '::into', '::of', '::generator', '::identity')

ELEMENT_MAPPERS = ('std::iter::Iterator::map', 'std::iter::Iterator::filter_map', 'std::iter::Iterator::flat_map', 'std::iter::Iterator::map_while')
ELEMENT_SELECTORS = ('std::iter::Iterator::filter', 'std::iter::Iterator::take_while', 'std::iter::Iterator::skip_while', 'std::iter::Iterator::inspect')
ITER_TY_MARKERS = ('IterMut', 'Zip<', 'Enumerate<', 'ChunksMut', 'ChunksExactMut', 'Rev<', 'Skip<', 'Take<', 'StepBy<', 'Chain<', 'Peekable<')

NARROW_BINOPS = ('BitAnd', 'Rem', 'Shr', 'Div')

INT_BITS = {'u8': 8, 'u16': 16, 'u32': 32, 'u64': 64, 'u128': 128, 'usize': 64,
            'i8': 8, 'i16': 16, 'i32': 32, 'i64': 64, 'i128': 128, 'isize': 64}


def is_mut_ref_ty(ty):
    return ty.startswith('&mut ') or ty.startswith("&'") and ' mut ' in ty.split(' ', 2)[1:2].__str__()


def is_closure_ty(ty):
    return ty.startswith('{closure@')


class FnDep:
    """value dependence of one body, in terms of its own parameters."""

    def __init__(self, eng, body):
        self.eng = eng
        self.body = body
        self.val = {}           # node (local, path) -> set(atoms)
        self.defs = {}          # local -> list of ('assign', blk, stmt) | ('call', blk, term)
        self._alias = {}
        self._alias_extra = {}   # local -> operands (indexes / keys) the aliased view additionally depends on
        self.closure_aggs = {}  # local -> agg rvalue (closure construction)
        self._term_block = {}
        self._collect_defs()
        self._solve()

    # ------------------------------------------------------------ defs and aliases
    def _collect_defs(self):
        b = self.body
        for bi, blk in enumerate(b.blocks):
            if blk['cleanup']:
                continue
            for s in blk['stmts']:
                if s['k'] == 'assign':
                    self.defs.setdefault(s['dst']['l'], []).append(('assign', bi, s))
                    rv = s['rv']
                    if rv['k'] == 'agg' and rv['ak'] == 'closure' and not s['dst'].get('p'):
                        self.closure_aggs[s['dst']['l']] = rv
                elif s['k'] == 'setdiscr':
                    self.defs.setdefault(s['dst']['l'], []).append(('setdiscr', bi, s))
            t = blk['term']
            if t['k'] == 'call':
                self.defs.setdefault(t['dst']['l'], []).append(('call', bi, t))
                self._term_block[id(t)] = bi

    def is_param(self, l):
        return 1 <= l <= self.body.arg_count

    def base(self, l, _depth=0):
        """alias resolution: (root_local, path).  A local that is assigned exactly once by a
        reference / whole copy / alias-propagating call is replaced by what it refers to."""
        if l in self._alias:
            return self._alias[l]
        res = (l, ())
        self._alias[l] = res  # cycle guard
        if not self.is_param(l) and l != 0 and _depth < 64:
            # a write *through* a reference (`(*l).f = v`) is not a re-definition of the reference itself
            ds = [d for d in self.defs.get(l, []) if not any(q['k'] == 'deref' for q in (d[2].get('dst', {}).get('p') or []))]
            if len(ds) == 1:
                kind, bi, x = ds[0]
                if kind == 'assign' and not x['dst'].get('p'):
                    rv = x['rv']
                    src = None
                    if rv['k'] == 'use' and rv['op']['k'] in ('copy', 'move'):
                        src = rv['op']['pl']
                    elif rv['k'] in ('ref', 'rawptr'):
                        src = rv['pl']
                    elif rv['k'] == 'cast' and rv['op']['k'] in ('copy', 'move') and (
                            rv['ck'].startswith('PointerCoercion') or rv['ck'] in ('PtrToPtr', 'Transmute')):
                        src = rv['op']['pl']
                    if src is not None and not any(p['k'] == 'index' for p in src.get('p', [])):
                        res = self.resolve_place(src, _depth + 1)
                        if src['l'] in self._alias_extra:
                            self._alias_extra[l] = self._alias_extra[src['l']]
                elif kind == 'call' and not x['dst'].get('p'):
                    cal = x.get('callee') or ''
                    if cal in ALIAS_CALLS and x['args'] and x['args'][0]['k'] in ('copy', 'move'):
                        res = self.resolve_place(x['args'][0]['pl'], _depth + 1)
                        ex = [a for a in x['args'][1:] if a['k'] in ('copy', 'move')]
                        ex += self._alias_extra.get(x['args'][0]['pl']['l'], [])
                        if ex:
                            self._alias_extra[l] = ex
                    else:
                        tgt = self.eng.local_target(x)
                        if tgt is not None and tgt != self.body.path:
                            summ = self.eng.summary(tgt)
                            if summ is not None and summ.get('alias') is not None:
                                k, apath = summ['alias']
                                if k - 1 < len(x['args']) and x['args'][k - 1]['k'] in ('copy', 'move'):
                                    r0, p0 = self.resolve_place(x['args'][k - 1]['pl'], _depth + 1)
                                    res = (r0, (p0 + apath)[:DEPTH])
        self._alias[l] = res
        return res

    def resolve_place(self, pl, _depth=0):
        root, path = self.base(pl['l'], _depth)
        for p in pl.get('p', []):
            if p['k'] == 'field':
                adt = p.get('adt', '')
                if adt.startswith(TRANSPARENT_ADT_PREFIX):
                    continue
                path = path + (p['n'],)
        return root, path[:DEPTH]

    # ------------------------------------------------------------ reading / writing nodes
    def read(self, root, path):
        out = set()
        path = tuple(path[:DEPTH])
        if self.is_param(root):
            out.add(('p', root, path))
        for (r, q), atoms in self.val.items():
            if r != root:
                continue
            if q == path[:len(q)] or path == q[:len(path)]:
                out |= atoms
        return out

    def read_place(self, pl, _g=0):
        root, path = self.resolve_place(pl)
        out = self.read(root, path)
        if _g < 4:
            for ex in self._alias_extra.get(pl['l'], []):
                out |= self.read_place(ex['pl'], _g + 1)
        # index operands contribute (x[i] depends on i)
        for p in pl.get('p', []):
            if p['k'] == 'index':
                r2, p2 = self.base(p['l'])
                out |= self.read(r2, p2)
        return out

    def read_op(self, o):
        if o['k'] in ('copy', 'move'):
            return self.read_place(o['pl'])
        if o['k'] == 'const':
            return self.const_atoms(o)
        return set()

    def const_atoms(self, o):
        if 'static' in o:
            return {('s', o['static'])}
        if 'fn' in o:
            return set()
        if 'uneval' in o and 'promoted' not in o:
            # a module-level constant holding an octet string stands for its octets, like the literal it names (`const PREFIX: &[u8] = b"BLIND_"`)
            v = self.eng.prog.free_consts().get(o['uneval'])
            if v is not None and v.startswith('b"'):
                return {('c', v)}
            return {('a', o['uneval'])}
        if 'promoted' in o:
            out = set()
            for pr in self.body.j.get('promoted', []):
                if pr['i'] == o['promoted']:
                    for c in pr['consts']:
                        if 'promoted' not in c:
                            out |= self.const_atoms(c)
            return out or {('c', 'promoted:' + o.get('disp', ''))}
        ty = o.get('ty', '')
        if ty == '()' or ty.startswith('std::marker::PhantomData'):
            return set()
        if 'int' in o:
            return {('c', o['int'])}
        return {('c', o.get('disp', '?'))}

    def write(self, root, path, atoms):
        path = tuple(path[:DEPTH])
        if not atoms:
            return False
        cur = self.val.setdefault((root, path), set())
        n = len(cur)
        cur |= atoms
        return len(cur) != n

    def is_alias_local(self, pl):
        return not pl.get('p') and self.base(pl['l']) != (pl['l'], ())

    def write_place(self, pl, atoms):
        if self.is_alias_local(pl):
            return False  # a view, not a storage location of its own
        root, path = self.resolve_place(pl)
        ch = self.write(root, path, atoms)
        for r in self._through_mut(pl, root):
            ch |= self.write(r, (), atoms)
        return ch

    def _through_mut(self, pl, root):
        """`*s = v` where s is a `&mut` element handed out by an iterator chain (iter_mut / zip / enumerate / next ...): the storage written
        is the container the chain was started on"""
        if any(p['k'] == 'deref' for p in pl.get('p', [])) and self.body.local_ty(pl['l']).startswith('&mut '):
            return [r for r in self.mut_origins(pl['l']) if r != root]
        return []

    def mut_origins(self, l, _seen=None):
        """storage locals a `&mut` value obtained through an iterator chain may point into"""
        seen = _seen if _seen is not None else set()
        if l in seen or len(seen) > 64:
            return set()
        seen.add(l)
        ds = self.defs.get(l, [])
        if self.is_param(l) or not ds:
            return {l}
        out = set()
        for kind, bi, x in ds:
            if x.get('dst', {}).get('p'):
                continue      # a write through the reference, not a definition of it
            if kind == 'assign':
                rv = x['rv']
                if rv['k'] in ('use', 'cast') and rv['op']['k'] in ('copy', 'move'):
                    out |= self.mut_origins(rv['op']['pl']['l'], seen)
                elif rv['k'] in ('ref', 'rawptr'):
                    src = rv['pl']
                    if any(p['k'] == 'deref' for p in src.get('p', [])):
                        out |= self.mut_origins(src['l'], seen)
                    else:
                        r0, _ = self.resolve_place(src)
                        ty0 = self.body.local_ty(r0)
                        if r0 != l and (ty0.startswith('&mut ') or any(m in ty0 for m in ITER_TY_MARKERS)):
                            out |= self.mut_origins(r0, seen)
                        else:
                            out.add(r0)
                elif rv['k'] == 'agg':
                    for o in rv.get('ops', []):
                        if o['k'] in ('copy', 'move') and ('&mut' in self.body.local_ty(o['pl']['l']) or 'Iter' in self.body.local_ty(o['pl']['l'])):
                            out |= self.mut_origins(o['pl']['l'], seen)
            elif kind == 'call':
                cal = x.get('callee') or ''
                if cal.startswith(('std::iter::', 'core::iter::', 'core::slice::', 'std::vec::Vec', 'std::ops::IndexMut', 'std::ops::DerefMut', 'std::option::Option',
                                   'std::slice::', 'std::convert::AsMut', 'std::borrow::BorrowMut')):
                    for a in x['args']:
                        if a['k'] in ('copy', 'move'):
                            ty = self.body.local_ty(a['pl']['l'])
                            if '&mut' in ty or any(m in ty for m in ITER_TY_MARKERS):
                                out |= self.mut_origins(a['pl']['l'], seen)
        return out

    # ------------------------------------------------------------ transfer functions
    def _closure_info(self, l):
        """if local l holds a closure constructed in this body: (def_path, [capture operands])"""
        r, p = self.base(l)
        rv = self.closure_aggs.get(r)
        if rv is None:
            return None
        return rv['name'], rv['ops']

    def _arg_atoms_and_muts(self, args):
        """returns (list of atom sets per arg, list of mutable targets (root,path)), expanding closures."""
        per = []
        muts = []
        extra = set()
        for a in args:
            at = self.read_op(a)
            if a['k'] in ('copy', 'move'):
                l = a['pl']['l']
                ty = self.body.local_ty(l)
                if ty.startswith('&mut ') and True:
                    muts.append(self.resolve_place(a['pl']))
                ci = self._closure_info(l) if not a['pl'].get('p') else None
                if ci is not None:
                    name, caps = ci
                    for c in caps:
                        at |= self.read_op(c)
                        if c['k'] in ('copy', 'move'):
                            cty = self.body.local_ty(c['pl']['l'])
                            if cty.startswith('&mut '):
                                muts.append(self.resolve_place(c['pl']))
                    extra |= self.eng.closure_internal_atoms(name)
            per.append(at)
        if extra:
            per.append(extra)
        return per, muts

    def _xfer_call(self, t):
        ch = self._xfer_call0(t)
        if self.eng.sites:
            # Engine(prog, sites=..): the result of a designated decoding call also carries an atom naming the call site, so that values decoded
            # by different calls from the same input can be told apart (which of them a later test looks at)
            name = t.get('resolved') or t.get('callee') or ''
            cal = t.get('callee') or ''
            if any(name.endswith(x) or cal.endswith(x) for x in self.eng.sites):
                ch |= self.write_place(t['dst'], {('site', '%s#b%s:%s' % (self.body.path, self._term_block.get(id(t)), cal.split('::')[-1]))})
            # a designated decoder handed over as a function value (`chunks.map(Scalar::from_bytes_be)`): the call that receives it is the site
            for a in t['args']:
                f = a.get('fn') if a.get('k') == 'const' else None
                if f and any(f.endswith(x) for x in self.eng.sites):
                    ch |= self.write_place(t['dst'], {('site', '%s#b%s:%s' % (self.body.path, self._term_block.get(id(t)), f.split('::')[-1]))})
        return ch

    def _xfer_call0(self, t):
        ch = False
        callee = t.get('callee')
        resolved = t.get('resolved') if t.get('resolved_kind') == 'item' else None
        target = None
        if resolved and t.get('resolved_local') and resolved in self.eng.prog.bodies:
            target = resolved
        elif callee and t.get('callee_local') and callee in self.eng.prog.bodies and not t.get('trait'):
            target = callee
        if target is not None and target != self.body.path:
            if self.eng.modular and self.eng.modular_helper(target) and len(t['args']) == 3:
                # an audited modular division `divm(a, b, m)`: a function of a mod m and b mod m (see Engine.modular_helper)
                per, _m = self._arg_atoms_and_muts(t['args'])
                res = set()
                for i, s_ in enumerate(per[:3]):
                    res |= {compose('mod' if i < 2 else 'nr', a) for a in s_}
                return self.write_place(t['dst'], res)
            summ = self.eng.summary(target)
            if summ is not None:
                return self._apply_summary(t, summ)
        # element-transforming iterator adaptor with a closure whose body is known: the elements of the result are what the closure
        # returns (its captures, constants, origins, and the receiver's elements where it uses its argument); the receiver otherwise
        # only determines how many elements there are
        if callee in ELEMENT_MAPPERS and len(t['args']) == 2 and t['args'][1]['k'] in ('copy', 'move') and not t['args'][1]['pl'].get('p'):
            ci = self._closure_info(t['args'][1]['pl']['l'])
            cfd = self.eng.fndep(ci[0]) if ci is not None else None
            if cfd is not None and cfd is not self:
                recv = self.read_op(t['args'][0])
                res = {a if a[0] in ('len', 'narrow') else ('len', a) for a in recv}
                csum = cfd.make_summary()
                for path, atoms in csum['ret'].items():
                    for a in atoms:
                        st = strip(a)
                        if st[0] == 'p' and st[1] == 1:
                            k = st[2][0] if st[2] else None
                            if k is not None and str(k).isdigit() and int(k) < len(ci[1]):
                                res |= rewrap(a, self.read_op(ci[1][int(k)]))
                            else:
                                for c in ci[1]:
                                    res |= rewrap(a, self.read_op(c))
                        elif st[0] == 'p':
                            res |= rewrap(a, recv)
                        else:
                            res.add(a)
                muts = []
                for c in ci[1]:
                    if c['k'] in ('copy', 'move') and self.body.local_ty(c['pl']['l']).startswith('&mut '):
                        muts.append(self.resolve_place(c['pl']))
                ch |= self.write_place(t['dst'], res)
                for (r, p_) in muts:
                    ch |= self.write(r, p_, res | recv)
                return ch
        # element-selecting adaptors: the elements of the result are elements of the receiver; the predicate only decides how many
        if callee in ELEMENT_SELECTORS and len(t['args']) == 2 and t['args'][1]['k'] in ('copy', 'move') and not t['args'][1]['pl'].get('p'):
            ci = self._closure_info(t['args'][1]['pl']['l'])
            if ci is not None:
                res = set(self.read_op(t['args'][0]))
                extra = set(self.eng.closure_internal_atoms(ci[0]))
                for c in ci[1]:
                    extra |= self.read_op(c)
                res |= {a if a[0] in ('len', 'narrow') else ('len', a) for a in extra}
                return self.write_place(t['dst'], res)
        # external (or unresolvable) call
        per, muts = self._arg_atoms_and_muts(t['args'])
        if self.eng.modular:
            cls = modular_class(t)
            if cls == 'absorb':
                per = [{compose('mod' if i == 0 else 'nr', a) for a in s} for i, s in enumerate(per)]
            elif cls != 'ring':
                per = [{compose('h' if cls == 'hash' else 'nr', a) for a in s} for s in per]
        allat = set()
        for s in per:
            allat |= s
        name = callee or ''
        if name in LEN_CALLS:
            res = {('len', a) if a[0] not in ('len', 'narrow') else a for a in allat}
        else:
            res = set(allat)
            if not any(a['k'] in ('copy', 'move') for a in t['args']) and name and not name.endswith(NON_ORIGIN_SUFFIX):
                res.add(('o', name))
        ch |= self.write_place(t['dst'], res)
        for (r, p) in muts:
            ch |= self.write(r, p, allat | ({('o', name)} if ('o', name) in res else set()))
        return ch

    def _apply_summary(self, t, summ):
        ch = False
        args = t['args']

        def inst(atoms):
            out = set()
            for a in atoms:
                out |= self._inst_atom(a, args)
            return out
        if not self.is_alias_local(t['dst']):
            for path, atoms in summ['ret'].items():
                root, dp = self.resolve_place(t['dst'])
                ch |= self.write(root, dp + path, inst(atoms))
        for k, d in summ['mut'].items():
            if k - 1 < len(args) and args[k - 1]['k'] in ('copy', 'move'):
                root, ap = self.resolve_place(args[k - 1]['pl'])
                for path, atoms in d.items():
                    ch |= self.write(root, ap + path, inst(atoms))
        return ch

    def _inst_atom(self, a, args):
        if a[0] == 'p':
            k, path = a[1], a[2]
            if k - 1 >= len(args):
                return set()
            arg = args[k - 1]
            if arg['k'] in ('copy', 'move'):
                # the environment of a closure built in this body: capture n of the closure is the n-th capture operand (field sensitive)
                if path and str(path[0]).isdigit() and not arg['pl'].get('p'):
                    ci = self._closure_info(arg['pl']['l'])
                    if ci is not None and int(path[0]) < len(ci[1]):
                        cop = ci[1][int(path[0])]
                        if cop['k'] in ('copy', 'move'):
                            r0, p0 = self.resolve_place(cop['pl'])
                            return self.read(r0, (p0 + tuple(path[1:]))[:DEPTH])
                        return self.const_atoms(cop)
                root, ap = self.resolve_place(arg['pl'])
                out = self.read(root, ap + path)
                for ex in self._alias_extra.get(arg['pl']['l'], []):
                    out |= self.read_place(ex['pl'])
                for p in arg['pl'].get('p', []):
                    if p['k'] == 'index':
                        r2, p2 = self.base(p['l'])
                        out |= self.read(r2, p2)
                return out
            return self.const_atoms(arg)
        if a[0] in LABELS:
            return {compose(a[0], x) for x in self._inst_atom(a[1], args)}
        if a[0] in ('len', 'narrow'):
            inner = self._inst_atom(a[1], args)
            return {(a[0], x) if x[0] not in ('len', 'narrow') or a[0] == 'narrow' else x for x in inner} \
                if a[0] == 'len' else {('narrow', x[1] if x[0] in ('len', 'narrow') else x) for x in inner}
        return {a}

    def _xfer_assign(self, s):
        rv = s['rv']
        k = rv['k']
        dst = s['dst']
        if k == 'use':
            if rv['op']['k'] in ('copy', 'move'):
                return self._copy_place(dst, rv['op']['pl'])
            return self.write_place(dst, self.read_op(rv['op']))
        if k in ('ref', 'rawptr'):
            return self._copy_place(dst, rv['pl'])
        if k == 'cast':
            at = self.read_op(rv['op'])
            if rv['ck'] == 'IntToInt':
                # narrowing?
                src_ty = None
                if rv['op']['k'] in ('copy', 'move'):
                    src_ty = self.body.local_ty(rv['op']['pl']['l']) if not rv['op']['pl'].get('p') else None
                sb = INT_BITS.get(src_ty or '', 64)
                db = INT_BITS.get(rv['ty'], 64)
                if db < sb:
                    at = {('narrow', a[1]) if a[0] == 'len' else a for a in at}
            if rv['op']['k'] in ('copy', 'move') and rv['ck'].startswith('PointerCoercion'):
                return self._copy_place(dst, rv['op']['pl'])
            return self.write_place(dst, at)
        if k == 'binop':
            at = self.read_op(rv['a']) | self.read_op(rv['b'])
            if self.eng.modular and not rv['op'].startswith(('Add', 'Sub', 'Mul')):
                at = {compose('nr', a) for a in at}
            if rv['op'] in NARROW_BINOPS:
                at = {('narrow', a[1]) if a[0] == 'len' else a for a in at}
            return self.write_place(dst, at)
        if k == 'unop':
            at = self.read_op(rv['a'])
            if rv['op'] == 'PtrMetadata':
                at = {('len', a) if a[0] not in ('len', 'narrow') else a for a in at}
            return self.write_place(dst, at)
        if k == 'discr':
            return self.write_place(dst, self.read_place(rv['pl']))
        if k == 'repeat':
            return self.write_place(dst, self.read_op(rv['op']))
        if k == 'agg':
            ch = False
            if self.is_alias_local(dst):
                return False
            root, path = self.resolve_place(dst)
            name = rv['name'] + '::' + rv['variant'] if rv['ak'] == 'adt' else ''
            transparent = name.startswith(TRANSPARENT_ADT_PREFIX)
            for i, o in enumerate(rv['ops']):
                if rv['ak'] == 'adt' and not transparent and i < len(rv['fields']):
                    fp = path + (rv['fields'][i],)
                elif rv['ak'] in ('tuple', 'closure'):
                    fp = path + (str(i),)
                else:
                    fp = path
                if o['k'] in ('copy', 'move'):
                    ch |= self._copy_to(root, fp, o['pl'])
                else:
                    ch |= self.write(root, fp, self.read_op(o))
            return ch
        if k == 'tlsref':
            return self.write_place(dst, {('s', rv['def'])})
        return False

    def _copy_place(self, dst, src):
        if self.is_alias_local(dst):
            return False
        root, path = self.resolve_place(dst)
        ch = self._copy_to(root, path, src)
        for r in self._through_mut(dst, root):
            ch |= self._copy_to(r, (), src)
        return ch

    def _copy_to(self, root, path, src):
        """copy node `src` (with its recorded sub-paths) to (root, path)."""
        sroot, spath = self.resolve_place(src)
        if (sroot, spath) == (root, tuple(path[:DEPTH])):
            return False
        ch = False
        # sub-paths recorded under the source keep their relative position
        for (r, q), atoms in list(self.val.items()):
            if r == sroot and len(q) > len(spath) and q[:len(spath)] == spath:
                ch |= self.write(root, tuple(path) + q[len(spath):], atoms)
        base = set()
        if self.is_param(sroot):
            base.add(('p', sroot, spath))
        for (r, q), atoms in self.val.items():
            if r == sroot and q == spath[:len(q)]:
                base |= atoms
        for p in src.get('p', []):
            if p['k'] == 'index':
                r2, p2 = self.base(p['l'])
                base |= self.read(r2, p2)
        for ex in self._alias_extra.get(src['l'], []):
            base |= self.read_place(ex['pl'])
        ch |= self.write(root, path, base)
        return ch

    def _solve(self):
        b = self.body
        work = True
        rounds = 0
        while work and rounds < 60:
            work = False
            rounds += 1
            for bi, blk in enumerate(b.blocks):
                if blk['cleanup']:
                    continue
                for s in blk['stmts']:
                    if s['k'] == 'assign':
                        work |= self._xfer_assign(s)
                t = blk['term']
                if t['k'] == 'call':
                    work |= self._xfer_call(t)

    # ------------------------------------------------------------ summary
    def make_summary(self):
        ret = {}
        mut = {}
        for (r, q), atoms in self.val.items():
            if r == 0:
                ret.setdefault(q, set()).update(atoms)
            elif self.is_param(r):
                ty = self.body.local_ty(r)
                if ty.startswith('&mut ') or ty.startswith('std::vec::Vec') or True:
                    if ty.startswith('&mut '):
                        mut.setdefault(r, {}).setdefault(q, set()).update(atoms)
        return {'ret': ret, 'mut': mut, 'alias': self.ret_alias()}

    def ret_alias(self):
        """(param, path) if the function returns (a reference to / a copy of) exactly that part of a parameter
        on its only returning path (accessor functions)."""
        ds = self.defs.get(0, [])
        rty = self.body.local_ty(0)
        wrapped = rty.startswith(('std::result::Result<&', 'std::option::Option<&'))
        if wrapped:
            # ignore the failure arms (`Err(..)` / `None`)
            ds = [d for d in ds if not (d[0] == 'assign' and d[2]['rv']['k'] == 'agg' and d[2]['rv'].get('variant') in ('Err', 'None'))]
        if len(ds) != 1 or not (rty.startswith('&') or wrapped):
            return None
        kind, bi, x = ds[0]
        if kind != 'assign' or x['dst'].get('p'):
            return None
        rv = x['rv']
        src = None
        if rv['k'] == 'use' and rv['op']['k'] in ('copy', 'move'):
            src = rv['op']['pl']
        elif rv['k'] == 'ref':
            src = rv['pl']
        elif wrapped and rv['k'] == 'agg' and rv.get('variant') in ('Ok', 'Some') and len(rv['ops']) == 1 and rv['ops'][0]['k'] in ('copy', 'move'):
            src = rv['ops'][0]['pl']
        if src is None or any(p['k'] == 'index' for p in src.get('p', [])):
            return None
        root, path = self.resolve_place(src)
        if self.is_param(root):
            return (root, path)
        return None


class Engine:
    def local_target(self, t):
        resolved = t.get('resolved') if t.get('resolved_kind') == 'item' else None
        if resolved and t.get('resolved_local') and resolved in self.prog.bodies:
            return resolved
        callee = t.get('callee')
        if callee and t.get('callee_local') and callee in self.prog.bodies and not t.get('trait'):
            return callee
        return None

    def __init__(self, prog, modular=False, sites=()):
        self.prog = prog
        self.sites = tuple(sites)   # callee name endings whose call sites become atoms of their results (see FnDep._xfer_call)
        self.modular = modular      # label every dependence on a parameter with how it treats residue classes (see `label_of`)
        self._fd = {}
        self._summ = {}
        self._inprogress = set()
        self._cia = {}
        self._modh = {}

    # the operations the audited shape of `divm(a, b, m)` = a / b mod m consists of: invert b; when that fails divide a, b and m by gcd(a, b, m)
    # and invert again; multiply and reduce.  gcd(a, b, m) and b / gcd mod (m / gcd) depend on b mod m only, which the label algebra cannot see
    # (gcd and exact division are not ring operations), so the helper is taken as a reduction of its first two arguments - but only while its
    # body consists of exactly these operations; any other body is analysed like every other function.
    DIVM_OPS = {'std::clone::Clone::clone', 'rug::Integer::invert_ref', 'std::option::Option::<T>::is_none', 'rug::Integer::gcd_ref', 'rug::Integer::gcd_mut',
                'rug::Integer::div_exact_ref', 'std::convert::From::from', 'std::option::Option::<T>::unwrap', 'std::ops::Mul::mul', 'std::ops::Rem::rem',
                'core::panicking::panic_fmt', 'std::fmt::Arguments::<\'a>::from_str', 'std::fmt::Arguments::<\'a>::new_const'}

    def modular_helper(self, path):
        if path in self._modh:
            return self._modh[path]
        ok = False
        b = self.prog.bodies.get(path)
        if b is not None and path.split('::')[-1] == 'divm' and b.arg_count == 3:
            cs = {t.get('callee') or '' for bi, t in b.calls()}
            ok = cs <= self.DIVM_OPS and {'rug::Integer::invert_ref', 'std::ops::Rem::rem'} <= cs
        self._modh[path] = ok
        return ok

    def fndep(self, path):
        if path in self._fd:
            return self._fd[path]
        body = self.prog.bodies.get(path)
        if body is None:
            return None
        if path in self._inprogress:
            return None
        self._inprogress.add(path)
        fd = FnDep(self, body)
        self._inprogress.discard(path)
        self._fd[path] = fd
        return fd

    def summary(self, path):
        if path in self._summ:
            return self._summ[path]
        fd = self.fndep(path)
        if fd is None:
            return None  # recursion or missing: caller treats as external
        s = fd.make_summary()
        self._summ[path] = s
        return s

    def closure_internal_atoms(self, path):
        """all non-parameter atoms used anywhere inside a closure body (constants, assoc consts, origins)."""
        if path in self._cia:
            return self._cia[path]
        self._cia[path] = set()
        fd = self.fndep(path)
        out = set()
        if fd is not None:
            for atoms in fd.val.values():
                for a in atoms:
                    if strip(a)[0] != 'p':
                        out.add(a)
        self._cia[path] = out
        return out


def strip(a):
    while a[0] in ('len', 'narrow', 'nr', 'mod', 'h'):
        a = a[1]
    return a


# ---------------------------------------------------------------------------------- representative labels (Engine(prog, modular=True) only)
# How a value depends on a parameter when the parameter stands for a residue class:
#   bare atom      R  through ring operations only (+, -, *, copies): v mod n is a function of x mod n, v itself is not
#   ('nr', atom)   N  through some other operation (an exponent, a division, a conversion, a comparison ..): v depends on the representative of x
#   ('mod', atom)  M  through a reduction (`% n`, the base of pow_mod, invert) applied to a ring expression: v depends on x mod n only
#   ('h', atom)    H  through a digest: v depends on the representative, and only by way of the hash
# M, H are sticky; a reduction only turns R into M.
LABELS = ('nr', 'mod', 'h')


def label_of(a):
    """'R' | 'N' | 'M' | 'H' for an atom of the modular engine (lengths count as N)"""
    if a[0] == 'mod':
        return 'M'
    if a[0] == 'h':
        return 'H'
    if a[0] in ('nr', 'len', 'narrow'):
        return 'N'
    return 'R'


def compose(outer, a):
    """the atom `a` seen through a dependence labelled `outer` ('nr' | 'mod' | 'h' | None)"""
    if outer is None or strip(a)[0] != 'p' or a[0] in ('len', 'narrow'):
        return a
    if a[0] == 'mod' or a[0] == 'h':
        return a
    if a[0] == 'nr':
        return ('h', a[1]) if outer == 'h' else a
    return (outer, a)


def rewrap(orig, atoms):
    """atoms substituted for the base of `orig`, seen through the labels `orig` carried"""
    outs = []
    a = orig
    while a[0] in ('len', 'narrow', 'nr', 'mod', 'h'):
        if a[0] in LABELS:
            outs.append(a[0])
        a = a[1]
    if not outs:
        return set(atoms)
    out = set(atoms)
    for o in reversed(outs):
        out = {compose(o, x) for x in out}
    return out


MOD_ABSORB0 = ('rug::Integer::pow_mod', 'rug::Integer::pow_mod_ref', 'rug::Integer::pow_mod_mut', 'rug::Integer::secure_pow_mod',
               'rug::Integer::secure_pow_mod_ref', 'rug::Integer::secure_pow_mod_mut', 'rug::Integer::invert', 'rug::Integer::invert_ref',
               'rug::Integer::invert_mut', 'rug::Integer::modulo', 'rug::Integer::modulo_ref', 'rug::Integer::modulo_mut',
               'std::ops::Rem::rem', 'std::ops::RemAssign::rem_assign', 'rug::ops::RemRounding::rem_euc', 'rug::ops::RemRounding::rem_floor')
MOD_RING = ('std::ops::Add::add', 'std::ops::Sub::sub', 'std::ops::Mul::mul', 'std::ops::Neg::neg', 'std::ops::AddAssign::add_assign',
            'std::ops::SubAssign::sub_assign', 'std::ops::MulAssign::mul_assign', 'rug::Complete::complete', 'std::clone::Clone::clone',
            'std::convert::From::from', 'std::convert::Into::into', 'std::borrow::ToOwned::to_owned', 'rug::Assign::assign',
            'rug::ops::NegAssign::neg_assign', 'std::iter::Sum::sum', 'std::iter::Product::product')


def modular_class(t):
    name = t.get('callee') or ''
    if name in MOD_ABSORB0:
        return 'absorb'
    if name.startswith(('digest::', 'sha2::', 'sha3::')) or '::Digest::' in name or name.endswith(('Update::update', 'Update::chain')):
        return 'hash'
    if name in MOD_RING or name in ALIAS_CALLS:
        return 'ring'
    return 'other'


def covers(atoms, req):
    """does the atom set contain parameter atom `req` = ('p',k,path) (prefix-compatible)?"""
    for a in atoms:
        a = strip(a)
        if a[0] == 'p' and req[0] == 'p' and a[1] == req[1]:
            q, path = a[2], req[2]
            if q == path[:len(q)] or path == q[:len(path)]:
                return True
        elif a == req:
            return True
    return False


def fmt_atom(body, a):
    if a[0] == 'p':
        s = body.local_name(a[1]) if body is not None else 'p%d' % a[1]
        return s + ''.join('.' + x for x in a[2])
    if a[0] in ('len', 'narrow', 'nr', 'mod', 'h'):
        return '%s(%s)' % (a[0], fmt_atom(body, a[1]))
    if a[0] == 'a':
        return a[1].split('::')[-1]
    return '%s:%s' % (a[0], a[1])


def fmt_atoms(body, atoms):
    return sorted(fmt_atom(body, a) for a in atoms)


if __name__ == '__main__':
    import sys
    prog = Program(sys.argv[1])
    eng = Engine(prog)
    for b in prog.find(sys.argv[2]):
        fd = eng.fndep(b.path)
        print('==', b.path)
        for (r, q), atoms in sorted(fd.val.items()):
            print('  %s%s <= %s' % (b.local_name(r), ''.join('.' + x for x in q), fmt_atoms(b, atoms)))
        print('  SUMMARY', {k: {kk: fmt_atoms(b, vv) for kk, vv in v.items()} if k == 'ret' else v for k, v in eng.summary(b.path).items()})
