"""A2: control-dependence gates of accept sites, must-flow of ingredients into hashed buffers,
and the context-sensitive call-tree walk (entry point -> frames) used to lift facts to entry terms."""
from dep import Engine, FnDep, strip, DEPTH, ALIAS_CALLS, fmt_atoms, fmt_atom, rewrap
from mir import fmt_term, fmt_op

CMP_BINOPS = ('Eq', 'Ne', 'Lt', 'Le', 'Gt', 'Ge')

# external calls that are transparent w.r.t. "did the inner operation succeed"
PASS_THROUGH = (
    'std::ops::Try::branch', 'std::result::Result::<T, E>::map_err', 'std::result::Result::<T, E>::is_ok',
    'std::result::Result::<T, E>::is_err', 'std::option::Option::<T>::is_some', 'std::option::Option::<T>::is_none',
    'std::option::Option::<T>::ok_or', 'std::option::Option::<T>::ok_or_else', 'std::convert::Into::into',
    'std::convert::From::from', 'std::result::Result::<T, E>::ok', 'std::result::Result::<T, E>::map',
    'std::option::Option::<T>::map', 'std::ops::Not::not', 'std::result::Result::<T, E>::and_then',
    'std::option::Option::<T>::as_ref', 'std::result::Result::<T, E>::as_ref',
)


class Gate:
    """one condition an accept site is control dependent on."""
    __slots__ = ('kind', 'what', 'operands', 'fn', 'block', 'line', 'callee', 'args', 'edge', 'const_ops', 'truth', 'negated', 'dom', 'param', 'quant', 'chain', 'targs', 'tcall', 'oargs')

    def __init__(self, kind, what, operands, fn, block, line, callee=None, args=None, edge=None, const_ops=None):
        self.kind = kind          # 'cmp' | 'call' | 'deleg' | 'match' | 'opaque'
        self.what = what          # operator / callee name
        self.operands = operands  # list of atom sets (own-function terms until lifted)
        self.fn = fn
        self.block = block
        self.line = line
        self.callee = callee
        self.args = args
        self.oargs = args     # the operands of the call in the function `fn` (kept when the gate is restated in a caller's terms)
        self.edge = edge
        self.const_ops = const_ops or []
        self.dom = False      # the edge the accept site depends on dominates it (every path to the accept passes this check); 'loop' = the check
                              # sits in a loop the accept site comes after, and every iteration passes it (a per-item check)
        self.truth = None     # which way the condition evaluated on the edge the accept site depends on
        self.negated = False  # an odd number of `!` between the classified operation and the switch
        self.param = None     # the switch inspects a Result / Option that is a parameter of this function (decided by the caller's argument)
        self.quant = None     # this test is the body of a quantified predicate (`any` / `all` / `find` / `position`): the quantifier's callee
        self.chain = None     # 'or' / 'and' for the parts of a short-circuit chain held in a variable (`a || b`, `a && b`)
        self.targs = None     # deleg: the type arguments of the call (a generic callee's trait calls on its type parameters resolve through them)
        self.tcall = None     # call: (trait, method) of a call to a local trait's method on a type parameter, not resolvable inside the generic body

    def all_atoms(self):
        out = set()
        for o in self.operands:
            out |= o
        return out

    def describe(self, body=None):
        return '%s %s @%s:L%s' % (self.kind, self.what, self.fn.split('::')[-1], self.line)


def _array_literal_of(fd, op, depth=0):
    """operands of the array literal an operand refers to (through borrows, copies and unsizing casts), or None"""
    if op is None or op.get('k') not in ('copy', 'move') or depth > 8:
        return None
    if any(q['k'] != 'deref' for q in op['pl'].get('p', [])):
        return None
    ds = [d for d in fd.defs.get(op['pl']['l'], []) if not d[2].get('dst', {}).get('p')]
    if len(ds) != 1 or ds[0][0] != 'assign':
        return None
    rv = ds[0][2]['rv']
    if rv['k'] == 'agg' and rv.get('ak') == 'array':
        return rv['ops']
    if rv['k'] in ('use', 'cast') and rv['op']['k'] in ('copy', 'move'):
        return _array_literal_of(fd, rv['op'], depth + 1)
    if rv['k'] in ('ref', 'rawptr'):
        return _array_literal_of(fd, {'k': 'copy', 'pl': rv['pl']}, depth + 1)
    return None


SEQ_PASS = ('core::slice::<impl [T]>::iter', 'std::iter::IntoIterator::into_iter', 'std::iter::Iterator::copied', 'std::iter::Iterator::cloned',
            'std::iter::Iterator::by_ref', 'std::ops::Deref::deref', 'std::vec::Vec::<T, A>::as_slice', 'core::array::<impl [T; N]>::iter',
            'core::array::<impl [T; N]>::as_slice', 'core::array::<impl [T; N]>::each_ref')


class Part(set):
    """the atoms of one item of a sequence put together from separate values; `op` = the operand it was listed as (same function), so that a
    test of one field of the item can be read field by field"""
    op = None


def _part_read(fd, part, path):
    """what a predicate's parameter path reads when the parameter stands for this item"""
    op = getattr(part, 'op', None)
    if op is not None and path and op.get('k') in ('copy', 'move'):
        root, pp = fd.resolve_place(op['pl'])
        r = fd.read(root, tuple(pp) + tuple(path))
        if r:
            return r
    return part


def _seq_parts(eng, fd, op, depth=0):
    """the items of a sequence operand put together from separate values, in order: an array literal `[a, b, c]`, `x.chain(y)`, `once(v)`,
    views of those (borrows, unsizing, `iter`, `into_iter`, `copied` ...) and such a sequence returned by a local helper (instantiated at the
    call).  One atom set per part; a part that is itself a container (`list.iter()`) stands for each of its elements.  None when the operand is
    not of that shape (one container: the caller keeps its own reading)."""
    if op is None or op.get('k') not in ('copy', 'move') or depth > 10:
        return None
    if any(q['k'] != 'deref' for q in op['pl'].get('p', [])):
        return None
    l = op['pl']['l']
    if fd.is_param(l):
        return None
    ds = [d for d in fd.defs.get(l, []) if not d[2].get('dst', {}).get('p')]
    if len(ds) != 1:
        return None
    kind, _bi, x = ds[0]

    def whole(o):
        r = _seq_parts(eng, fd, o, depth + 1)
        return r if r is not None else [set(fd.read_op(o))]
    if kind == 'assign':
        rv = x['rv']
        if rv['k'] == 'agg' and rv.get('ak') == 'array':
            out = []
            for o in rv['ops']:
                pt = Part(fd.read_op(o))
                pt.op = o
                out.append(pt)
            return out
        if rv['k'] in ('use', 'cast') and rv['op']['k'] in ('copy', 'move'):
            return _seq_parts(eng, fd, rv['op'], depth + 1)
        if rv['k'] in ('ref', 'rawptr'):
            return _seq_parts(eng, fd, {'k': 'copy', 'pl': rv['pl']}, depth + 1)
        return None
    if kind != 'call':
        return None
    cal = x.get('callee') or ''
    args = x['args']
    if cal == 'std::iter::Iterator::chain' and len(args) == 2:
        return whole(args[0]) + whole(args[1])
    if cal in ('std::iter::once', 'core::iter::once') and args:
        return [set(fd.read_op(args[0]))]
    if cal in SEQ_PASS and args:
        return _seq_parts(eng, fd, args[0], depth + 1)
    tgt = local_target(eng, x)
    if tgt is not None and tgt != fd.body.path and depth < 6:
        cfd = eng.fndep(tgt)
        if cfd is None:
            return None
        sub = _seq_parts(eng, cfd, {'k': 'copy', 'pl': {'l': 0}}, depth + 3)
        if sub is None:
            return None
        out = []
        for part in sub:
            inst = set()
            for a in part:
                inst |= fd._inst_atom(a, args)
            out.append(inst)
        return out
    return None


def _targs_of_path(full, base):
    """type arguments written after a function path: `m::f::<A, B<C>>` -> ['A', 'B<C>']"""
    if not full.startswith(base + '::<') or not full.endswith('>'):
        return None
    inner, out, depth, cur = full[len(base) + 3:-1], [], 0, ''
    for ch in inner:
        if ch in '<([':
            depth += 1
        elif ch in '>)]':
            depth -= 1
        if ch == ',' and depth == 0:
            out.append(cur.strip())
            cur = ''
        else:
            cur += ch
    if cur.strip():
        out.append(cur.strip())
    return out


class Frame:
    def __init__(self, eng, path, parent=None, call=None):
        self.eng = eng
        self.path = path
        self.fd = eng.fndep(path)
        self.body = self.fd.body
        self.parent = parent
        self.call = call  # the call terminator in the parent

    def lift(self, atoms):
        """atoms in this frame's own-parameter terms -> atoms in entry terms."""
        if self.parent is None:
            return set(atoms)
        out = set()
        for a in atoms:
            s = strip(a)
            if s[0] == 'p':
                out |= self.parent.lift(self.parent.fd._inst_atom(a, self.call['args']))
            else:
                out.add(a)
        return out

    def chain(self):
        c = []
        f = self
        while f is not None:
            c.append(f.path)
            f = f.parent
        return list(reversed(c))

    def depth(self):
        return len(self.chain())


def local_target(eng, t):
    """the local body a call terminator resolves to (or None)."""
    resolved = t.get('resolved') if t.get('resolved_kind') == 'item' else None
    if resolved and t.get('resolved_local') and resolved in eng.prog.bodies:
        return resolved
    callee = t.get('callee')
    if callee and t.get('callee_local') and callee in eng.prog.bodies and not t.get('trait'):
        return callee
    return None


def walk(eng, entry, max_depth=12, include_closures=True):
    """yield Frames for entry and everything reachable through resolved local calls (context sensitive).
    Closure bodies are visited as children of the function that creates them (no parameter binding)."""
    root = Frame(eng, entry)
    stack = [root]
    while stack:
        fr = stack.pop()
        yield fr
        if fr.depth() >= max_depth:
            continue
        for bi, t in fr.body.calls():
            tgt = local_target(eng, t)
            if tgt is not None and tgt not in fr.chain():
                stack.append(Frame(eng, tgt, fr, t))
        if include_closures:
            for cb in eng.prog.closures_of(fr.path):
                if cb.path.count('{closure') == fr.path.count('{closure') + 1:
                    stack.append(ClosureFrame(eng, cb.path, fr))


class ClosureFrame(Frame):
    """closure body visited in the context of its creator; captures (`_1.k`) are lifted to the creator's
    capture operands, other parameters are opaque (lift to nothing)."""

    def __init__(self, eng, path, parent):
        Frame.__init__(self, eng, path, parent, None)
        self.caps = None
        for l, rv in parent.fd.closure_aggs.items():
            if rv['name'] == path:
                self.caps = rv['ops']
        # a closure handed to an iterator adaptor: its argument is an element of what the receiver iterates
        self.elem_src = None
        for bi, t in parent.body.calls():
            if (t.get('callee') or '').startswith('std::iter::Iterator::') and len(t['args']) >= 2:
                for a in t['args'][1:]:
                    if a['k'] in ('copy', 'move') and not a['pl'].get('p'):
                        ci = parent.fd._closure_info(a['pl']['l'])
                        if ci is not None and ci[0] == path:
                            self.elem_src = t['args'][0]

    def lift(self, atoms):
        out = set()
        for a in atoms:
            s = strip(a)
            if s[0] == 'p':
                if s[1] == 1 and self.caps is not None and s[2]:
                    try:
                        idx = int(s[2][0])
                    except ValueError:
                        idx = None
                    if idx is not None and idx < len(self.caps):
                        inner = self.parent.fd.read_op(self.caps[idx])
                        out |= self.parent.lift(inner)
                elif s[1] == 1 and self.caps is not None:
                    for c in self.caps:
                        out |= self.parent.lift(self.parent.fd.read_op(c))
                elif s[1] >= 2 and self.elem_src is not None:
                    out |= self.parent.lift(self.parent.fd.read_op(self.elem_src))
            else:
                out.add(a)
        return out


# ------------------------------------------------------------------------ gates
def single_def(fd, l):
    ds = fd.defs.get(l, [])
    if len(ds) == 1:
        return ds[0]
    return None


def classify_switch(eng, fd, bi):
    """classify the condition of the switch terminating block bi into a Gate (own-function terms)."""
    body = fd.body
    t = body.blocks[bi]['term']
    discr = t['discr']
    line = t.get('line')
    if discr['k'] not in ('copy', 'move'):
        return Gate('opaque', 'const', [], body.path, bi, line)
    return _classify_value(eng, fd, discr['pl'], bi, line, 0)


def _payload_gate(eng, fd, call, bi, line, depth):
    """the switch inspects the *value* carried by Ok(..) / Some(..) of a local call (`match check()? { true => .. }`, `Ok(true) => ..`): the
    condition is whatever the callee computes that value from.  Returns a `multi` gate of the classified payload operands, lifted to this body."""
    tgt = local_target(eng, call)
    cfd = eng.fndep(tgt) if tgt else None
    if cfd is None or depth > 6:
        return None
    subs = []
    for cbi, blk in enumerate(cfd.body.blocks):
        if blk['cleanup']:
            continue
        for st in blk['stmts']:
            if st['k'] == 'assign' and st['dst']['l'] == 0 and not st['dst'].get('p') and st['rv']['k'] == 'agg' and st['rv'].get('variant') in ('Ok', 'Some') \
                    and st['rv']['ops'] and st['rv']['ops'][0]['k'] in ('copy', 'move'):
                g = _classify_value(eng, cfd, st['rv']['ops'][0]['pl'], cbi, st.get('line', line), depth + 1)
                stack = [g]
                while stack:
                    g2 = stack.pop()
                    if g2.kind == 'multi':
                        stack.extend(g2.args or [])
                        continue
                    ops = []
                    for o in g2.operands:
                        oo = set()
                        for a in o:
                            oo |= fd._inst_atom(a, call['args'])
                        ops.append(oo)
                    ng = Gate(g2.kind, g2.what, ops, g2.fn, g2.block, g2.line, g2.callee, g2.args if g2.kind == 'deleg' else None, None, g2.const_ops)
                    ng.oargs = g2.oargs
                    if g2.kind != 'deleg':
                        subs.append(ng)
    if not subs:
        return None
    g = Gate('multi', 'payload-of:' + tgt, [set().union(*[x.all_atoms() for x in subs])], fd.body.path, bi, line)
    g.args = subs
    return g


def _tuple_member(fd, pl):
    """`(_t.k)..` where `_t = (a, b, ..)` was put together in this body (`match (f(x), g(y)) { (Ok(a), Ok(b)) => .. }`): the same place on the member"""
    ps = pl.get('p') or []
    if not ps or ps[0]['k'] != 'field' or not str(ps[0]['n']).isdigit() or fd.is_param(pl['l']):
        return pl
    ds = [d for d in fd.defs.get(pl['l'], []) if not d[2].get('dst', {}).get('p')]
    if len(ds) == 1 and ds[0][0] == 'assign' and ds[0][2]['rv']['k'] == 'agg' and ds[0][2]['rv'].get('ak') == 'tuple':
        ops = ds[0][2]['rv']['ops']
        k = int(ps[0]['n'])
        if k < len(ops) and ops[k]['k'] in ('copy', 'move'):
            return {'l': ops[k]['pl']['l'], 'p': list(ops[k]['pl'].get('p') or []) + list(ps[1:])}
    return pl


def _classify_value(eng, fd, pl, bi, line, depth, payload=False, _def=None):
    body = fd.body
    if _def is None:
        pl = _tuple_member(fd, pl)
    l = pl['l']
    if depth > 12:
        return Gate('opaque', 'deep', [fd.read_place(pl)], body.path, bi, line)
    # is the inspected value the payload of a Result / Option (and not its discriminant)?
    pf = [p for p in pl.get('p', []) if p['k'] == 'field' and str(p.get('adt', '')).startswith(('std::result', 'std::option', 'std::ops::ControlFlow'))]
    if pf and str(pf[-1].get('ty', '')) in ('bool', 'usize', 'u64', 'u32', 'u8'):
        payload = True
    if fd.is_param(l) and all(p['k'] in ('deref', 'downcast') for p in pl.get('p', [])) and \
            (body.local_ty(l).lstrip('&').startswith(('std::result::Result<', 'std::option::Option<')) or body.local_ty(l).lstrip('&').strip() == 'bool'):
        # a Result / Option / bool handed in by the caller (`from_parsed(parse(..))`, `ensure(cond, || err)?`): decided by the caller's argument
        g = Gate('match', 'param', [fd.read_place(pl)], body.path, bi, line)
        g.param = l
        return g
    d = _def if _def is not None else single_def(fd, l) if not pl.get('p') or all(p['k'] in ('deref', 'downcast') or
                                                    (p['k'] == 'field' and p.get('adt', '').startswith(('std::result', 'std::option', 'std::ops::ControlFlow')))
                                                    for p in pl.get('p', [])) else None
    if d is None:
        # a bool assigned on several paths (`a() && b()`): every local call feeding it is a delegated check
        if body.local_ty(l) == 'bool' and not pl.get('p') and not fd.is_param(l):
            subs = []
            for kind2, dbi2, x2 in fd.defs.get(l, []):
                if kind2 == 'call':
                    tgt2 = local_target(eng, x2)
                    if tgt2 is not None:
                        subs.append(Gate('deleg', tgt2, [fd.read_op(a) for a in x2['args']], body.path, bi, x2.get('line', line), callee=tgt2, args=x2['args']))
                        subs[-1].targs = x2.get('targs')
                    elif (x2.get('callee') or '') in PASS_THROUGH and x2['args'] and x2['args'][0]['k'] in ('copy', 'move') and depth < 10:
                        subs.append(_classify_value(eng, fd, x2['args'][0]['pl'], bi, x2.get('line', line), depth + 1))      # bool::from(ct_choice) ...
                    elif depth < 10:
                        # one operand of the chain computed by a library call (`.. || list.iter().any(|m| ..)`): classified like a value of its own
                        subs.append(_classify_value(eng, fd, {'l': l}, bi, x2.get('line', line), depth + 1, False, _def=(kind2, dbi2, x2)))
                    else:
                        subs.append(Gate('call', x2.get('callee') or '?', [fd.read_op(a) for a in x2['args']], body.path, bi, x2.get('line', line),
                                         callee=x2.get('callee'), args=x2['args']))
                elif kind2 == 'assign' and x2['rv']['k'] == 'use' and x2['rv']['op']['k'] in ('copy', 'move') and depth < 10:
                    subs.append(_classify_value(eng, fd, x2['rv']['op']['pl'], bi, line, depth + 1))
                elif kind2 == 'assign' and x2['rv']['k'] == 'binop' and x2['rv']['op'] in CMP_BINOPS:
                    subs.append(Gate('cmp', x2['rv']['op'], [fd.read_op(x2['rv']['a']), fd.read_op(x2['rv']['b'])], body.path, bi, x2.get('line', line),
                                     args=[x2['rv']['a'], x2['rv']['b']]))
            # implicit flow: the conditions under which each definition executes (`a() && b()` assigns b() only if a())
            if depth < 6:
                seen_sw = set()
                def _is_const_def(d_):
                    return d_[0] == 'assign' and d_[2]['rv']['k'] == 'use' and d_[2]['rv']['op']['k'] == 'const'
                # (the definitions that carry a computed value first: the conditions they run under are what the value `true` of `a && b` - the
                # value `false` of `a || b` - went through)
                for kind2, dbi2, x2 in sorted(fd.defs.get(l, []), key=lambda d_: _is_const_def(d_)):
                    for (a_sw, s_sw) in body.control_deps_transitive(dbi2):
                        if a_sw in seen_sw or a_sw == bi:
                            continue
                        seen_sw.add(a_sw)
                        tsw = body.blocks[a_sw]['term']
                        if tsw['k'] == 'switch' and tsw['discr']['k'] in ('copy', 'move') and tsw['discr']['pl']['l'] != l:
                            gs_ = _classify_value(eng, fd, tsw['discr']['pl'], a_sw, tsw.get('line'), depth + 1)
                            # the definition runs under this condition; when it can also be reached the other way (`a && b || c`: c's side
                            # of the `||` is reached with a false *or* b false) the condition's outcome is not fixed by the value
                            if not _is_const_def((kind2, dbi2, x2)) and not (body.dominates(s_sw, dbi2) and all(p_ == a_sw or body.dominates(s_sw, p_) for p_ in body.pred[s_sw])):
                                gs_.chain = 'mixed' if gs_.kind == 'multi' else 'unfixed'
                            subs.append(gs_)
            if subs:
                g = Gate('multi', 'bool-of-checks', [fd.read_place(pl)], body.path, bi, line)
                g.args = subs
                # `a || b` assigns `true` where it stops early, `a && b` assigns `false`: what the whole says about every part
                consts = {x2['rv']['op'].get('int') for kind2, dbi2, x2 in fd.defs.get(l, []) if kind2 == 'assign' and x2['rv']['k'] == 'use' and x2['rv']['op']['k'] == 'const'}
                if consts == {'1'}:
                    g.chain = 'or'
                elif consts == {'0'}:
                    g.chain = 'and'
                elif consts == {'0', '1'}:
                    g.chain = 'mixed'       # `a || b && c` held in one variable: the whole says nothing about a single part
                return g
        return Gate('match', 'value', [fd.read_place(pl)], body.path, bi, line)
    kind, dbi, x = d
    if kind == 'assign':
        rv = x['rv']
        if rv['k'] == 'binop' and rv['op'] in CMP_BINOPS:
            # `cond == false` / `cond != true` is `!cond`, `cond == true` / `cond != false` is `cond`: the condition itself is what is tested
            if rv['op'] in ('Eq', 'Ne') and depth < 12:
                for c_, v_ in ((rv['a'], rv['b']), (rv['b'], rv['a'])):
                    if c_['k'] == 'const' and c_.get('ty') == 'bool' and c_.get('int') in ('0', '1') and v_['k'] in ('copy', 'move'):
                        g = _classify_value(eng, fd, v_['pl'], bi, line, depth + 1)
                        if (rv['op'] == 'Eq') == (c_['int'] == '0'):
                            g.negated = not g.negated
                        return g
            consts = [o.get('int', o.get('disp')) for o in (rv['a'], rv['b']) if o['k'] == 'const']
            return Gate('cmp', rv['op'], [fd.read_op(rv['a']), fd.read_op(rv['b'])], body.path, bi, x.get('line', line),
                        args=[rv['a'], rv['b']], const_ops=consts)
        if rv['k'] == 'unop' and rv['op'] == 'Not' and rv['a']['k'] in ('copy', 'move'):
            g = _classify_value(eng, fd, rv['a']['pl'], bi, line, depth + 1)
            g.negated = not g.negated
            return g
        if rv['k'] == 'discr':
            return _classify_value(eng, fd, rv['pl'], bi, line, depth + 1)
        if rv['k'] in ('use',) and rv['op']['k'] in ('copy', 'move'):
            return _classify_value(eng, fd, rv['op']['pl'], bi, line, depth + 1, payload)
        if rv['k'] in ('ref',):
            return _classify_value(eng, fd, rv['pl'], bi, line, depth + 1, payload)
        return Gate('match', 'value', [fd.read_place(pl)], body.path, bi, line)
    if kind == 'call':
        callee = x.get('callee') or ''
        tgt = local_target(eng, x)
        if not callee and x.get('callee_op') is not None and x['callee_op'].get('k') in ('copy', 'move') and not x['callee_op']['pl'].get('p') and body.kind != 'Closure':
            # a call through a function-valued parameter (`parse(bytes)` with `parse: fn(&[u8]) -> Result<..>`): decided by the function the caller hands in
            l0 = x['callee_op']['pl']['l']
            for _ in range(4):
                if fd.is_param(l0):
                    break
                ds0 = [d_ for d_ in fd.defs.get(l0, []) if not d_[2].get('dst', {}).get('p')]
                if len(ds0) == 1 and ds0[0][0] == 'assign' and ds0[0][2]['rv']['k'] == 'use' and ds0[0][2]['rv']['op']['k'] in ('copy', 'move') and not ds0[0][2]['rv']['op']['pl'].get('p'):
                    l0 = ds0[0][2]['rv']['op']['pl']['l']
                else:
                    break
            if fd.is_param(l0):
                g = Gate('fnparam', 'function parameter %s called' % body.local_name(l0), [fd.read_op(a) for a in x['args']], body.path, bi, x.get('line', line), args=x['args'])
                g.param = l0
                return g
        if tgt is not None:
            if payload:
                pg = _payload_gate(eng, fd, x, bi, x.get('line', line), depth)
                if pg is not None:
                    return pg
            gd = Gate('deleg', tgt, [fd.read_op(a) for a in x['args']], body.path, bi, x.get('line', line),
                      callee=tgt, args=x['args'])
            gd.targs = x.get('targs')
            return gd
        if callee in PASS_THROUGH and x['args'] and x['args'][0]['k'] in ('copy', 'move'):
            return _classify_value(eng, fd, x['args'][0]['pl'], bi, line, depth + 1, payload and callee in ('std::ops::Try::branch', 'std::result::Result::<T, E>::map_err'))
        short = callee.split('::')[-1]
        # `iter.map(F).collect::<Result<_, _>>()` / try_fold / try_for_each: success means F succeeded on every item.  F given as a function
        # value is a delegation to that function (items standing for its argument); F given as a *parameter* is decided by the caller's argument.
        if callee in ('std::iter::Iterator::collect', 'std::iter::Iterator::try_for_each', 'std::iter::Iterator::sum', 'std::iter::Iterator::product') \
                and x['args'] and x['args'][0]['k'] in ('copy', 'move') and not x['args'][0]['pl'].get('p') and depth < 10:
            dm = fd.defs.get(x['args'][0]['pl']['l'], [])
            if len(dm) == 1 and dm[0][0] == 'call' and (dm[0][2].get('callee') or '') == 'std::iter::Iterator::map' and len(dm[0][2]['args']) == 2:
                m = dm[0][2]
                it, F = m['args'][0], m['args'][1]
                if F.get('k') == 'const' and F.get('fn') in eng.prog.bodies:
                    gd = Gate('deleg', F['fn'], [fd.read_op(it)], body.path, bi, x.get('line', line), callee=F['fn'], args=[it])
                    gd.targs = _targs_of_path(F.get('fn_full') or '', F['fn'])
                    return gd
                if F.get('k') in ('copy', 'move') and not F['pl'].get('p'):
                    r0 = fd.resolve_place(F['pl'])[0]
                    if fd.is_param(r0) and body.kind != 'Closure':
                        g = Gate('fnparam', 'function parameter %s applied to every item' % body.local_name(r0), [fd.read_op(it)], body.path, bi, x.get('line', line),
                                 args=[it])
                        g.param = r0
                        return g
        # `opt.map_or(false, bool::from)` / `.map_or(false, Into::into)`: the boolean is what the Option holds
        if callee.endswith(('Option::<T>::map_or', 'Option::<T>::is_some_and')) and len(x['args']) == 3 and x['args'][2].get('k') == 'const' \
                and (x['args'][2].get('fn') or '').endswith(('From::from', 'Into::into')) and x['args'][0]['k'] in ('copy', 'move') and depth < 10:
            return _classify_value(eng, fd, x['args'][0]['pl'], bi, line, depth + 1)
        # `items.map(|p| test(p)).reduce(|a, c| a | c)` (or fold): a disjunction (|, ||) of per-item tests is `any`, a conjunction (&, &&) is `all`
        if callee in ('std::iter::Iterator::reduce', 'std::iter::Iterator::fold') and x['args'] and x['args'][0]['k'] in ('copy', 'move') \
                and not x['args'][0]['pl'].get('p') and x['args'][-1]['k'] in ('copy', 'move') and not x['args'][-1]['pl'].get('p') and depth < 10:
            cmb = fd._closure_info(x['args'][-1]['pl']['l'])
            dm = fd.defs.get(x['args'][0]['pl']['l'], [])
            q = None
            if cmb is not None and cmb[0] in eng.prog.bodies:
                ops_ = [(t2.get('callee') or '') for _b, t2 in eng.prog.bodies[cmb[0]].calls()]
                bins = [s2['rv']['op'] for _b, s2 in eng.prog.bodies[cmb[0]].stmts() if s2['k'] == 'assign' and s2['rv']['k'] == 'binop']
                if (ops_ == ['std::ops::BitOr::bitor'] and not bins) or (not ops_ and bins == ['BitOr']):
                    q = 'std::iter::Iterator::any'
                elif (ops_ == ['std::ops::BitAnd::bitand'] and not bins) or (not ops_ and bins == ['BitAnd']):
                    q = 'std::iter::Iterator::all'
            if q is not None and len(dm) == 1 and dm[0][0] == 'call' and (dm[0][2].get('callee') or '') == 'std::iter::Iterator::map' and len(dm[0][2]['args']) == 2 \
                    and dm[0][2]['args'][1]['k'] in ('copy', 'move') and not dm[0][2]['args'][1]['pl'].get('p'):
                m = dm[0][2]
                ci = fd._closure_info(m['args'][1]['pl']['l'])
                cfd = eng.fndep(ci[0]) if ci is not None else None
                if cfd is not None:
                    per, _m = fd._arg_atoms_and_muts(m['args'])
                    whole = Gate('call', q, list(per), body.path, bi, x.get('line', line), callee=q, args=m['args'])
                    subs = [whole]
                    elem = fd.read_op(m['args'][0])
                    stack = [_classify_value(eng, cfd, {'l': 0}, bi, line, depth + 1)]
                    while stack:
                        g2 = stack.pop()
                        if g2.kind == 'multi':
                            stack.extend(g2.args or [])
                            continue
                        if g2.kind in ('opaque',):
                            continue
                        ops2 = []
                        for o in g2.operands:
                            oo = set()
                            for a in o:
                                st = strip(a)
                                if st[0] == 'p' and st[1] == 1:
                                    k = st[2][0] if st[2] else None
                                    if k is not None and str(k).isdigit() and int(k) < len(ci[1]):
                                        oo |= rewrap(a, fd.read_op(ci[1][int(k)]))
                                elif st[0] == 'p':
                                    oo |= rewrap(a, elem)
                                else:
                                    oo.add(a)
                            ops2.append(oo)
                        ng = Gate(g2.kind if g2.kind not in ('deleg', 'match') else 'call', g2.what if g2.kind != 'match' else (g2.what or 'value'), ops2, g2.fn, bi, line,
                                  g2.callee, None, None, g2.const_ops)
                        ng.oargs = g2.oargs
                        ng.quant = q
                        subs.append(ng)
                    g = Gate('multi', 'quantified:' + q.split('::')[-1], [whole.all_atoms()], body.path, bi, line)
                    g.args = subs
                    return g
        # quantified predicates over an iteration: besides the call itself (whose polarity the quantifier rules read), what the predicate tests
        if callee in ('std::iter::Iterator::any', 'std::iter::Iterator::all', 'std::iter::Iterator::find', 'std::iter::Iterator::position') and len(x['args']) == 2 \
                and x['args'][1]['k'] in ('copy', 'move') and not x['args'][1]['pl'].get('p') and depth < 10:
            ci = fd._closure_info(x['args'][1]['pl']['l'])
            cfd = eng.fndep(ci[0]) if ci is not None else None
            if cfd is not None and cfd.body.local_ty(0) == 'bool':
                per, _m = fd._arg_atoms_and_muts(x['args'])
                whole = Gate('call', callee, list(per), body.path, bi, x.get('line', line), callee=callee, args=x['args'])
                subs = [whole]
                # the items: one container, or a sequence put together from separate values (then the predicate is a test of each of them)
                elems = _seq_parts(eng, fd, x['args'][0]) or [fd.read_op(x['args'][0])]
                g0 = _classify_value(eng, cfd, {'l': 0}, bi, line, depth + 1)
                stack = [(g0, ())]
                while stack:
                    g2, inside = stack.pop()
                    if g2.kind == 'multi':
                        # parts of `a && b` / `a || b` in the predicate: what the predicate's verdict says about one part depends on the connective
                        stack.extend((g3_, inside + ((g2.chain,) if g2.chain else ())) for g3_ in (g2.args or []))
                        continue
                    if g2.kind in ('match', 'opaque'):
                        continue
                    if inside and g2.chain is None:
                        g2.chain = 'in:' + ','.join(inside)
                    if g2.kind == 'deleg' and getattr(eng, '_ga', None) is not None and depth < 6 and g2.callee in eng.prog.bodies:
                        # the predicate hands the item to a local function (`all(|side| Self::verify_of_square(side.proof, g, h, n))`): what
                        # that function's verdict depends on, first in the predicate's terms (when it has one way to succeed), then in ours
                        alts = eng._ga._lift_paths(cfd, g2.callee, g2.args, True, (body.path, cfd.body.path), want=(g2.truth is not False), targs=g2.targs) or []
                        if len(alts) == 1 and alts[0]:
                            stack.extend((g3, inside) for g3 in alts[0] if g3.kind != 'deleg')
                            continue
                    for elem in elems:
                        ops2 = []
                        for o in g2.operands:
                            oo = set()
                            for a in o:
                                st = strip(a)
                                if st[0] == 'p' and st[1] == 1:
                                    k = st[2][0] if st[2] else None
                                    if k is not None and str(k).isdigit() and int(k) < len(ci[1]):
                                        oo |= rewrap(a, fd.read_op(ci[1][int(k)]))
                                elif st[0] == 'p':
                                    oo |= rewrap(a, _part_read(fd, elem, st[2]))
                                else:
                                    oo.add(a)
                            ops2.append(oo)
                        ng = Gate(g2.kind if g2.kind != 'deleg' else 'call', g2.what, ops2, g2.fn, bi, line, g2.callee, None, None, g2.const_ops)
                        ng.oargs = g2.oargs
                        ng.quant = callee
                        if isinstance(g2.chain, str) and g2.chain.startswith('in:'):
                            ng.chain = g2.chain
                        subs.append(ng)
                g = Gate('multi', 'quantified:' + short, [whole.all_atoms()], body.path, bi, line)
                g.args = subs
                return g
        # `cond.then_some(v)` / `cond.then(|| v)`: Some exactly when the boolean is true
        if callee in ('core::bool::<impl bool>::then_some', 'core::bool::<impl bool>::then') and x['args'] and x['args'][0]['k'] in ('copy', 'move') and depth < 10:
            return _classify_value(eng, fd, x['args'][0]['pl'], bi, line, depth + 1)
        # Option / Result combinators that decide Some-ness from their parts
        if callee.startswith(('std::option::Option', 'std::result::Result')) and short in ('zip', 'and', 'filter', 'is_some_and', 'is_ok_and', 'and_then', 'then_some') \
                and x['args'] and x['args'][0]['k'] in ('copy', 'move') and depth < 10:
            subs = [_classify_value(eng, fd, x['args'][0]['pl'], bi, line, depth + 1)]
            if short in ('zip', 'and') and len(x['args']) > 1 and x['args'][1]['k'] in ('copy', 'move'):
                subs.append(_classify_value(eng, fd, x['args'][1]['pl'], bi, line, depth + 1))
            elif len(x['args']) > 1 and x['args'][1]['k'] in ('copy', 'move') and not x['args'][1]['pl'].get('p'):
                ci = fd._closure_info(x['args'][1]['pl']['l'])
                cfd = eng.fndep(ci[0]) if ci is not None else None
                if cfd is not None and cfd.body.local_ty(0) == 'bool':
                    # the predicate: what the closure's boolean is computed from, in this body's terms
                    elem = fd.read_op(x['args'][0])
                    g0 = _classify_value(eng, cfd, {'l': 0}, bi, line, depth + 1)
                    stack = [g0]
                    while stack:
                        g2 = stack.pop()
                        if g2.kind == 'multi':
                            stack.extend(g2.args or [])
                            continue
                        ops2 = []
                        for o in g2.operands:
                            oo = set()
                            for a in o:
                                st = strip(a)
                                if st[0] == 'p' and st[1] == 1:
                                    k = st[2][0] if st[2] else None
                                    if k is not None and str(k).isdigit() and int(k) < len(ci[1]):
                                        oo |= rewrap(a, fd.read_op(ci[1][int(k)]))
                                elif st[0] == 'p':
                                    oo |= rewrap(a, elem)
                                else:
                                    oo.add(a)
                            ops2.append(oo)
                        ng = Gate(g2.kind if g2.kind != 'deleg' else 'call', g2.what, ops2, g2.fn, bi, line, g2.callee, None, None, g2.const_ops)
                        ng.oargs = g2.oargs
                        ng.negated = g2.negated
                        subs.append(ng)
            g = Gate('multi', 'option-combinator:' + short, [set().union(*[q.all_atoms() for q in subs])], body.path, bi, line)
            g.args = subs
            return g
        # `a.cmp(&b) == Ordering::Less` / `x.cmp_abs(&n) != Ordering::Less`: the test is the ordering call itself (which way it has to come out is
        # in the constant it is compared with); classified as that call so that the rules see an order comparison of a with b
        if callee in ('std::cmp::PartialEq::eq', 'std::cmp::PartialEq::ne') and len(x['args']) == 2 and depth < 10:
            for a_ in x['args']:
                if a_['k'] not in ('copy', 'move'):
                    continue
                l_ = a_['pl']['l']
                for _ in range(4):
                    ds_ = [d_ for d_ in fd.defs.get(l_, []) if not d_[2].get('dst', {}).get('p')]
                    if len(ds_) != 1:
                        break
                    d_ = ds_[0]
                    if d_[0] == 'assign' and d_[2]['rv']['k'] in ('use', 'ref'):
                        src_ = d_[2]['rv'].get('pl') or d_[2]['rv'].get('op', {}).get('pl')
                        if src_ is None or any(q['k'] != 'deref' for q in src_.get('p', [])):
                            break
                        l_ = src_['l']
                        continue
                    if d_[0] == 'call' and (d_[2].get('callee') or '').endswith(('::cmp', '::cmp_abs', '::partial_cmp', '::cmp0', '::total_cmp')) \
                            and fd.body.local_ty(l_).endswith(('std::cmp::Ordering', 'std::option::Option<std::cmp::Ordering>')):
                        y = d_[2]
                        gc = Gate('call', y.get('callee'), [fd.read_op(o_) for o_ in y['args']], body.path, bi, x.get('line', line), callee=y.get('callee'), args=y['args'])
                        other = [o_ for o_ in x['args'] if o_ is not a_]
                        gc.const_ops = [str(c_[1]).split('::')[-1] for o_ in other for c_ in fd.read_op(o_) if c_[0] in ('c', 'a')]
                        if callee.endswith('::ne'):
                            gc.negated = True        # `!= Ordering::X`: the ordering call is "equal to X" the other way round
                        return gc
                    break
        ops = []
        for a in x['args']:
            ops.append(fd.read_op(a))
        # closures passed to iterator predicates: include what they read
        per, _ = fd._arg_atoms_and_muts(x['args'])
        if len(per) > len(ops):
            ops.append(per[-1])
        ops = [per[i] if i < len(per) else o for i, o in enumerate(ops)] + ops[len(x['args']):]
        gc = Gate('call', callee, ops, body.path, bi, x.get('line', line), callee=callee, args=x['args'])
        if x.get('trait') and x.get('callee_local') and not x.get('resolved'):
            gc.tcall = (x['trait'], callee.split('::')[-1])
        return gc
    return Gate('match', 'value', [fd.read_place(pl)], body.path, bi, line)


def accept_blocks(fd, want=True):
    """blocks that build the success value: `_0 = Ok(..)`, `_0 = Some(..)`, `_0 = true`, or `_0 = <local call>`
    (tail delegation).  Returns list of (block, kind, call_or_None).  With want=False (only meaningful for functions returning bool):
    the blocks that build `false` - used when a caller proceeds on the negative answer of a predicate (`if x.is_bad() { return Err }`)."""
    body = fd.body
    out = []
    ret_ty = body.local_ty(0)
    if not want:
        if ret_ty != 'bool':
            return []
        for bi, blk in enumerate(body.blocks):
            if blk['cleanup']:
                continue
            for s in blk['stmts']:
                if s['k'] == 'assign' and s['dst']['l'] == 0 and not s['dst'].get('p'):
                    rv = s['rv']
                    if rv['k'] == 'use' and rv['op']['k'] == 'const' and rv['op'].get('int') == '0':
                        out.append((bi, 'false', None))
                    elif rv['k'] == 'use' and rv['op']['k'] in ('copy', 'move'):
                        out.append((bi, 'boolvar', rv['op']['pl']))
                    elif rv['k'] == 'unop' and rv['op'] == 'Not' and rv['a']['k'] in ('copy', 'move'):
                        out.append((bi, 'boolvar', rv['a']['pl']))
                    elif rv['k'] == 'binop' and rv['op'] in CMP_BINOPS:
                        out.append((bi, 'boolret', ('assign', bi, s)))
            t = blk['term']
            if t['k'] == 'call' and t['dst']['l'] == 0 and not t['dst'].get('p') and 'panic' not in (t.get('callee') or ''):
                out.append((bi, 'tail', t))
        return out
    for bi, blk in enumerate(body.blocks):
        if blk['cleanup']:
            continue
        for s in blk['stmts']:
            if s['k'] == 'assign' and s['dst']['l'] == 0 and not s['dst'].get('p'):
                rv = s['rv']
                if rv['k'] == 'agg' and rv['ak'] == 'adt' and rv['variant'] in ('Ok', 'Some'):
                    out.append((bi, 'ok', None))
                elif rv['k'] == 'use' and rv['op']['k'] == 'const' and ret_ty == 'bool' and rv['op'].get('int') == '1':
                    out.append((bi, 'true', None))
                elif rv['k'] == 'use' and rv['op']['k'] in ('copy', 'move') and ret_ty == 'bool':
                    out.append((bi, 'boolvar', rv['op']['pl']))
                elif ret_ty == 'bool' and ((rv['k'] == 'binop' and rv['op'] in CMP_BINOPS) or (rv['k'] == 'unop' and rv['op'] == 'Not')):
                    # the verdict computed by the returning statement itself (`a.cmp0() != Less && m.significant_bits() <= bits`: the last operand)
                    out.append((bi, 'boolret', ('assign', bi, s)))
                elif rv['k'] == 'use' and rv['op']['k'] in ('copy', 'move') and not rv['op']['pl'].get('p'):
                    d = single_def(fd, rv['op']['pl']['l'])
                    if d is not None and d[0] == 'call':
                        cal = d[2].get('callee') or ''
                        if 'from_residual' not in cal:
                            out.append((bi, 'tail', d[2]))
                elif rv['k'] == 'agg' and rv['ak'] == 'adt' and not rv['name'].startswith(('std::result', 'std::option')):
                    out.append((bi, 'value', None))
        t = blk['term']
        if t['k'] == 'call' and t['dst']['l'] == 0 and not t['dst'].get('p'):
            cal = t.get('callee') or ''
            if 'from_residual' in cal or 'panic' in cal:
                continue
            out.append((bi, 'tail', t))
    return out


def and_dom(a, b):
    """dominance of a lifted gate: both the call and the check inside; 'loop' (per-item) if either is"""
    if not a or not b:
        return False
    return 'loop' if 'loop' in (a, b) else True


class GateAnalysis:
    def __init__(self, eng):
        self.eng = eng
        self._paths = {}
        if getattr(eng, '_ga', None) is None:
            eng._ga = self       # (lets the classification of a predicate follow a local function the predicate hands its item to)

    def block_gates(self, fd, bi):
        body = fd.body
        gs = []
        for (a, s) in sorted(body.control_deps_transitive(bi)):
            g = classify_switch(self.eng, fd, a)
            g.edge = (a, s)
            g.dom = body.dominates(s, bi) and all(p == a or body.dominates(s, p) for p in body.pred[s])
            if not g.dom:
                for h, blocks in body.natural_loops():
                    if a in blocks and s in blocks and bi not in blocks and body.dominates(h, bi):
                        latches = [x_ for x_ in blocks if h in body.succ[x_]]
                        if latches and all(s == x_ or body.dominates(s, x_) for x_ in latches):
                            g.dom = 'loop'
            t = body.blocks[a]['term']
            zero_t = [b for v, b in t['targets'] if v == '0']
            if zero_t and len(t['targets']) == 1 and zero_t[0] != t['otherwise']:
                raw = (s != zero_t[0])
                g.truth = (not raw) if g.negated else raw
            gs.extend(self._flatten(g))
        # refusal by panic: `if bad { panic!(..) }` - the accept site is not control dependent on the branch in the textbook sense (the other
        # side never returns), but it is reached only when the condition takes the side that goes on
        have = {(g_.edge[0] if g_.edge else None) for g_ in gs}
        for a in sorted(body.dom[bi]):
            t = body.blocks[a]['term']
            if a == bi or a in have or t['k'] != 'switch':
                continue
            succs = []
            for x in body.succ[a]:
                if x not in succs:
                    succs.append(x)
            live = [x for x in succs if not body.diverges(x)]
            if len(live) != 1 or len(succs) < 2 or not (live[0] == bi or body.dominates(live[0], bi)):
                continue
            s = live[0]
            g = classify_switch(self.eng, fd, a)
            g.edge = (a, s)
            g.dom = True
            zero_t = [b_ for v, b_ in t['targets'] if v == '0']
            if zero_t and len(t['targets']) == 1 and zero_t[0] != t['otherwise']:
                raw = (s != zero_t[0])
                g.truth = (not raw) if g.negated else raw
            gs.extend(self._flatten(g))
        return gs

    def _flatten(self, g):
        if g.kind != 'multi':
            return [g]
        out = []
        for s in g.args:
            s.edge = g.edge
            # (a part with a `!` of its own: the operation it classifies evaluated the other way)
            pt = g.truth
            if g.chain == 'or' and pt is True:
                pt = None         # one part of `a || b` is true: which one is not known (and the later ones may not have been evaluated)
            elif g.chain == 'and' and pt is False:
                pt = None
            elif g.chain == 'mixed':
                pt = None
            if s.chain == 'unfixed' and s.kind != 'multi':
                pt = None
            if pt is None and g.truth is not None and s.kind != 'multi' and s.chain is None:
                s.chain = 'unfixed'       # the connective, not the analysis, leaves this part's outcome open
            s.truth = pt if (not s.negated or pt is None) else (not pt)
            s.dom = g.dom
            out.extend(self._flatten(s))
        return out

    def _trait_impl(self, tcall, targs):
        """the body of `<X as Trait>::method` for the one type argument X of the call that implements the (local) trait"""
        trait, meth = tcall
        hits = []
        ren = getattr(self.eng.prog, 'renamed', {})
        for x in targs or []:
            p = '<%s as %s>' % (x, trait)
            p = ren.get(p, p) + '::' + meth          # (impl bodies are filed under their module: mir.Program)
            if p in self.eng.prog.bodies:
                hits.append(p)
        return hits[0] if len(hits) == 1 else None

    def _lift_paths(self, fd, callee, args, dom, _stack, depth=0, want=True, targs=None):
        """accept paths of `callee` as gate lists in the terms of the calling body `fd` (arguments `args`).  A callee gate that inspects a
        Result / Option *parameter* is decided by the caller's argument: it is replaced by the classification of that argument here (and, when
        the argument comes from another local call, by that call's accept paths)."""
        cps = self.accept_paths(callee, _stack, want=want)
        if not want and not cps:
            cps = self.accept_paths(callee, _stack)      # not a predicate: no negative paths to speak of
        out = []
        for cp in cps:
            lifted = []
            extra = [[]]
            for g in cp['gates']:
                if g.kind == 'call' and g.tcall is not None and targs and depth < 6:
                    # a method of a local trait called on a type parameter of the callee: this call's type arguments say which impl runs
                    impl = self._trait_impl(g.tcall, targs)
                    if impl is not None and impl not in _stack:
                        cfd = self.eng.fndep(callee)
                        alts = []
                        for alt in (self._lift_paths(cfd, impl, g.args, g.dom, _stack, depth + 1, want=(g.truth is not False)) or [[]]):
                            la = []
                            for g3 in alt:
                                ops3 = []
                                for o in g3.operands:
                                    oo = set()
                                    for a in o:
                                        oo |= fd._inst_atom(a, args)
                                    ops3.append(oo)
                                n3 = Gate(g3.kind, g3.what, ops3, g3.fn, g3.block, g3.line, g3.callee, None, g3.edge, g3.const_ops)
                                n3.oargs = g3.oargs
                                n3.truth, n3.dom, n3.quant = g3.truth, and_dom(g3.dom, and_dom(g.dom, dom)), g3.quant
                                la.append(n3)
                            alts.append(la)
                        extra = [e + a for e in extra for a in alts][:64]
                        continue
                if g.kind == 'fnparam' and g.param is not None and g.param - 1 < len(args) and depth < 6:
                    F = args[g.param - 1]
                    if F.get('k') in ('copy', 'move'):
                        # the function item reified into a pointer / copied before it is handed over
                        from rf_frame import _fn_const
                        fc = _fn_const(fd, F)
                        if fc:
                            F = {'k': 'const', 'fn': fc, 'fn_full': fc}
                    if F.get('k') == 'const' and F.get('fn') in self.eng.prog.bodies:
                        # the function handed in decides: its accept paths, first in the callee's terms (items stand for its argument), then in ours
                        cfd = self.eng.fndep(callee)
                        alts = []
                        for alt in (self._lift_paths(cfd, F['fn'], g.args, g.dom, _stack, depth + 1, targs=_targs_of_path(F.get('fn_full') or '', F['fn'])) or [[]]):
                            la = []
                            for g3 in alt:
                                ops3 = []
                                for o in g3.operands:
                                    oo = set()
                                    for a in o:
                                        oo |= fd._inst_atom(a, args)
                                    ops3.append(oo)
                                n3 = Gate(g3.kind, g3.what, ops3, g3.fn, g3.block, g3.line, g3.callee, None, g3.edge, g3.const_ops)
                                n3.oargs = g3.oargs
                                n3.truth, n3.dom, n3.quant = g3.truth, and_dom(g3.dom, dom), g3.quant
                                la.append(n3)
                            alts.append(la)
                        extra = [e + a for e in extra for a in alts][:64]
                        continue
                if g.kind != 'fnparam' and g.param is not None and g.param - 1 < len(args) and args[g.param - 1]['k'] in ('copy', 'move') and depth < 6:
                    g2 = _classify_value(self.eng, fd, args[g.param - 1]['pl'], g.block, g.line, 0)
                    if g2.truth is None and g.truth is not None:
                        g2.truth = (not g.truth) if g2.negated else g.truth
                    subs = []
                    for s2 in self._flatten(g2):
                        s2.dom = and_dom(g.dom, dom)
                        subs.append(s2)
                    for s2 in subs:
                        if s2.kind == 'deleg':
                            alts = self._lift_paths(fd, s2.callee, s2.args, s2.dom, _stack, depth + 1, targs=s2.targs) or [[]]
                            extra = [e + a for e in extra for a in alts][:64]
                        else:
                            lifted.append(s2)
                    continue
                # an element-wise test over a container parameter whose argument here is an array literal `[a, b, c]`: one test per element
                if g.quant:
                    pks = {strip(a)[1] for o in g.operands for a in o if strip(a)[0] == 'p'}
                    if len(pks) == 1:
                        k = next(iter(pks))
                        lit = _seq_parts(self.eng, fd, args[k - 1]) if 0 < k <= len(args) else None
                        if lit:
                            for eo in lit:
                                ng = Gate(g.kind, g.what, [set(eo)], g.fn, g.block, g.line, g.callee, None, g.edge, g.const_ops)
                                ng.oargs = g.oargs
                                ng.truth, ng.dom, ng.param, ng.quant = g.truth, and_dom(g.dom, dom), None, g.quant
                                lifted.append(ng)
                            continue
                ops = []
                for o in g.operands:
                    oo = set()
                    for a in o:
                        oo |= fd._inst_atom(a, args)
                    ops.append(oo)
                ng = Gate(g.kind, g.what, ops, g.fn, g.block, g.line, g.callee, None, g.edge, g.const_ops)
                ng.oargs = g.oargs
                ng.truth = g.truth
                ng.dom = and_dom(g.dom, dom)
                ng.param = None
                ng.quant = g.quant
                lifted.append(ng)
            for e in extra:
                out.append(lifted + e)
        return out

    def accept_paths(self, path, _stack=(), want=True):
        """list of accept paths of function `path`; each is a list of non-delegating Gates whose operand atom
        sets are in `path`'s own parameter terms.  One entry per (accept block x callee accept path)."""
        ckey = path if want else (path, False)
        if ckey in self._paths:
            return self._paths[ckey]
        if path in _stack:
            return [{'block': -1, 'kind': 'rec', 'gates': []}]
        fd = self.eng.fndep(path)
        if fd is None:
            return [{'block': -1, 'kind': 'missing', 'gates': []}]
        res = []
        for (bi, kind, extra) in accept_blocks(fd, want):
            gs = self.block_gates(fd, bi)
            direct = [g for g in gs if g.kind != 'deleg']
            delegs = [g for g in gs if g.kind == 'deleg']
            if kind == 'tail':
                tgt = local_target(self.eng, extra)
                if tgt is not None:
                    dgt = Gate('deleg', tgt, [], path, bi, extra.get('line'), callee=tgt, args=extra['args'])
                    dgt.targs = extra.get('targs')
                    dgt.dom = True
                    delegs.append(dgt)
                elif (extra.get('callee') or '') in PASS_THROUGH and extra['args'] and extra['args'][0]['k'] in ('copy', 'move'):
                    # `opt.ok_or(e)` / `res.map_err(f)` returned as it is: success is decided by what produced `opt`
                    g = _classify_value(self.eng, fd, extra['args'][0]['pl'], bi, extra.get('line'), 0)
                    g.dom = True
                    if fd.body.local_ty(0) == 'bool' and g.truth is None:
                        g.truth = (not want) if g.negated else want      # `x.is_identity().into()` handed back as the verdict
                    for g2 in self._flatten(g):
                        if g2.kind == 'deleg':
                            delegs.append(g2)
                        else:
                            direct.append(g2)
                else:
                    # the value of a library call returned as it is (`items.map(test).reduce(|a, c| a | c).map_or(false, bool::from)`): what it is
                    # computed from; for a predicate the returned boolean is the verdict asked for
                    g = _classify_value(self.eng, fd, {'l': 0}, bi, extra.get('line'), 0, _def=('call', bi, extra))
                    if g.kind == 'multi':
                        g.dom = True
                        if fd.body.local_ty(0) == 'bool':
                            g.truth = (not want) if g.negated else want
                        for g2 in self._flatten(g):
                            if g2.kind == 'deleg':
                                delegs.append(g2)
                            else:
                                direct.append(g2)
                    elif g.kind in ('deleg', 'fnparam'):
                        # `items.map(check).collect()` returned as it is: success is decided by the function applied to every item
                        g.dom = True
                        (delegs if g.kind == 'deleg' else direct).append(g)
                    else:
                        gt = Gate('call', extra.get('callee') or '?', [fd.read_op(a) for a in extra['args']],
                                  path, bi, extra.get('line'), callee=extra.get('callee'), args=extra['args'])
                        gt.dom = True
                        if fd.body.local_ty(0) == 'bool':
                            gt.truth = want       # `lhs == rhs` handed back as the verdict: the comparison came out the way the verdict did
                        direct.append(gt)
            elif kind in ('boolvar', 'boolret'):
                if kind == 'boolret':
                    g = _classify_value(self.eng, fd, {'l': 0}, bi, None, 0, _def=extra)
                    g.truth = (not want) if g.negated else want
                else:
                    g = _classify_value(self.eng, fd, extra, bi, None, 0)
                g.dom = True      # the returned boolean itself
                for g2 in self._flatten(g):
                    if g2.kind == 'deleg':
                        delegs.append(g2)
                    else:
                        direct.append(g2)
            combos = [list(direct)]
            for dg in delegs:
                lifted_alts = self._lift_paths(fd, dg.callee, dg.args, dg.dom, _stack + (path,), want=(dg.truth is not False), targs=dg.targs)
                if not lifted_alts:
                    lifted_alts = [[]]
                if dg.truth is None and dg.chain == 'unfixed':
                    # the callee's verdict is one part of `f(a) || g(b)` handed back: which way it went is not known, nor are its own tests
                    for la_ in lifted_alts:
                        for g_ in la_:
                            g_.truth = None
                new = []
                for c in combos:
                    for la in lifted_alts:
                        new.append(c + la)
                        if len(new) > 256:
                            break
                combos = new[:256]
            for c in combos:
                res.append({'block': bi, 'kind': kind, 'gates': c})
        self._paths[ckey] = res
        return res


# ------------------------------------------------------------------------ must-flow into buffers
class MustFlow:
    """atoms that reach a buffer operand on *every* path to a given program point of one body."""

    def __init__(self, eng, fd):
        self.eng = eng
        self.fd = fd
        self.body = fd.body
        self.events = {}   # root local -> list of event dicts
        self.loops = self.body.natural_loops()
        self._collect()

    def _collect(self):
        fd, body = self.fd, self.body
        for bi, blk in enumerate(body.blocks):
            if blk['cleanup']:
                continue
            for si, s in enumerate(blk['stmts']):
                if s['k'] != 'assign':
                    continue
                root, path = fd.resolve_place(s['dst'])
                if fd.is_param(root):
                    continue
                rv = s['rv']
                if rv['k'] in ('ref', 'rawptr'):
                    # a borrow is an alias, not a write (handled by base())
                    if fd.base(s['dst']['l'])[0] != s['dst']['l'] or True:
                        r2, _ = fd.resolve_place(rv['pl'])
                        if r2 != root:
                            self.events.setdefault(root, []).append({'b': bi, 'term': False, 'kind': 'assign', 'ops': [('place', rv['pl'])], 'line': s.get('line')})
                        continue
                ops = []
                if rv['k'] in ('use', 'cast', 'repeat'):
                    ops = [self._opref(rv['op'])]
                elif rv['k'] == 'unop':
                    ops = [self._opref(rv['a'])]
                elif rv['k'] == 'binop':
                    ops = [self._opref(rv['a']), self._opref(rv['b'])]
                elif rv['k'] == 'agg':
                    ops = [self._opref(o) for o in rv['ops']]
                elif rv['k'] == 'discr':
                    ops = [('place', rv['pl'])]
                self.events.setdefault(root, []).append({'b': bi, 'term': False, 'kind': 'assign', 'ops': ops, 'line': s.get('line'), 'rv': rv})
            t = blk['term']
            if t['k'] != 'call':
                continue
            # destination write
            root, path = fd.resolve_place(t['dst'])
            cal = t.get('callee') or ''
            is_alias = cal in ALIAS_CALLS and fd.base(t['dst']['l'])[0] != t['dst']['l']
            if not fd.is_param(root) and not is_alias:
                self.events.setdefault(root, []).append({'b': bi, 'term': True, 'kind': 'calldst', 'call': t, 'line': t.get('line')})
            # writes through &mut arguments / captured &mut
            per, muts = fd._arg_atoms_and_muts(t['args'])
            tgt = local_target(self.eng, t)
            for (r, p) in muts:
                if fd.is_param(r) and not body.local_ty(r).startswith('&mut '):
                    continue      # (writes through a `&mut` parameter are events of that parameter: a helper filling the caller's buffer)
                self.events.setdefault(r, []).append({'b': bi, 'term': True, 'kind': 'mutarg', 'call': t, 'line': t.get('line'), 'target': (r, p)})

    def _opref(self, o):
        if o['k'] in ('copy', 'move'):
            return ('place', o['pl'])
        return ('const', o)

    def _dominates_event(self, e, at_block, at_is_term_use=True):
        eb = e['b']
        if eb == at_block:
            return not e['term']
        return self.body.dominates(eb, at_block)

    def _loop_event_ok(self, e, at_block):
        """event inside a natural loop whose header dominates at_block and which executes on every iteration."""
        eb = e['b']
        for h, blocks in self.loops:
            if eb in blocks and at_block not in blocks and self.body.dominates(h, at_block):
                latches = [x for x in blocks if h in self.body.succ[x]]
                if all(self.body.dominates(eb, x) for x in latches):
                    return True
        return False

    def must_atoms_place(self, pl, at_block, seen=None):
        fd = self.fd
        root, path = fd.resolve_place(pl)
        out = set()
        for p in pl.get('p', []):
            if p['k'] == 'index':
                out |= self.must_atoms_place({'l': p['l']}, at_block, seen)
        return out | self.must_atoms_root(root, path, at_block, seen)

    def must_atoms_root(self, root, path, at_block, seen=None):
        fd = self.fd
        seen = seen or frozenset()
        key = (root, at_block)
        if fd.is_param(root):
            return {('p', root, tuple(path[:DEPTH]))}
        if key in seen:
            return set()
        seen = seen | {key}
        out = set()
        for e in self.events.get(root, []):
            in_loop = False
            if not self._dominates_event(e, at_block):
                if self._loop_event_ok(e, at_block):
                    in_loop = True
                else:
                    continue
            out |= self.event_atoms(e, seen)
        return out

    def event_atoms(self, e, seen=None):
        fd = self.fd
        out = set()
        if e['kind'] == 'assign':
            rv = e.get('rv')
            for kind, o in e['ops']:
                if kind == 'place':
                    at = self.must_atoms_place(o, e['b'], seen)
                else:
                    at = fd.const_atoms(o)
                out |= at
            if rv is not None:
                if rv['k'] == 'unop' and rv['op'] == 'PtrMetadata':
                    out = {('len', a) if a[0] not in ('len', 'narrow') else a for a in out}
                if (rv['k'] == 'binop' and rv['op'] in ('BitAnd', 'Rem', 'Shr', 'Div')):
                    out = {('narrow', a[1]) if a[0] == 'len' else a for a in out}
                if rv['k'] == 'cast' and rv['ck'] == 'IntToInt':
                    from dep import INT_BITS
                    if INT_BITS.get(rv['ty'], 64) < 64:
                        out = {('narrow', a[1]) if a[0] == 'len' else a for a in out}
            return out
        t = e['call']
        args = t['args']
        tgt = local_target(self.eng, t)

        def arg_must(i, sub=()):
            a = args[i]
            if a['k'] in ('copy', 'move'):
                pl = a['pl']
                ci0 = fd._closure_info(pl['l']) if not pl.get('p') else None
                # a closure value is described by what it captures by value / shared reference, not by the buffers it writes
                at = self.must_atoms_place(pl, e['b'], seen) if ci0 is None else set()
                # closures: captured operands
                if not pl.get('p'):
                    ci = ci0
                    if ci is not None:
                        name, caps = ci
                        for c in caps:
                            if c['k'] in ('copy', 'move'):
                                cty = fd.body.local_ty(c['pl']['l'])
                                if cty.startswith('&mut '):
                                    continue
                                at |= self.must_atoms_place(c['pl'], e['b'], seen)
                            else:
                                at |= fd.const_atoms(c)
                        at |= self.eng.closure_internal_atoms(name)
                return at
            return fd.const_atoms(a)
        if tgt is not None:
            summ = self.eng.summary(tgt)
            src = {}
            if e['kind'] == 'calldst':
                for p, atoms in summ['ret'].items():
                    src.setdefault(p, set()).update(atoms)
            else:
                # which parameter is the target?
                for k, d in summ['mut'].items():
                    if k - 1 < len(args) and args[k - 1]['k'] in ('copy', 'move') and fd.resolve_place(args[k - 1]['pl'])[0] == e['target'][0]:
                        for p, atoms in d.items():
                            src.setdefault(p, set()).update(atoms)
            for p, atoms in src.items():
                for a in atoms:
                    s = strip(a)
                    if s[0] == 'p':
                        k = s[1]
                        if k - 1 < len(args):
                            inner = arg_must(k - 1)
                            # re-apply len/narrow wrappers
                            if a[0] == 'len':
                                inner = {('len', x) if x[0] not in ('len', 'narrow') else x for x in inner}
                            elif a[0] == 'narrow':
                                inner = {('narrow', x[1] if x[0] in ('len', 'narrow') else x) for x in inner}
                            out |= inner
                    else:
                        out.add(a)
            return out
        cal = t.get('callee') or ''
        for i in range(len(args)):
            if e['kind'] == 'mutarg' and args[i]['k'] in ('copy', 'move') and fd.resolve_place(args[i]['pl'])[0] == e['target'][0] \
                    and fd.body.local_ty(args[i]['pl']['l']).startswith('&mut '):
                continue  # the buffer itself
            out |= arg_must(i)
        from dep import LEN_CALLS
        if cal in LEN_CALLS:
            out = {('len', a) if a[0] not in ('len', 'narrow') else a for a in out}
        return out

    def ordered_events(self, root, at_block):
        """the events on buffer `root` that must precede at_block, in dominance order (straight-line appends)."""
        evs = [e for e in self.events.get(root, []) if self._dominates_event(e, at_block) or self._loop_event_ok(e, at_block)]
        def key(e):
            return (len(self.body.dom[e['b']]), 1 if e['term'] else 0)
        return sorted(evs, key=key)


def find_calls(eng, frame, pred):
    for bi, t in frame.body.calls():
        if pred(t):
            yield bi, t


def callee_matches(t, *suffixes):
    names = [t.get('resolved') or '', t.get('callee') or '']
    for n in names:
        for s in suffixes:
            if n == s or n.endswith('::' + s) or n.endswith(s):
                return True
    return False


# ------------------------------------------------------------------------ random draws feeding a value (call-site sensitive, intraprocedural)
DRAW_CALLEES = ('random_bits', 'rand_int', 'random_number', 'random_qr', 'random_prime')


def draw_sites(eng, fd, op, limit=400, _depth=0):
    """call sites of the crate's random helpers whose result flows (through assignments, references and calls, in this body) into the operand."""
    body = fd.body
    seen, draws = set(), set()
    work = []

    def push_op(o):
        if isinstance(o, dict) and o.get('k') in ('copy', 'move'):
            work.append(o['pl']['l'])
            for p in o['pl'].get('p', []):
                if p['k'] == 'index':
                    work.append(p['l'])

    push_op(op)
    while work and len(seen) < limit:
        l = work.pop()
        if l in seen:
            continue
        seen.add(l)
        for kind, bi, x in fd.defs.get(l, []):
            if kind == 'assign':
                rv = x['rv']
                for key in ('op', 'a', 'b'):
                    push_op(rv.get(key))
                for o in rv.get('ops', []) or []:
                    push_op(o)
                if rv['k'] in ('ref', 'rawptr', 'len', 'discr'):
                    work.append(rv['pl']['l'])
            elif kind == 'call':
                tgt = local_target(eng, x) or ''
                if tgt.split('::')[-1] in DRAW_CALLEES:
                    draws.add((x['line'], tgt.split('::')[-1], bi))
                    continue
                # a local helper whose return value is drawn inside it: every call of the helper is a draw site of its own
                if tgt and tgt in eng.prog.bodies and tgt != body.path and _depth < 3:
                    inner = draw_sites(eng, eng.fndep(tgt), {'k': 'copy', 'pl': {'l': 0}}, limit, _depth + 1)
                    if inner:
                        draws.add((x['line'], 'via:' + tgt.split('::')[-1], bi))
                for a in x['args']:
                    push_op(a)
        # values written through a `&mut l` handed to a call (x += .., complete_into ...) : the other arguments of that call flow in
        for bi, t in body.calls():
            for a in t['args']:
                if a.get('k') in ('copy', 'move'):
                    d = fd.defs.get(a['pl']['l'], [])
                    if len(d) == 1 and d[0][0] == 'assign' and d[0][2]['rv']['k'] == 'ref' and d[0][2]['rv'].get('mut') and d[0][2]['rv']['pl']['l'] == l:
                        for a2 in t['args']:
                            push_op(a2)
    return draws


