import re
"""RF-E decoder framing: the set of input lengths a decoder can accept, computed from the facts that hold at its
accept sites (difference bounds on len(input)) and from the modular guards the accept sites depend on, composed
through delegated decoders.  RF-L limit guards.  RF-N codec layout (writer/reader agreement)."""
from framework import Ob, AnchorMissing
from rf_gates import resolve_fn
from flow import local_target, accept_blocks
from zone import tadd, tfmt, UMAX, IMAX
import bbs_tables as T

# decoder (suffix) -> (param, lo, hi or None, [(offset, modulus)])  : accepted lengths n: lo <= n (<= hi), (n + offset) % modulus == 0
FRAMING = [
    ('bbsplus::keys::BBSplusPublicKey::from_bytes', 'bytes', 96, 96, []),
    ('bbsplus::keys::BBSplusSecretKey::from_bytes', 'bytes', 32, 32, []),
    ('bbsplus::proof::BBSplusPoKSignature::from_bytes', 'bytes', 272, None, [(-240, 32)]),
    (T.POK + 'from_bytes', 'bytes', 272, None, [(-240, 32)]),
    ('bbsplus::proof::BBSplusZKPoK::from_bytes', 'bytes', 64, None, [(0, 32)]),
    ('bbsplus::commitment::BBSplusCommitment::from_bytes', 'bytes', 112, None, [(-48, 32)]),
    (T.COM + 'from_bytes', 'bytes', 112, None, [(-48, 32)]),
]


def _rem_constraints(zf, param_sym):
    """edges on which `(len + c) % m == 0` is known (a branch on the remainder, a conjunct of a guard, or the boolean handed to a checking
    helper); returns list of (block, edge target, c, m)."""
    out = []
    for (sb, tgt), mods in zf.edge_mods.items():
        for (sym, c, m) in mods:
            if sym == param_sym:
                out.append((sb, tgt, c, m))
    return out


def _fn_const(fd, op, depth=0):
    """the function a function-valued operand is (a function item, possibly reified into a pointer and copied), or None"""
    if op is None or depth > 4:
        return None
    if op.get('k') == 'const':
        return op.get('fn')
    if op.get('k') not in ('copy', 'move') or op['pl'].get('p'):
        return None
    ds = [d for d in fd.defs.get(op['pl']['l'], []) if not d[2].get('dst', {}).get('p')]
    if len(ds) == 1 and ds[0][0] == 'assign' and ds[0][2]['rv']['k'] in ('use', 'cast'):
        return _fn_const(fd, ds[0][2]['rv']['op'], depth + 1)
    return None


def frame_of(ctx, cfg, path, param, _depth=0, cargs=None, fnbind=None):
    """(lo, hi, mods) of accepted lengths of `param` for function `path`, or None if the function has no accept site.
    fnbind: {parameter index: function} for function-valued parameters bound by the caller (`decode_with(parse_compressed, bytes)`)."""
    prog, eng, za = ctx.prog(cfg), ctx.eng(cfg), ctx.zone(cfg)
    body = prog.bodies[path]
    za.summary(path)
    zf = za.zf(path)
    k = body.param_index(param)
    if k is None:
        raise AnchorMissing('%s has no parameter %s' % (path, param))
    sym = 'len:' + param
    fd = eng.fndep(path)
    accs = accept_blocks(fd)
    if not accs:
        return None
    los, his, modsets = [], [], []
    for (bi, kind, extra) in accs:
        lo = zf.lower_bound((sym, 0), bi)
        hi = zf.upper_bound((sym, 0), bi)
        # a bound by the function's own const generic parameter (`<[u8; N]>::try_from(slice)`), instantiated with this caller's literal
        if cargs and len(cargs) == 1 and str(cargs[0]).isdigit():
            import re as _re
            generic = set()
            for loc in body.locals:
                generic |= set(_re.findall(r'; ([A-Z][A-Z0-9_]*)\]', loc.get('ty', '')))      # `[u8; N]` with N not yet a number
            gsyms = {t_[0] for f_ in zf.facts_at(bi) for t_ in f_ if t_ is not None and t_[0] and t_[0].startswith('N:') and t_[0][2:] in generic}
            if len(gsyms) == 1:
                g = next(iter(gsyms))
                v = int(cargs[0])
                if zf.prove_le((g, 0), (sym, 0), bi):
                    lo = max(lo, v)
                if zf.prove_le((sym, 0), (g, 0), bi):
                    hi = min(hi, v)
        mods = set()
        for (sb, eq_edge, c, m) in _rem_constraints(zf, sym):
            if zf._edge_dominates(sb, eq_edge, bi):
                mods.add((c, m))
        # delegated decoders on this accept path: local calls receiving (a sub-slice of) the parameter whose Ok edge dominates
        calls = []
        if kind == 'tail':
            calls.append((bi, extra))
        for cb, t in body.calls():
            if body.dominates(cb, bi) and cb != bi:
                calls.append((cb, t))
        for cb, t in calls:
            tgt = local_target(eng, t)
            if tgt is None and t.get('callee') is None and t.get('callee_op') is not None and fnbind:
                # a call through a function-valued parameter: the function the caller bound it to
                co = t['callee_op']
                if co.get('k') in ('copy', 'move') and not co['pl'].get('p'):
                    r0 = fd.resolve_place(co['pl'])[0]
                    l0 = co['pl']['l']
                    for _ in range(4):
                        if fd.is_param(l0):
                            break
                        ds0 = [d_ for d_ in fd.defs.get(l0, []) if not d_[2].get('dst', {}).get('p')]
                        if len(ds0) == 1 and ds0[0][0] == 'assign' and ds0[0][2]['rv']['k'] == 'use' and ds0[0][2]['rv']['op']['k'] in ('copy', 'move'):
                            l0 = ds0[0][2]['rv']['op']['pl']['l']
                        else:
                            break
                    tgt = fnbind.get(l0) or fnbind.get(r0)
                    if tgt not in prog.bodies:
                        tgt = None
            if tgt is None or _depth > 6:
                continue
            cbody = prog.bodies[tgt]
            sub_bind = {ai_ + 1: f_ for ai_, a_ in enumerate(t['args']) for f_ in [_fn_const(fd, a_)] if f_ and f_ in prog.bodies}
            for ai, a in enumerate(t['args']):
                if a['k'] not in ('copy', 'move'):
                    continue
                d = zf.desc_place(a['pl'])
                off = None
                if d[0] == 'cont' and d[1] == k and not d[2]:
                    off = 0
                elif d[0] == 'sub' and d[1][0] == 'cont' and d[1][1] == k and not d[1][2] and d[2][0] == 'from' and d[2][1] is not None and d[2][1][0] is None:
                    off = d[2][1][1]
                if off is None:
                    continue
                pname = cbody.local_name(ai + 1)
                if not cbody.local_ty(ai + 1).startswith('&['):
                    continue
                # only if the accept site depends on the callee's success (result consumed by `?` / returned)
                sub = frame_of(ctx, cfg, tgt, pname, _depth + 1, cargs=t.get('cargs'), fnbind=sub_bind)
                if sub is None:
                    continue
                slo, shi, smods = sub
                lo = max(lo, slo + off)
                if shi is not None:
                    hi = min(hi, shi + off)
                for (c, m) in smods:
                    mods.add((c - off, m))
        los.append(lo)
        his.append(hi)
        modsets.append(mods)
    lo = min(los)
    hi = max(his)
    mods = set.intersection(*modsets) if modsets else set()
    return lo, (None if hi >= IMAX // 2 else hi), mods


def rule_decoder_framing(ctx, cfg='prod-all', table=FRAMING):
    prog = ctx.prog(cfg)
    for (suffix, param, lo, hi, mods) in table:
        body = resolve_fn(prog, suffix)
        fr = frame_of(ctx, cfg, body.path, param)
        if fr is None:
            yield Ob('RF-E', '%s#framing' % body.path, False, 'decoder has no accept site', body.span, fact=None, expected='accept site')
            continue
        glo, ghi, gmods = fr
        # normalise modular constraints to residues
        def norm(ms):
            return sorted({((-c) % m, m) for (c, m) in ms})
        ok = (glo == lo) and (ghi == hi) and norm(gmods) == norm(mods)
        yield Ob('RF-E', '%s#framing' % body.path, ok,
                 'set of accepted input lengths equals the tabled framing (no short input, no trailing bytes)', body.span,
                 fact={'min': glo, 'max': ghi, 'residues': norm(gmods)}, expected={'min': lo, 'max': hi, 'residues': norm(mods)})
    # every decoder of an unsized byte slice must be tabled
    tabled = {resolve_fn(prog, s).path for (s, _, _, _, _) in table}
    for p, f in prog.fns.items():
        if not p.startswith('bbsplus::') or p in tabled:
            continue
        if p.split('::')[-1].startswith('from_bytes') and f['inputs'] and f['inputs'][0] == '&[u8]' and f['pub']:
            yield Ob('RF-E', '%s#untabled-decoder' % p, False, 'public decoder of an unsized byte string without tabled framing', f['span'],
                     fact=f['inputs'], expected='table row')


PREFIX_TAKERS = ('<impl [T]>::first_chunk', '<impl [T]>::last_chunk', '<impl [T]>::split_first_chunk', '<impl [T]>::split_last_chunk', '<impl [T]>::get',
                 '<impl [T]>::split_at', '<impl [T]>::split_at_checked', '<impl [T]>::first_chunk_mut', 'std::ops::Index::index')
EXACT_CONVERSIONS = ('std::convert::TryInto::try_into', 'std::convert::TryFrom::try_from')


def rule_array_inputs_exact(ctx, cfg='prod-all', scope=('bbsplus::',)):
    """A function that takes its octets as `&[u8; N]` frames its input by the type - but only if the caller turns the octet string it was given
    into that array by a conversion that fails on any other length.  `octets.first_chunk()` (or `&octets[..N]`, `get(..N)`) hands over the first N
    octets of a longer string: trailing octets are accepted.  Per call of a local function with an array parameter whose argument is cut out of
    a slice: the conversion is an exact one (`try_into` / `try_from`), or the length of the slice is proven equal to N where the call is made."""
    from zone import parse_array_len
    prog, eng, za = ctx.prog(cfg), ctx.eng(cfg), ctx.zone(cfg)
    n = 0
    for p, b in sorted(prog.bodies.items()):
        if b.from_expansion or not p.startswith(scope) or '::tests::' in p:
            continue
        zf = None
        cnt = {}
        for bi, t in b.calls():
            tgt = local_target(eng, t)
            if tgt is None or tgt not in prog.bodies:
                continue
            cb = prog.bodies[tgt]
            for k, a in enumerate(t['args']):
                if k + 1 > cb.arg_count or a['k'] not in ('copy', 'move'):
                    continue
                ty = cb.local_ty(k + 1).replace('&mut ', '').lstrip('&').strip()
                N = parse_array_len(ty) if ty.startswith('[u8;') else None
                if N is None or not str(N).isdigit():
                    continue
                if zf is None:
                    za.summary(p)
                    zf = za.zf(p)
                # where the array comes from
                l = a['pl']['l']
                oc = None
                for _ in range(8):
                    o = zf._origin_call(l)
                    if o is None:
                        # the payload of a `?` / match: continue at the Option / Result it was taken out of
                        d = zf.single_def(l)
                        if d and d[0] == 'assign' and d[2]['rv']['k'] in ('use', 'ref') and not d[2]['dst'].get('p'):
                            src = d[2]['rv'].get('pl') or d[2]['rv'].get('op', {}).get('pl')
                            if src is not None and src['l'] != l and all(q['k'] in ('downcast', 'field', 'deref') for q in src.get('p', [])):
                                l = src['l']
                                continue
                        break
                    oc = o
                    cal = o[1].get('callee') or ''
                    if cal in ('std::option::Option::<T>::unwrap', 'std::option::Option::<T>::expect', 'std::result::Result::<T, E>::unwrap',
                               'std::result::Result::<T, E>::expect') and o[1]['args'] and o[1]['args'][0]['k'] in ('copy', 'move'):
                        l = o[1]['args'][0]['pl']['l']
                        continue
                    break
                if oc is None:
                    continue
                cal = oc[1].get('callee') or ''
                if cal in EXACT_CONVERSIONS:
                    src = oc[1]['args'][0] if oc[1]['args'] else None
                    sty = b.local_ty(src['pl']['l']).replace('&mut ', '').lstrip('&').strip() if src and src['k'] in ('copy', 'move') else ''
                    if not sty.startswith('[u8]') and not sty.startswith('std::vec::Vec<u8'):
                        continue
                    nm = cb.path.split('::')[-2] + '::' + cb.path.split('::')[-1]
                    cnt[nm] = cnt.get(nm, 0) + 1
                    n += 1
                    # ... of the whole octet string: `x[..N].try_into()` converts a prefix exactly
                    so = zf.slice_origin(zf.desc_place(src['pl']))
                    if so is not None and so[0] is not None and so[0][0] == 'cont' and zf.fd.is_param(so[0][1]) and zf.desc_place(src['pl'])[0] != 'cont':
                        whole = zf.len_of_desc(so[0])
                        okw = whole is not None and zf.prove_le(whole, (None, int(N)), bi)
                        if not okw:
                            yield Ob('RF-E', '%s#array-input:%s[%d]' % (p, nm, cnt[nm]), False,
                                     'the array handed to a function that takes `&[u8; N]` is the whole octet string (its length is N there), not a piece of a longer one',
                                     '%s L%s' % (b.file(), t.get('line')), fact={'taken_by': 'a sub-slice converted exactly', 'N': N, 'length_of_the_source': tfmt(whole) if whole is not None else None},
                                     expected='length == N')
                            continue
                    yield Ob('RF-E', '%s#array-input:%s[%d]' % (p, nm, cnt[nm]), True, 'the octet string is turned into the array by a conversion that fails on any other length',
                             '%s L%s' % (b.file(), t.get('line')), fact={'conversion': cal.split('::')[-1], 'N': N}, expected='exact')
                    continue
                if not cal.endswith(PREFIX_TAKERS) or not oc[1]['args'] or oc[1]['args'][0]['k'] not in ('copy', 'move'):
                    continue
                ln = zf.len_of_place(oc[1]['args'][0]['pl'])
                want = (None, int(N))
                ok = ln is not None and zf.prove_le(ln, want, bi) and zf.prove_le(want, ln, bi)
                nm = cb.path.split('::')[-2] + '::' + cb.path.split('::')[-1]
                cnt[nm] = cnt.get(nm, 0) + 1
                n += 1
                yield Ob('RF-E', '%s#array-input:%s[%d]' % (p, nm, cnt[nm]), ok,
                         'the array handed to a function that takes `&[u8; N]` is the whole octet string (its length is N there), not a piece of a longer one',
                         '%s L%s' % (b.file(), t.get('line')), fact={'taken_by': cal.split('::')[-1], 'N': N, 'length_of_the_source': tfmt(ln) if ln is not None else None},
                         expected='length == N')
    yield Ob('RF-E', 'crate#array-inputs', n >= 2, 'array-typed decoder inputs cut out of octet strings examined', '', fact=n, expected='>= 2', nontrivial=False)


# ---------------------------------------------------------------------------------- RF-L limit guards
LIMITS = [
    # fn, description, term-symbol (in the function's own symbols), relation established on the continuing path, constant
    ('bbsplus::keys::key_gen', 'len(key_material) >= IKM_LEN (32)', 'len:key_material', 'ge', 32),
    ('bbsplus::keys::key_gen', 'len(key_info) <= 65535', 'len:_KEYINFO', 'le', 65535),
    ('utils::util::bbsplus_utils::hash_to_scalar', 'len(dst) <= 255', 'len:dst', 'le', 255),
]


def rule_limit_guards(ctx, cfg='prod-all'):
    """the size limits of the drafts are enforced before the first use: at the hash / i2osp call the bound must be a known fact,
    and it must not be known with any slack (the boundary value itself is accepted)."""
    prog, eng, za = ctx.prog(cfg), ctx.eng(cfg), ctx.zone(cfg)
    kg = resolve_fn(prog, 'bbsplus::keys::key_gen')
    za.summary(kg.path)
    z = za.zf(kg.path)
    # site: the hash_to_scalar call in key_gen
    hs = [(bi, t) for bi, t in kg.calls() if (local_target(eng, t) or '').endswith('hash_to_scalar')]
    if len(hs) != 1:
        raise AnchorMissing('hash_to_scalar call in key_gen')
    hb = hs[0][0]
    km = ('len:key_material', 0)
    lo = z.lower_bound(km, hb)
    yield Ob('RF-L', '%s#limit:key_material' % kg.path, lo == 32, 'key material shorter than 32 octets is refused before hashing (and exactly 32 is accepted)',
             kg.span, fact={'proved_min_len_at_hash': lo}, expected=32)
    # key_info: the i2osp::<2> argument
    i2 = [(bi, t) for bi, t in kg.calls() if (local_target(eng, t) or '').endswith('i2osp')]
    term, at = None, None
    if len(i2) == 1:
        term, at = z.term_op(i2[0][1]['args'][0]), i2[0][0]
    elif not i2:
        # the 2-octet length prefix may be written by a helper that is generic in the width (`prefixed::<2>(key_info)`): the value it encodes,
        # in the terms of this call
        for bi, t in kg.calls():
            tgt = local_target(eng, t)
            if not tgt or (t.get('cargs') or []) != ['2'] or tgt not in prog.bodies:
                continue
            cgm = za.resolve_cargs(z, t, tgt)
            if not cgm:
                continue
            za.summary_spec(tgt, cgm)
            hz = za.zf_spec(tgt, cgm)
            for hbi, ht in hz.body.calls():
                if (local_target(eng, ht) or '').endswith('i2osp') and ht['args']:
                    ct = za.subst(z, t, hz.term_op(ht['args'][0]), tgt=tgt)
                    if ct is not None:
                        term, at = ct, bi
    zq = z
    if term is None:
        # the framing of the hash input (length checks and the 2-octet prefix) moved into a helper of key_gen (`key_gen_input(key_material, key_info)`):
        # the bound is proved where the prefix is written, in the helper's own terms
        for bi, t in kg.calls():
            tgt = local_target(eng, t)
            if not tgt or tgt not in prog.bodies or prog.bodies[tgt].kind == 'Closure' or tgt.endswith(('hash_to_scalar', 'i2osp')):
                continue
            hb_ = prog.bodies[tgt]
            sites_ = [(hbi, ht) for hbi, ht in hb_.calls() if (local_target(eng, ht) or '').endswith('i2osp') and ht['args']]
            if len(sites_) == 1:
                za.summary(tgt)
                hz = za.zf(tgt)
                term, at, zq = hz.term_op(sites_[0][1]['args'][0]), sites_[0][0], hz
    if term is None:
        raise AnchorMissing('i2osp call in key_gen (directly, through a width-generic helper or in a helper that frames the hash input)')
    ub = zq.upper_bound(term, at)
    yield Ob('RF-L', '%s#limit:key_info' % kg.path, ub == 65535, 'key_info longer than 65535 octets is refused before its length is encoded on 2 octets',
             kg.span, fact={'proved_max_len_at_i2osp': ub, 'term': tfmt(term)}, expected=65535)
    # the length encoded is the length of what is hashed after it
    hts = resolve_fn(prog, 'utils::util::bbsplus_utils::hash_to_scalar')
    za.summary(hts.path)
    zh = za.zf(hts.path)
    ex = [(bi, t) for bi, t in hts.calls() if (t.get('callee') or '').endswith('expand_message')]
    if len(ex) != 1:
        raise AnchorMissing('expand_message call in hash_to_scalar')
    ub = zh.upper_bound(('len:dst', 0), ex[0][0])
    yield Ob('RF-L', '%s#limit:dst' % hts.path, ub == 255, 'a DST longer than 255 octets is refused before expand_message',
             hts.span, fact={'proved_max_len_at_expand': ub}, expected=255)


def rule_update_index_guard(ctx, cfg='prod-all'):
    """update_signature: on the accepting path update_index < n (and not a stricter bound), established before generator use."""
    prog, eng, za = ctx.prog(cfg), ctx.eng(cfg), ctx.zone(cfg)
    us = resolve_fn(prog, T.SIG + 'update_signature')
    za.summary(us.path)
    z = za.zf(us.path)
    fd = eng.fndep(us.path)
    accs = [bi for bi, kind, _ in accept_blocks(fd) if kind == 'ok']
    if not accs:
        raise AnchorMissing('accept site of update_signature')
    ki, kn = us.param_index('update_index'), us.param_index('n')
    if ki is None or kn is None:
        raise AnchorMissing('parameters update_index / n')
    ti, tn = ('p%d' % ki, 0), ('p%d' % kn, 0)
    for bi in accs:
        strict = z.prove_le(tadd(ti, 1), tn, bi)
        too_strict = z.prove_le(tadd(ti, 2), tn, bi)
        yield Ob('RF-L', '%s#limit:update_index' % us.path, strict and not too_strict,
                 'a signature is returned only if update_index < n (position n - 1 allowed, position n refused)', us.span,
                 fact={'update_index+1<=n': strict, 'update_index+2<=n': too_strict}, expected={'update_index+1<=n': True, 'update_index+2<=n': False})
    # the generator used is values[update_index + 1] i.e. H[update_index]: absolute position of every generator element that is multiplied
    from rf_codec import generator_pairings, ZoneSum
    recs = [r for r in generator_pairings(ctx, cfg, us.path) if r['start'] is not None]
    if not recs:
        # the product may live in a shared helper `sum(base, points, scalars)` that pairs points[k] with scalars[k] (one zip): the generator
        # that meets the k-th scalar handed over is the k-th element of the slice handed over, whose start is known at the call
        from rf_codec import _array_literal_ops, _is_generator_values
        for bi, t in us.calls():
            tgt = local_target(eng, t)
            if not tgt or tgt == us.path or tgt not in prog.bodies:
                continue
            hrecs = [r for r in generator_pairings(ctx, cfg, tgt) if r['helper_param'] is not None and r['gpos'] is None]
            for r in hrecs:
                arg = t['args'][r['helper_param'] - 1]
                org = z.slice_origin(z.desc_place(arg['pl'])) if arg['k'] in ('copy', 'move') else None
                if not org or not _is_generator_values(z, org[0]):
                    continue
                # which argument carries the scalars, and where in it the changed message's scalar sits: an array literal `[delta]`
                for a2 in t['args']:
                    lit = _array_literal_ops(z, a2)
                    if lit is None or a2 is arg:
                        continue
                    for kpos in range(len(lit)):
                        recs.append({'start': org[1], 'gpos': (None, kpos), 'where': '%s L%s (through %s)' % (us.file(), t.get('line'), tgt.split('::')[-1])})
    if not recs:
        yield Ob('RF-M', '%s#generator-offset' % us.path, False, 'the updated message position i selects generators.values[i + 1] (H_i), as in sign/verify', us.span,
                 fact='no product with an element of generators.values found', expected='values[update_index + 1]')
    for k, r in enumerate(recs):
        pos = ZoneSum(r['start'], r['gpos'])
        yield Ob('RF-M', '%s#generator-offset' % us.path + ('' if k == 0 else '~%d' % k), pos == tadd(ti, 1),
                 'the updated message position i selects generators.values[i + 1] (H_i), as in sign/verify', r['where'],
                 fact={'slice_start': tfmt(r['start']), 'index': tfmt(r['gpos']), 'absolute_position': tfmt(pos)}, expected='update_index + 1')


# ---------------------------------------------------------------------------------- RF-T size thresholds
# The drafts define behaviour uniformly in the number of messages, indexes and generators; the only count-dependent decisions in which
# both outcomes can succeed are listed here.  Any other such branch (or constant-size partition of a list) is a special case for some
# sizes that no fixture vector visits.  Guards (one outcome can only fail) and octet-string lengths are not special cases in this sense.
THRESHOLDS = {
    ('bbsplus::blind::<impl schemes::generics::BlindSignature<schemes::algorithms::BBSplus<CS>>>::blind_sign', 0): 'absent commitment (empty octet string)',
    ('utils::util::bbsplus_utils::serialize', 0): 'empty array',
    ('utils::util::bbsplus_utils::i2osp', 8): 'I2OSP width vs usize width',
    ('utils::util::bbsplus_utils::i2osp', 0): 'I2OSP overflow test',
    ('utils::util::bbsplus_utils::calculate_blind_challenge', 0): 'at least one generator',
    ('bbsplus::blind::finalize_blind_sign', 2): 'the blind generators without the first and the last one exist only if there are more than two (today: get(1..len-1).unwrap_or_default())',
}


PARTITION_CALLS = ('::chunks', '::chunks_exact', '::chunks_mut', '::chunks_exact_mut', '::rchunks', '::rchunks_exact', '::split_at', '::split_at_mut',
                   '::split_at_checked', 'Iterator::take', 'Iterator::skip', 'Iterator::step_by', 'Ord::min', 'Ord::max', 'cmp::min', 'cmp::max', '::truncate',
                   '::split_off', '::resize', '::array_chunks', '::first_chunk', '::split_first_chunk', '::last_chunk', '::split_last_chunk')
# (`windows(k)` is not a partition: the sliding window visits every run of k neighbours of a list of any length, and a predicate over neighbours is
# vacuous for shorter lists - the same code for all sizes)
PARTITIONS = {
    # (owner, callee, size): reason - none on the pinned tree: the only constant-size partitions are 32-byte scalar framings of octet strings
}


def _is_byte_len_sym(zf, sym):
    """`len:<container>` of a container of octets (framing of encodings is decided exactly by RF-E / RF-L / RF-N, not here)"""
    if not sym or not sym.startswith(('len:', 'lenat')):
        return False
    if sym.startswith('lenat'):
        return False
    nm = sym[4:].split('.')
    body = zf.body
    if nm[0].startswith('_') and nm[0][1:].isdigit():
        ty = body.local_ty(int(nm[0][1:]))
    else:
        k = body.param_index(nm[0])
        if k is None:
            return False
        ty = body.local_ty(k)
    if len(nm) > 1:
        return False
    ty = ty.replace('&mut ', '').lstrip('&').strip()
    for pre in ('std::option::Option<', ):
        if ty.startswith(pre):
            ty = ty[len(pre):].lstrip('&').strip()
    return ty.startswith(('[u8', 'std::vec::Vec<u8', 'str', 'std::string::String'))


def _success_sides(body, fd, sw):
    """how many distinct successors of switch block sw can reach a block that builds a success value"""
    acc = {bi for (bi, kind, extra) in accept_blocks(fd)}
    if not acc or not body.local_ty(0).startswith(('std::result::Result', 'std::option::Option', 'bool')):
        acc = set(body.exits)       # a function that cannot fail: every return is a success
    t = body.blocks[sw]['term']
    succs = []
    for v, x in t['targets']:
        if x not in succs:
            succs.append(x)
    if t.get('otherwise') is not None and t['otherwise'] not in succs:
        succs.append(t['otherwise'])
    n = 0
    for s0 in succs:
        seen, st, hit = set(), [s0], False
        while st and not hit:
            x = st.pop()
            if x in seen or body.blocks[x]['cleanup']:
                continue
            seen.add(x)
            if x in acc:
                hit = True
                break
            st.extend(body.succ[x])
        n += 1 if hit else 0
    return n


def _lift_threshold(ctx, cfg, fn, zf, sym, k, depth=0):
    """(owner, zone of owner, symbol, constant): the comparison `sym ? k` of fn, restated in every caller when sym is an integer parameter of a
    function that is not part of the public interface (the decision then belongs to whoever chose the argument)."""
    import re as _re
    from flow import local_target as _lt
    prog, za, eng = ctx.prog(cfg), ctx.zone(cfg), ctx.eng(cfg)
    m = _re.match(r'^p(\d+)$', sym or '')
    if fn is None or not m or depth > 3 or prog.bodies[fn].j.get('pub'):
        yield (fn if fn is not None else zf.body.j.get('parent_fn', zf.body.path), zf, sym, k)
        return
    sites = []
    for cb in prog.bodies.values():
        for bi, t in cb.calls():
            if _lt(eng, t) == fn:
                sites.append((cb, t))
    if not sites:
        yield (fn, zf, sym, k)
        return
    ai = int(m.group(1)) - 1
    for cb, t in sites:
        if cb.kind == 'Closure' or ai >= len(t['args']):
            yield (fn, zf, sym, k)
            continue
        za.summary(cb.path)
        czf = za.zf(cb.path)
        tt = czf.term_op(t['args'][ai])
        if tt is None:
            yield (fn, zf, sym, k)
        elif tt[0] is None:
            continue              # a literal argument: the comparison is decided at compile time for this caller
        else:
            for r in _lift_threshold(ctx, cfg, cb.path, czf, tt[0], k - tt[1], depth + 1):
                yield r


THRESHOLDS_CL03 = {
    # (the type whose functions may make the decision, what is counted, literal)
    ('cl03::sigma_protocols::NISPMultiSecrets::', 'len:messages', 1): 'a vector of one attribute can only hide position 0',
    ('cl03::signature::<impl schemes::generics::Signature<schemes::algorithms::CL03<CS>>>::', 'len:unrevealed_indexes', 0): 'nothing hidden: bases and attributes are handed back as they are',
}


def rule_size_thresholds_cl03(ctx, cfg='prod-all'):
    """the same census over the CL03 code: the protocols are uniform in the number of attributes and of hidden positions (two tabled special cases)"""
    return rule_size_thresholds(ctx, cfg=cfg, scope=('cl03::',), table=THRESHOLDS_CL03, floor=3)


def rule_size_thresholds(ctx, cfg='prod-all', scope=('bbsplus::', 'utils::util::bbsplus_utils', 'utils::message::bbsplus_message', 'utils::util::get_remaining'), table=None, floor=10):
    """A *size special case* is a branch on `count OP literal` both of whose outcomes can still end in success, or a partition of a list at a
    literal size: vectors on either side are processed by different code, which no fixture sees unless it happens to cross the literal.
    Exempt by construction: guards (one outcome can only fail - what they accept is decided by RF-E / RF-L / RF-F), and lengths of octet
    strings (framing: RF-E / RF-N).  Every remaining special case must be one the drafts define (table)."""
    prog, za, eng = ctx.prog(cfg), ctx.zone(cfg), ctx.eng(cfg)
    THRESHOLDS_ = THRESHOLDS if table is None else table
    n = 0
    n_all = 0
    n_part = 0
    for p, b in sorted(prog.bodies.items()):
        if b.from_expansion or not p.startswith(scope):
            continue
        if b.kind != 'Closure':
            za.summary(p)
        zf = za.zf(p)
        fd = eng.fndep(p)
        owner = p if b.kind != 'Closure' else b.j.get('parent_fn', p)
        for bi, blk in enumerate(b.blocks):
            if blk['cleanup']:
                continue
            t = blk['term']
            if t['k'] != 'switch' or t['discr']['k'] not in ('copy', 'move') or t['discr']['pl'].get('p'):
                continue
            found = []
            l = t['discr']['pl']['l']
            if b.local_ty(l) in ('usize', 'u64', 'u32'):
                tt = zf.term_local(l)
                if tt is not None and tt[0] is not None:
                    for v, _tb in t['targets']:
                        if v.isdigit():
                            found.append((tt[0], int(v) - tt[1]))
            for _ in range(4):
                d = zf.single_def(l)
                if not d:
                    break
                if d[0] == 'assign' and d[2]['rv']['k'] == 'binop' and d[2]['rv']['op'] in ('Eq', 'Ne', 'Lt', 'Le', 'Gt', 'Ge'):
                    a, c = zf.term_op(d[2]['rv']['a']), zf.term_op(d[2]['rv']['b'])
                    if a is not None and c is not None and (a[0] is None) != (c[0] is None):
                        sym, k = (a, c[1]) if c[0] is None else (c, a[1])
                        # a variable assigned on several paths: if one plain copy is the only definition reaching the comparison, it is that value
                        if sym[0].startswith('m') and sym[0][1:].isdigit() and d[1] is not None:
                            si = b.blocks[d[1]]['stmts'].index(d[2]) if d[2] in b.blocks[d[1]]['stmts'] else None
                            rd = zf.reaching_defs(int(sym[0][1:]), d[1], si)
                            if rd and len(rd) == 1 and rd[0][0] == 'assign' and rd[0][2]['rv']['k'] == 'use':
                                t2 = zf.term_op(rd[0][2]['rv']['op'])
                                if t2 is not None and t2[0] is not None and not t2[0].startswith('m'):
                                    sym = (t2[0], t2[1] + sym[1])
                        # normalise `x + j  OP  k` to a threshold on x
                        found.append((sym[0], k - sym[1]))
                    break
                if d[0] == 'assign' and d[2]['rv']['k'] == 'unop' and d[2]['rv']['op'] == 'Not' and d[2]['rv']['a']['k'] in ('copy', 'move'):
                    l = d[2]['rv']['a']['pl']['l']
                    continue
                if d[0] == 'call' and (d[2].get('callee') or '').endswith(('::is_empty',)) and d[2]['args'] and d[2]['args'][0]['k'] in ('copy', 'move'):
                    ln = zf.len_of_place(d[2]['args'][0]['pl'])
                    found.append(((ln[0] if ln else None) or 'len', 0))
                    break
                break
            for sym, k in found:
                if sym is not None and (sym.startswith('i') or re.fullmatch(r'v\d+n', sym)):
                    continue      # loop induction variable / position in an enumeration against a constant: not a size decision
                n_all += 1
                if b.kind != 'Closure' and _success_sides(b, fd, bi) < 2:
                    continue      # a guard: one outcome can only fail
                # a threshold on a plain integer parameter of a private helper is a threshold on what its callers pass
                for own, ozf, osym, ok_ in _lift_threshold(ctx, cfg, owner if b.kind != 'Closure' else None, zf, sym, k):
                    if _is_byte_len_sym(ozf, osym):
                        continue
                    n += 1
                    why3 = [v_ for k_, v_ in THRESHOLDS_.items() if len(k_) == 3 and k_[1] == osym and k_[2] == ok_ and (own == k_[0] or (k_[0].endswith('::') and (own or '').startswith(k_[0])))]
                    ok = ((own, ok_) in THRESHOLDS_) or bool(why3)
                    yield Ob('RF-T', '%s#threshold:%s' % (own, ok_), ok,
                             'both outcomes of a comparison of a count with the literal %s can succeed: size-dependent special cases must be the ones of the drafts' % ok_,
                             '%s L%s' % (b.file(), t.get('line')), fact={'term': osym, 'constant': ok_, 'reason': THRESHOLDS_.get((own, ok_)) or (why3[0] if why3 else None), 'compared_in': p},
                             expected='tabled threshold')
        # a selection without a branch: `(count > k).then_some(v)` / `.then(|| ..)` - present for some sizes, absent for others, and both go on
        for bi, t in b.calls():
            cal = t.get('callee') or ''
            if not cal.endswith(('<impl bool>::then_some', '<impl bool>::then')) or not t['args'] or t['args'][0]['k'] not in ('copy', 'move') or t['args'][0]['pl'].get('p'):
                continue
            l = t['args'][0]['pl']['l']
            for _ in range(4):
                d = zf.single_def(l)
                if not d:
                    break
                if d[0] == 'assign' and d[2]['rv']['k'] == 'binop' and d[2]['rv']['op'] in ('Eq', 'Ne', 'Lt', 'Le', 'Gt', 'Ge'):
                    a, c = zf.term_op(d[2]['rv']['a']), zf.term_op(d[2]['rv']['b'])
                    if a is not None and c is not None and (a[0] is None) != (c[0] is None):
                        sym, k = (a, c[1]) if c[0] is None else (c, a[1])
                        n_all += 1
                        if sym[0] is not None and not sym[0].startswith('i') and not _is_byte_len_sym(zf, sym[0]):
                            n += 1
                            ok = (owner, 'selection', k - sym[1]) in THRESHOLDS_       # (a selection is tabled on its own, not under the branch on the same literal)
                            yield Ob('RF-T', '%s#selection:%s' % (owner, k - sym[1]), ok,
                                     'a value is present or absent depending on a comparison of a count with the literal %s (`then_some` / `then`): a size-dependent special case' % (k - sym[1]),
                                     '%s L%s' % (b.file(), t.get('line')), fact={'term': sym[0], 'constant': k - sym[1], 'selected_by': cal.split('::')[-1]}, expected='tabled threshold')
                    break
                if d[0] == 'assign' and d[2]['rv']['k'] == 'unop' and d[2]['rv']['op'] == 'Not' and d[2]['rv']['a']['k'] in ('copy', 'move'):
                    l = d[2]['rv']['a']['pl']['l']
                    continue
                if d[0] == 'assign' and d[2]['rv']['k'] == 'use' and d[2]['rv']['op']['k'] in ('copy', 'move') and not d[2]['rv']['op']['pl'].get('p'):
                    l = d[2]['rv']['op']['pl']['l']
                    continue
                break
        # partitioning by a constant size: chunks(N), split_at(N), take(N), len.min(N) ... treat sizes below and above N differently without a branch
        for bi, t in b.calls():
            cal = t.get('callee') or ''
            if not cal.endswith(PARTITION_CALLS) or not t['args']:
                continue
            a0 = t['args'][0]
            if a0['k'] in ('copy', 'move'):
                ty0 = b.local_ty(a0['pl']['l']).replace('&mut ', '').lstrip('&').strip()
                if ty0.startswith(('[u8', 'std::vec::Vec<u8', 'std::slice::Iter<\'_, u8', 'str')):
                    continue          # framing of an octet string
                t0 = zf.term_op(a0)
                if t0 is not None and _is_byte_len_sym(zf, t0[0]):
                    continue          # len(octets).min(N) ...
            for a in t['args'][1:]:
                tt = zf.term_op(a)
                if tt is None or tt[0] is not None:
                    continue
                k = tt[1]
                short = cal.split('::')[-1]
                n_part += 1
                ok = (owner, short, k) in PARTITIONS
                yield Ob('RF-T', '%s#partition:%s(%s)' % (owner, short, k), ok,
                         'a list is partitioned at the literal size %s by %s: inputs shorter and longer than that are processed differently' % (k, short),
                         '%s L%s' % (b.file(), t.get('line')), fact={'callee': cal, 'constant': k, 'reason': PARTITIONS.get((owner, short, k))}, expected='tabled partition')
    yield Ob('RF-T', 'crate#threshold-census%s' % ('' if table is None else ':' + scope[0].strip(':')), n_all >= floor, 'comparisons of a count / length with a literal examined', '',
             fact={'examined': n_all, 'special_cases (both outcomes can succeed, not an octet length)': n, 'partitions': n_part}, expected='>= %d examined' % floor, nontrivial=False)


# ---------------------------------------------------------------------------------- checked constructors
# Every conversion of untrusted octets to a group element / scalar must go through a constructor that checks the curve equation,
# the prime-order subgroup and the canonical range (bls12_381_plus).  Anything else (unchecked / reducing constructors) is tabled with a reason.
CHECKED = {
    'bls12_381_plus::G1Affine::from_compressed': 'curve + subgroup + canonical',
    'bls12_381_plus::G2Affine::from_compressed': 'curve + subgroup + canonical',
    'bls12_381_plus::G2Affine::from_uncompressed': 'curve + subgroup + canonical',
    'bls12_381_plus::Scalar::from_be_bytes': 'rejects values >= r',
}
TABLED_OTHER = {
    ('utils::util::bbsplus_utils::hash_to_scalar', 'bls12_381_plus::Scalar::from_okm'): 'hash_to_scalar reduces 48 uniform bytes mod r by design (draft-08 4.2.2)',
    ('bbsplus::generators::Generators::create', 'bls12_381_plus::G1Projective::from_compressed_hex'): 'P1 constant of the ciphersuite',
    ('bbsplus::generators::create_generators', 'bls12_381_plus::G1Projective::hash'): 'hash_to_curve output is in G1 by construction',
}
CONSTRUCTOR_PAT = ('::from_compressed', '::from_uncompressed', '::from_be_bytes', '::from_le_bytes', '::from_bytes', '::from_okm', '::from_raw',
                   '::from_bytes_wide', '::from_be_hex', '::from_le_hex', '::from_compressed_hex', '::from_uncompressed_hex', '::hash', '::from_repr', '::from_uniform_bytes')
CRYPTO_TYPES = ('bls12_381_plus::G1Affine', 'bls12_381_plus::G2Affine', 'bls12_381_plus::G1Projective', 'bls12_381_plus::G2Projective', 'bls12_381_plus::Scalar',
                'bls12_381_plus::Gt', 'bls12_381_plus::G1Compressed', 'bls12_381_plus::G2Compressed')


def _const_operands(b):
    """(line, operand) for every constant operand used as a value: statement operands and call arguments (not the callee itself)"""
    for blk in b.blocks:
        if blk['cleanup']:
            continue
        for st in blk['stmts']:
            if st['k'] != 'assign':
                continue
            rv = st['rv']
            ops = [rv.get('op'), rv.get('a'), rv.get('b')] + list(rv.get('ops') or [])
            for o in ops:
                if isinstance(o, dict) and o.get('k') == 'const':
                    yield st.get('line'), o
        t = blk['term']
        if t['k'] == 'call':
            for o in t['args']:
                if o.get('k') == 'const':
                    yield t.get('line'), o


def rule_checked_constructors(ctx, cfg='prod-all'):
    prog = ctx.prog(cfg)
    n = 0
    for p, b in sorted(prog.bodies.items()):
        if b.from_expansion or not p.startswith(('bbsplus::', 'utils::util::bbsplus_utils', 'utils::message::bbsplus_message')):
            continue
        owner = p if b.kind != 'Closure' else b.j.get('parent_fn', p)
        for bi, t in b.calls():
            cal = t.get('resolved') or t.get('callee') or ''
            cal0 = t.get('callee') or ''
            if not cal0.startswith(CRYPTO_TYPES):
                continue
            last = '::' + cal0.split('::')[-1]
            if not (last.startswith(CONSTRUCTOR_PAT) or 'unchecked' in last):
                continue
            n += 1
            ok = cal0 in CHECKED or (owner, cal0) in TABLED_OTHER
            yield Ob('RF-D', '%s#constructor:%s' % (owner, cal0.split('bls12_381_plus::')[-1]), ok,
                     'octets become a group element / scalar only through a constructor that checks curve, subgroup and range', '%s L%s' % (b.file(), t['line']),
                     fact={'callee': cal0, 'why': CHECKED.get(cal0) or TABLED_OTHER.get((owner, cal0))}, expected='checked constructor or tabled exception')
        # a constructor handed on as a function value (`parse_point(slice, G1Affine::from_compressed, ..)`) is a use like a call
        for line, o in _const_operands(b):
            f = o.get('fn') or ''
            if not f.startswith(CRYPTO_TYPES):
                continue
            last = '::' + f.split('::')[-1]
            if not (last.startswith(CONSTRUCTOR_PAT) or 'unchecked' in last):
                continue
            n += 1
            ok = f in CHECKED or (owner, f) in TABLED_OTHER
            yield Ob('RF-D', '%s#constructor-value:%s' % (owner, f.split('bls12_381_plus::')[-1]), ok,
                     'octets become a group element / scalar only through a constructor that checks curve, subgroup and range (constructor passed as a value)',
                     '%s L%s' % (b.file(), line), fact={'function_value': f, 'why': CHECKED.get(f) or TABLED_OTHER.get((owner, f))},
                     expected='checked constructor or tabled exception')
    yield Ob('RF-D', 'crate#constructor-census', n >= 7, 'constructor call sites found', '', fact=n, expected='>= 7', nontrivial=False)
    # subgroup / curve predicates used as a substitute for the checked constructors are suspicious: census must be empty
    subst = []
    for p, b in prog.bodies.items():
        if b.from_expansion or not p.startswith(('bbsplus::', 'utils::')):
            continue
        for bi, t in b.calls():
            cal0 = t.get('callee') or ''
            if cal0.endswith(('::is_torsion_free', '::is_on_curve', '::clear_cofactor')):
                if bi in b.debug_assert_blocks():
                    continue      # restated inside a debug assertion, not used in place of a checked constructor
                subst.append('%s L%s: %s' % (p, t['line'], cal0))
    yield Ob('RF-D', 'crate#manual-subgroup-checks', not subst, 'no hand-rolled curve / subgroup test replaces the checked constructors', '', fact=subst[:6], expected='none')


# ------------------------------------------------------------------ result binding (every success value is computed from the inputs it must bind)
import bbs_tables as _T
RESULT_BINDING = {
    _T.SIG + 'update_signature': ['self', 'sk', 'old_message', 'new_message', 'update_index'],
    _T.SIG + 'sign': ['sk', 'pk', 'messages', 'header'],
    _T.BSIG + 'blind_sign': ['sk', 'pk', 'commitment_with_proof', 'header', 'messages'],
    _T.POK + 'proof_gen': ['pk', 'signature', 'header', 'ph', 'messages', 'disclosed_indexes'],
    _T.POK + 'blind_proof_gen': ['pk', 'signature', 'header', 'ph', 'messages', 'committed_messages', 'disclosed_indexes',
                                 'disclosed_commitment_indexes', 'secret_prover_blind'],
    _T.COM + 'commit': ['committed_messages'],
}
_CLSIG = 'cl03::signature::<impl schemes::generics::Signature<schemes::algorithms::CL03<CS>>>::'
_CLBSIG = 'cl03::blind::<impl schemes::generics::BlindSignature<schemes::algorithms::CL03<CS>>>::'
RESULT_BINDING_CL03 = {
    _CLSIG + 'sign': ['pk', 'sk', 'a_bases', 'message'],
    _CLSIG + 'sign_multiattr': ['pk', 'sk', 'a_bases', 'messages'],
    _CLBSIG + 'blind_sign': ['pk', 'sk', 'C', 'a_bases', 'revealed_messages', 'revealed_message_indexes'],
}
# "value unchanged" shortcuts are accepted only under an exact library equality of the two inputs
_EXACT_EQ = ('core::slice::cmp::', 'std::cmp::PartialEq::eq', 'core::cmp::PartialEq::eq', 'std::vec::', 'alloc::vec::', 'core::array::equality::')


def rule_result_binding(ctx, table=None, cfg='prod-all', only=None):
    """every success value of an issuing / updating / proving operation is data dependent on each input it must be bound to - on every return
    site separately: a shortcut that hands back an earlier value (the old signature, a cached proof) without recomputing it from the new input
    breaks the statement the caller relies on.  An early return under an exact library equality of old and new value is the only accepted
    exception."""
    from flow import accept_blocks, GateAnalysis
    from dep import strip
    prog, eng = ctx.prog(cfg), ctx.eng(cfg)
    ga = GateAnalysis(eng)
    for suffix, reqs in sorted((table or RESULT_BINDING).items()):
        if only and not any(suffix.endswith(o) for o in only):
            continue
        body = resolve_fn(prog, suffix)
        fd = eng.fndep(body.path)
        sites = []
        fallible = body.local_ty(0).startswith(('std::result::Result', 'std::option::Option'))
        for bi, blk in enumerate(body.blocks):
            if blk['cleanup']:
                continue
            for s in blk['stmts']:
                if s['k'] == 'assign' and s['dst']['l'] == 0 and not s['dst'].get('p') and s['rv']['k'] == 'agg' and s['rv'].get('variant') == 'Ok':
                    sites.append((bi, s, fd.read_op(s['rv']['ops'][0]) if s['rv']['ops'] else set()))
                elif not fallible and s['k'] == 'assign' and s['dst']['l'] == 0 and not s['dst'].get('p') and s['rv']['k'] in ('agg', 'use'):
                    # infallible constructor (CL03 sign returns Self): the value built here is the result
                    at = set()
                    for o in (s['rv'].get('ops') or []) + ([s['rv']['op']] if s['rv']['k'] == 'use' else []):
                        at |= fd.read_op(o)
                    sites.append((bi, s, at))
            t = blk['term']
            if t['k'] == 'call' and t['dst']['l'] == 0 and not t['dst'].get('p') and 'from_residual' not in (t.get('callee') or '') and 'panic' not in (t.get('callee') or ''):
                at = set()
                for a in t['args']:
                    at |= fd.read_op(a)
                sites.append((bi, t, at))
        if not sites:
            raise AnchorMissing('no success return found in %s' % body.path)
        for n, (bi, s, atoms) in enumerate(sites):
            srcs = {body.local_name(strip(x)[1]) for x in atoms if strip(x)[0] == 'p'}
            exact_eq = False
            for g in ga.block_gates(fd, bi):
                if g.kind == 'call' and g.dom is True and g.truth is True and (g.callee or '').startswith(_EXACT_EQ) and (g.callee or '').endswith('::eq'):
                    gs = {body.local_name(strip(x)[1]) for x in g.all_atoms() if strip(x)[0] == 'p'}
                    if {'old_message', 'new_message'} <= gs:
                        exact_eq = True
            for r in reqs:
                if body.param_index(r) is None:
                    raise AnchorMissing('%s has no parameter %s' % (body.path, r))
                ok = r in srcs or (exact_eq and r != 'self')
                yield Ob('RF-D', '%s#result[%d]∋%s' % (body.path, n, r), ok, 'success value returned here is computed from `%s`' % r,
                         '%s L%s' % (body.file(), s.get('line')), fact={'sources': sorted(x for x in srcs if x), 'under_exact_equality': exact_eq}, expected=r)


# ------------------------------------------------------------------ index lists are validated against their own message list
INDEX_LISTS = [
    (_T.POK + 'blind_proof_gen', 'disclosed_indexes', 'messages'),
    (_T.POK + 'blind_proof_gen', 'disclosed_commitment_indexes', 'committed_messages'),
    ('bbsplus::proof::core_proof_gen', 'disclosed_indexes', 'messages'),
]


def _syms_from_param(zf, kind, kparam):
    """symbols `kind:<container>` occurring in the function's facts whose container is (derived by Option defaulting / copying from) parameter kparam"""
    from dep import strip
    body, fd = zf.body, zf.fd
    out = set()
    pname = body.local_name(kparam)
    for fs in list(zf.edge_facts.values()) + [[(a, b) for (_w, a, b) in zf.global_facts]]:
        for pair in fs:
            for t in pair:
                if t is None or t[0] is None or not t[0].startswith(kind + ':'):
                    continue
                nm = t[0][len(kind) + 1:]
                if '.' in nm:
                    continue
                if nm == pname:
                    out.add(t[0])
                elif nm.startswith('_') and nm[1:].isdigit():
                    from rf_consts import _trace_identity
                    par, _chain, _why = _trace_identity(fd, body, {'k': 'copy', 'pl': {'l': int(nm[1:])}})
                    if par == kparam:
                        out.add(t[0])
    return out


def rule_index_lists_validated(ctx, cfg='prod-all', table=INDEX_LISTS):
    """on every success return of a proof generator, every element of an index list is known to be smaller than the length of the message
    list it indexes (facts of the difference-bound domain, including the quantified facts produced by any / all / find over the list and
    by checking helpers), and it is NOT merely known to be smaller than the length of another list of the same call: an index list checked
    against the wrong list refuses honest inputs when that list is shorter and lets out-of-range indexes through when it is longer."""
    prog, za = ctx.prog(cfg), ctx.zone(cfg)
    for suffix, ilist, mlist in table:
        body = resolve_fn(prog, suffix)
        za.summary(body.path)
        zf = za.zf(body.path)
        ki, km = body.param_index(ilist), body.param_index(mlist)
        if ki is None or km is None:
            raise AnchorMissing('%s: parameters %s / %s' % (body.path, ilist, mlist))
        accept = [bi for bi, blk in enumerate(body.blocks) if not blk['cleanup'] and any(
            s['k'] == 'assign' and s['dst']['l'] == 0 and not s['dst'].get('p') and s['rv']['k'] == 'agg' and s['rv'].get('variant') == 'Ok' for s in blk['stmts'])]
        if not accept:
            raise AnchorMissing('%s: no Ok return' % body.path)
        es = _syms_from_param(zf, 'elem', ki)
        ls = _syms_from_param(zf, 'len', km) | ({'len:' + mlist} if body.local_ty(km).startswith(('&[', '&std::vec::Vec')) else set())
        ok = bool(es) and bool(ls) and all(any(zf.prove_le((e, 1), (l, 0), a) for e in es for l in ls) for a in accept)
        yield Ob('RF-L', '%s#validated:%s<len(%s)' % (body.path, ilist, mlist), ok,
                 'every element of `%s` is below the length of `%s` on every success return' % (ilist, mlist), body.span,
                 fact={'element_symbols': sorted(es), 'length_symbols': sorted(ls), 'success_returns': len(accept)}, expected='elem + 1 <= len')
        # exactness: not validated against another list of the same call
        others = [m2 for (s2, i2, m2) in table if s2 == suffix and m2 != mlist]
        for m2 in others:
            k2 = body.param_index(m2)
            l2 = _syms_from_param(zf, 'len', k2) if k2 is not None else set()
            wrong = bool(es) and bool(l2) and any(zf.prove_le((e, 1), (l, 0), a) for e in es for l in l2 for a in accept)
            yield Ob('RF-L', '%s#not-against:%s<len(%s)' % (body.path, ilist, m2), not wrong,
                     '`%s` is not bounded by the length of the unrelated list `%s`' % (ilist, m2), body.span,
                     fact={'element_symbols': sorted(es), 'other_length_symbols': sorted(l2)}, expected='no such bound')


def rule_blind_verifier_index_ranges(ctx, cfg='prod-all'):
    """The blind verifier is told which disclosed messages the signer chose (positions below L) and which the prover committed to (positions
    below M, placed after the L signer messages and the blind factor).  Where the generator list is asked for (`prepare_parameters(.., L + 1,
    M + 1, ..)` - everything after it works on the concatenated lists), every element of `disclosed_indexes` must be known to be below L and
    every element of `disclosed_commitment_indexes` below M, and each message list must have exactly the length of its own index list:
    otherwise a committed message, or the blind factor, verifies as a signer message (and the other way round).  L and M are read off the two
    counts handed to prepare_parameters."""
    from rf_codec import T as _T2
    prog, za, eng = ctx.prog(cfg), ctx.zone(cfg), ctx.eng(cfg)
    body = resolve_fn(prog, _T.POK + 'blind_proof_verify')
    za.summary(body.path)
    zf = za.zf(body.path)
    site = None
    for bi, t in body.calls():
        if (local_target(eng, t) or '').endswith('prepare_parameters') and len(t['args']) >= 4:
            site = (bi, t)
    if site is None:
        raise AnchorMissing('%s: no prepare_parameters call' % body.path)
    bi, t = site
    counts = [zf.term_op(t['args'][2]), zf.term_op(t['args'][3])]
    for (ilist, mlist, cnt, what) in (('disclosed_indexes', 'disclosed_messages', counts[0], 'L'), ('disclosed_commitment_indexes', 'disclosed_committed_messages', counts[1], 'M')):
        ki, km = body.param_index(ilist), body.param_index(mlist)
        if ki is None or km is None:
            raise AnchorMissing('%s: parameters %s / %s' % (body.path, ilist, mlist))
        es = _syms_from_param(zf, 'elem', ki)
        # elem + 1 <= count - 1, i.e. elem + 2 <= count  (count = L + 1 / M + 1)
        ok = cnt is not None and bool(es) and any(zf.prove_le((e, 2), cnt, bi) for e in es)
        yield Ob('RF-L', '%s#range:%s<%s' % (body.path, ilist, what), ok,
                 'every element of `%s` is below %s where the generators are derived' % (ilist, what), '%s L%s' % (body.file(), t.get('line')),
                 fact={'element_symbols': sorted(es), 'count_term': str(cnt)}, expected='elem + 1 <= %s' % what)
        li = _syms_from_param(zf, 'len', ki)
        lm = _syms_from_param(zf, 'len', km) | {'len:' + mlist}
        both = bool(li) and bool(lm) and any(zf.prove_le((a, 0), (b_, 0), bi) and zf.prove_le((b_, 0), (a, 0), bi) for a in li for b_ in lm)
        yield Ob('RF-L', '%s#same-length:%s~%s' % (body.path, mlist, ilist), both,
                 '`%s` has exactly as many entries as `%s`' % (mlist, ilist), '%s L%s' % (body.file(), t.get('line')),
                 fact={'index_length_symbols': sorted(li), 'message_length_symbols': sorted(lm)}, expected='equal lengths')


# ---------------------------------------------------------------------------------- decoder input integrity
ASSIGN_OPS = ('BitAndAssign::bitand_assign', 'BitOrAssign::bitor_assign', 'BitXorAssign::bitxor_assign', 'ShlAssign::shl_assign', 'ShrAssign::shr_assign',
              'AddAssign::add_assign', 'SubAssign::sub_assign', 'MulAssign::mul_assign', 'DivAssign::div_assign', 'RemAssign::rem_assign', 'Not::not',
              '::reverse', '::swap', '::fill', '::rotate_left', '::rotate_right', '::sort', '::make_ascii_lowercase', '::make_ascii_uppercase')


def _checked_fn_params(prog, eng, scope):
    """{(function, parameter local)}: function-valued parameters for which some caller hands in a checked constructor
    (`parse_point(slice, G1Affine::from_compressed, ..)`): a call of the parameter is a call of the constructor"""
    out = set()
    for p, b in prog.bodies.items():
        if b.from_expansion or not p.startswith(scope):
            continue
        for bi, t in b.calls():
            tgt = local_target(eng, t)
            if tgt is None or tgt not in prog.bodies:
                continue
            for k, a in enumerate(t['args']):
                if a.get('k') == 'const' and a.get('fn') in CHECKED and k + 1 <= prog.bodies[tgt].arg_count:
                    out.add((tgt, k + 1))
    return out


def _decoder_sinks(fd, b, t, D, FP, tgt):
    """operands of call `t` that are judged by a checked constructor: its first argument, the argument of a decoder parameter of a local callee,
    or the arguments of a call of a function parameter that stands for a checked constructor"""
    cal = t.get('callee') or ''
    if cal in CHECKED:
        return [t['args'][0]] if t['args'] else []
    if cal in ('std::ops::FnOnce::call_once', 'std::ops::Fn::call', 'std::ops::FnMut::call_mut') and len(t['args']) == 2 and t['args'][0]['k'] in ('copy', 'move'):
        r0 = fd.resolve_place(t['args'][0]['pl'])[0]
        if (b.path, r0) in FP:
            return [t['args'][1]]
        return []
    if tgt is not None:
        return [t['args'][k - 1] for (f, k) in D if f == tgt and k - 1 < len(t['args'])]
    return []


def decoder_params(ctx, cfg, scope):
    """{(function, parameter local)}: octet parameters that reach a checked constructor, directly or through another such parameter"""
    from dep import strip
    prog, eng = ctx.prog(cfg), ctx.eng(cfg)
    D = set()
    FP = _checked_fn_params(prog, eng, scope)
    changed = True
    rounds = 0
    while changed and rounds < 6:
        changed = False
        rounds += 1
        for p, b in prog.bodies.items():
            if b.from_expansion or not p.startswith(scope) or b.kind == 'Closure':
                continue
            fd = eng.fndep(p)
            for bi, t in b.calls():
                cal = t.get('callee') or ''
                tgt = local_target(eng, t)
                for a in _decoder_sinks(fd, b, t, D, FP, tgt):
                    if a['k'] not in ('copy', 'move'):
                        continue
                    for at in fd.read_op(a):
                        st = strip(at)
                        if st[0] == 'p' and at[0] not in ('len', 'narrow'):
                            ty = b.local_ty(st[1]).replace('&mut ', '').lstrip('&').strip()
                            if ty.startswith(('[u8', 'std::vec::Vec<u8')) and (p, st[1]) not in D:
                                D.add((p, st[1]))
                                changed = True
    return D


def rule_decoder_input_integrity(ctx, cfg='prod-all', scope=('bbsplus::', 'utils::util::bbsplus_utils', 'utils::message::bbsplus_message')):
    """The octets a checked constructor judges are the caller's octets: a local buffer that is handed to a checked constructor (or to a decoder
    that hands it on) is filled by copying only - no element of it is computed (`buf[0] &= mask`, `buf[i] = x ^ y`, reverse / swap / fill).
    Otherwise several encodings decode to one value (non-canonical forms accepted) or a different value is validated than the one supplied."""
    prog, eng = ctx.prog(cfg), ctx.eng(cfg)
    D = decoder_params(ctx, cfg, scope)
    FP = _checked_fn_params(prog, eng, scope)
    n = 0
    for p, b in sorted(prog.bodies.items()):
        if b.from_expansion or not p.startswith(scope) or b.kind == 'Closure':
            continue
        fd = eng.fndep(p)
        seen = set()
        for bi, t in b.calls():
            cal = t.get('callee') or ''
            tgt = local_target(eng, t)
            for a in _decoder_sinks(fd, b, t, D, FP, tgt):
                if a['k'] not in ('copy', 'move'):
                    continue
                roots = [fd.resolve_place(a['pl'])[0]]
                # the argument tuple of a call through a function parameter: the buffers it is built from
                d0 = [x for x in fd.defs.get(roots[0], []) if not x[2].get('dst', {}).get('p')]
                if len(d0) == 1 and d0[0][0] == 'assign' and d0[0][2]['rv']['k'] == 'agg' and d0[0][2]['rv'].get('ak') == 'tuple':
                    roots = [fd.resolve_place(o['pl'])[0] for o in d0[0][2]['rv']['ops'] if o['k'] in ('copy', 'move')]
                for root in roots:
                    if fd.is_param(root) or root in seen:
                        continue
                    ty = b.local_ty(root).replace('&mut ', '').lstrip('&').strip()
                    if not ty.startswith(('[u8', 'std::vec::Vec<u8')):
                        continue
                    seen.add(root)
                    n += 1
                    bad = []
                    for bj, st in b.stmts():
                        if st['k'] == 'assign' and st['dst'].get('p') and fd.resolve_place(st['dst'])[0] == root:
                            rv = st['rv']
                            src = None
                            if rv['k'] in ('binop', 'unop') or (rv['k'] == 'cast' and rv.get('ck') == 'IntToInt'):
                                bad.append('L%s element computed by %s' % (st.get('line'), rv.get('op') or rv['k']))
                            elif rv['k'] == 'use' and rv['op']['k'] in ('copy', 'move') and not rv['op']['pl'].get('p'):
                                d = [x for x in fd.defs.get(rv['op']['pl']['l'], [])]
                                if len(d) == 1 and d[0][0] == 'assign' and d[0][2]['rv']['k'] in ('binop', 'unop'):
                                    bad.append('L%s element computed by %s' % (st.get('line'), d[0][2]['rv'].get('op')))
                    for bj, t2 in b.calls():
                        c2 = t2.get('callee') or ''
                        if c2.endswith(ASSIGN_OPS) and t2['args'] and t2['args'][0]['k'] in ('copy', 'move') and fd.resolve_place(t2['args'][0]['pl'])[0] == root \
                                and b.local_ty(t2['args'][0]['pl']['l']).startswith('&mut'):
                            bad.append('L%s %s' % (t2.get('line'), c2.split('::')[-1]))
                    yield Ob('RF-E', '%s#decoder-input:%s' % (p, b.local_name(root)), not bad,
                             'the buffer handed to a checked constructor / decoder is filled by copying the input octets only', '%s L%s' % (b.file(), t.get('line')),
                             fact={'buffer': b.local_name(root), 'handed_to': (tgt or cal).split('::')[-1], 'computed_writes': bad[:4]}, expected='copies only')
    yield Ob('RF-E', 'crate#decoder-inputs', len(D) >= 6, 'octet parameters that reach a checked constructor', '', fact={'decoder_parameters': len(D), 'local_buffers_judged': n},
             expected='>= 6', nontrivial=False)
