"""RF-W: what the acceptance of an entry point is tested on.

Every comparison an accept path of an entry point depends on (through helpers, predicates, closures) is summarised by the set of inputs its
operands are computed from.  The family of these sets is a fingerprint of *which questions
are asked about the input before success*.  A set that is neither tabled nor a union of tabled ones is a new kind of acceptance condition:
some inputs that were accepted may now be refused (a "hardening" check that is too strict, a validation against the wrong sibling value),
which no positive fixture notices unless it has that shape.  Removed sets are left to the rules that require specific gates (RF-D)."""
import json, os
from framework import Ob, AnchorMissing
from rf_gates import resolve_fn
from dep import strip
import bbs_tables as T

TABLE_FILE = os.path.join(os.path.dirname(os.path.abspath(__file__)), 'gate_sets.json')
_CL = 'cl03::'
ENTRIES = {
    'bbs': [T.SIG + 'sign', T.SIG + 'verify', T.SIG + 'update_signature', T.POK + 'proof_gen', T.POK + 'proof_verify', T.COM + 'commit',
            T.COM + 'deserialize_and_validate_commit', T.BSIG + 'blind_sign', T.BSIG + 'verify_blind_sign', T.POK + 'blind_proof_gen', T.POK + 'blind_proof_verify'],
    'cl03': ['cl03::signature::<impl schemes::generics::Signature<schemes::algorithms::CL03<CS>>>::verify',
             'cl03::signature::<impl schemes::generics::Signature<schemes::algorithms::CL03<CS>>>::verify_multiattr',
             'cl03::proof::<impl schemes::generics::ZKPoK<schemes::algorithms::CL03<CS>>>::verify_proof',
             'cl03::proof::<impl schemes::generics::PoKSignature<schemes::algorithms::CL03<CS>>>::proof_verify',
             'cl03::range_proof::Boudot2000RangeProof::verify'],
}


# Gates that are not questions about the input: the exit of a `for` loop (every list ends), and refusals on upward overflow of usize arithmetic
# (sums of lengths and indexes of real lists stay below 2^57; an unconstrained integer parameter that overflows them was refused by the same
# arithmetic before, wherever it was written).  Where such a check sits moves with the form of the code (closure + collect / loop + push).
NOT_CONDITIONS = ('Iterator::next', '::checked_add', '::checked_mul', '::checked_next_power_of_two')


def _question(g):
    w = g.what or ''
    return '::'.join(w.split('::')[-2:]) if '::' in w else w


def _region_expressible(g):
    """can the acceptance-region rule (RF-V, difference bounds) see what this condition establishes about counts?  An order comparison
    either way, an equality that has to hold (`a == b` true, `a != b` false).  Not: an equality that must *fail* (`any(|i| i == L)` refused -
    a disequality is no difference bound), a test whose outcome is not known."""
    if g.kind == 'cmp':
        if g.what in ('Lt', 'Le', 'Gt', 'Ge'):
            return g.truth is not None
        if g.what == 'Eq':
            return g.truth is True
        if g.what == 'Ne':
            return g.truth is False
    return False


def _disequality(g):
    """an equality of two machine integers that must fail for the function to go on (`if i == L { refuse }`, `any(|i| i == L)` refused):
    a condition on counts / positions that no difference bound expresses"""
    return g.kind == 'cmp' and ((g.what == 'Eq' and g.truth is False) or (g.what == 'Ne' and g.truth is True))


def gate_sets(ctx, cfg, path, with_question=False, with_expr=False):
    prog, ga = ctx.prog(cfg), ctx.gates(cfg)
    b = prog.bodies[path]
    out = set()
    for ap in ga.accept_paths(path):
        for g in ap['gates']:
            if g.kind == 'deleg':
                continue
            if g.kind == 'call' and (g.what or '').endswith(NOT_CONDITIONS):
                continue
            if g.kind == 'cmp' and (any(str(c) == str(2 ** 64 - 1) for c in g.const_ops)
                                    or any(a[0] == 'c' and str(a[1]) == str(2 ** 64 - 1) for a in g.all_atoms())):
                continue      # `x == usize::MAX` before `x + 1`: the same upward-overflow refusal, written as a comparison
            rs = set()
            for a in g.all_atoms():
                st = strip(a)
                if st[0] == 'p':
                    # which inputs - not whether through their value or only their length: that distinction moves with the way a count is
                    # computed (`(len - 80) / 32` vs checked_sub chains) and would make the fingerprint depend on form
                    rs.add(b.local_name(st[1]) or 'p%d' % st[1])
            if rs:
                if with_expr:
                    out.add((_question(g), frozenset(rs), 'diseq' if _disequality(g) else _region_expressible(g)))
                else:
                    out.add((_question(g), frozenset(rs)) if with_question else frozenset(rs))
    return out


def load_table():
    with open(TABLE_FILE) as f:
        raw = json.load(f)
    return {k: [frozenset(x) for x in v] for k, v in raw.items() if not k.startswith('__')}


def load_questions():
    """{entry: [(operator / callee of the test, inputs)]} as reviewed"""
    with open(TABLE_FILE) as f:
        raw = json.load(f).get('__questions__', {})
    return {k: [(q, frozenset(x)) for q, x in v] for k, v in raw.items()}


def _is_union(s, tab):
    parts = [t for t in tab if t <= s]
    u = set()
    for t in parts:
        u |= t
    return bool(parts) and u == set(s)


def rule_gate_sets(ctx, cfg='prod-all', group='bbs', only=None):
    prog = ctx.prog(cfg)
    table = load_table()
    questions = load_questions()
    n = 0
    for e in ENTRIES[group]:
        if only and not any(e.endswith(o) for o in only):
            continue
        body = resolve_fn(prog, e)
        if body.path not in table:
            raise AnchorMissing('gate sets of %s are not tabled' % body.path)
        tab = table[body.path]
        now3 = gate_sets(ctx, cfg, body.path, with_question=True, with_expr=True)
        expressible = {}
        diseq = set()
        for q_, s_, e_ in now3:
            if e_ == 'diseq':
                diseq.add((q_, s_))
                e_ = False
            expressible[(q_, s_)] = expressible.get((q_, s_), True) and e_
        now = {(q_, s_) for q_, s_, e_ in now3}
        qtab = questions.get(body.path, [])
        # the same test (operator / callee) on fewer inputs than tabled is the tabled question asked with a more precise dependence
        # (the dependence of a value on the inputs is an over-approximation whose precision moves with the form of the code)
        # positions select which element of a list a test looks at; they are not what is tested (`proofs.get(idx)` with idx counted along an index
        # list instead of a local counter): a set that is tabled once its position-typed members (usize, [usize]) are taken out is the tabled test
        def selector(name):
            k = body.param_index(name)
            if k is None:
                return False
            ty = body.local_ty(k).replace('&mut ', '').lstrip('&').strip()
            if ty.startswith('std::option::Option<') and ty.endswith('>'):
                ty = ty[len('std::option::Option<'):-1].replace('&mut ', '').lstrip('&').strip()
            return ty in ('usize', '[usize]', 'std::vec::Vec<usize>')

        def known(q, s):
            return s in tab or _is_union(s, tab) or any(q == q2 and s <= s2 for q2, s2 in qtab)

        def known_modulo_positions(q, s):
            r = frozenset(x for x in s if not selector(x))
            return bool(r) and r != s and known(q, r)
        def counts_only(s):
            # a condition over counts and index lists only, in a function whose acceptance region RF-V compares on the closed, projected
            # difference constraints: a genuinely new refusal over counts shows there; one implied by construction (`H.len() == n` for
            # generators made for n) does not
            import rf_accept
            return all(selector(x) for x in s) and body.path in rf_accept.load_table()
        new = {tuple(sorted(s)) for q, s in now if not known(q, s) and not known_modulo_positions(q, s)
               and not (counts_only(s) and expressible.get((q, s), False))}
        # a refusal on *equality* of counts / positions (`if i == L { Err }`): invisible to the region rule, and its inputs are usually a
        # combination that is tested anyway - so the test itself has to be a tabled one
        for (q, s) in diseq:
            if all(selector(x) for x in s) and not any(q == q2 and s <= s2 for q2, s2 in qtab):
                new.add(tuple(sorted(s)) + ('(refused when equal)',))
        new = sorted(new)
        new = [list(x) for x in new]
        now = {s for q, s in now}
        n += 1
        yield Ob('RF-W', '%s#acceptance-conditions' % body.path, not new,
                 'every comparison success depends on tests a combination of inputs that was tested before (no new kind of acceptance condition)',
                 body.span, fact={'sets_now': len(now), 'tabled': len(tab), 'new': sorted(new)[:6]}, expected='tabled sets (or unions of them)')
    yield Ob('RF-W', 'crate#acceptance-conditions-%s' % group, n >= 1, 'entry points examined', '', fact=n, expected='>= 1', nontrivial=False)


# ------------------------------------------------------------------ RF-X: causes of failure
ERR_TABLE_FILE = os.path.join(os.path.dirname(os.path.abspath(__file__)), 'error_origins.json')


def error_origins(ctx, cfg, path):
    """variants of the crate's error type that are constructed in a function reachable from `path`"""
    from census import reachable_fns
    prog, eng = ctx.prog(cfg), ctx.eng(cfg)
    reach, _ = reachable_fns(eng, [path])
    out = set()
    for fn in reach:
        for bi, s in prog.bodies[fn].stmts():
            if s['k'] == 'assign' and s['rv']['k'] == 'agg' and s['rv'].get('name') == 'errors::Error':
                out.add(s['rv']['variant'])
    return out


def rule_error_origins(ctx, cfg='prod-all', only=None):
    """the kinds of failure an entry point can originate are the tabled ones: a new error variant constructed somewhere below an entry point is
    a new cause of refusal (an infallible helper made fallible, a new check) that positive fixtures do not exercise."""
    prog = ctx.prog(cfg)
    with open(ERR_TABLE_FILE) as f:
        table = json.load(f)
    n = 0
    for e in ENTRIES['bbs']:
        if only and not any(e.endswith(o) for o in only):
            continue
        body = resolve_fn(prog, e)
        if body.path not in table:
            raise AnchorMissing('error origins of %s are not tabled' % body.path)
        now = error_origins(ctx, cfg, body.path)
        new = sorted(now - set(table[body.path]))
        n += 1
        yield Ob('RF-X', '%s#failure-causes' % body.path, not new, 'no new kind of error originates below this entry point', body.span,
                 fact={'now': sorted(now), 'new': new}, expected='tabled variants')
    yield Ob('RF-X', 'crate#failure-causes', n >= 1, 'entry points examined', '', fact=n, expected='>= 1', nontrivial=False)
