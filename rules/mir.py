"""Loading of the fact files written by driver/ and basic per-body program structure:
CFG, dominators, post-dominators, control dependence, natural loops, pretty printing.
Nothing here is specific to a property."""
import json, os, sys, functools

class Body:
    def __init__(self, j, prog):
        self.j = j
        self.prog = prog
        self.path = j['path']
        self.kind = j['kind']
        self.blocks = j['blocks']
        self.locals = j['locals']
        self.arg_count = j['arg_count']
        self.span = j['span']
        self.is_pub = j.get('pub', False)
        self.from_expansion = j.get('from_expansion', False)
        self.n = len(self.blocks)
        self._succ = None
        self._pred = None
        self._dom = None
        self._pdom = None
        self._cdep = None

    # ---------------------------------------------------------------- names
    def local_name(self, l):
        n = self.locals[l].get('name')
        return n if n else '_%d' % l

    def local_ty(self, l):
        return self.locals[l]['ty']

    def param_index(self, name):
        for i in range(1, self.arg_count + 1):
            if self.locals[i].get('name') == name:
                return i
        return None

    def file(self):
        return self.span.split(':')[0]

    # ---------------------------------------------------------------- CFG
    def term_succs(self, t):
        k = t['k']
        if k == 'goto':
            return [t['t']]
        if k == 'switch':
            return [b for _, b in t['targets']] + [t['otherwise']]
        if k in ('call', 'drop', 'assert'):
            return [t['t']] if t.get('t') is not None else []
        return []

    @property
    def succ(self):
        if self._succ is None:
            self._succ = []
            for b in self.blocks:
                s = []
                for x in self.term_succs(b['term']):
                    if x not in s:
                        s.append(x)
                self._succ.append(s)
        return self._succ

    @property
    def pred(self):
        if self._pred is None:
            p = [[] for _ in range(self.n)]
            for i, ss in enumerate(self.succ):
                for s in ss:
                    p[s].append(i)
            self._pred = p
        return self._pred

    def reachable(self, start=0, avoid=()):
        seen = set()
        st = [start]
        while st:
            b = st.pop()
            if b in seen or b in avoid:
                continue
            seen.add(b)
            st.extend(self.succ[b])
        return seen

    def _dominators(self, succ, pred, roots):
        # iterative dataflow on sets (bodies are small)
        n = self.n
        allb = set(range(n))
        dom = [set(allb) for _ in range(n)]
        for r in roots:
            dom[r] = {r}
        # reachable order
        order = []
        seen = set()
        st = list(roots)
        while st:
            b = st.pop()
            if b in seen:
                continue
            seen.add(b)
            order.append(b)
            st.extend(succ[b])
        changed = True
        while changed:
            changed = False
            for b in order:
                if b in roots:
                    continue
                ps = [p for p in pred[b] if p in seen]
                if not ps:
                    new = {b}
                else:
                    new = set.intersection(*[dom[p] for p in ps]) | {b}
                if new != dom[b]:
                    dom[b] = new
                    changed = True
        for b in range(n):
            if b not in seen:
                dom[b] = set()
        return dom

    @property
    def dom(self):
        """dom[b] = set of blocks dominating b (incl. b); empty for unreachable blocks."""
        if self._dom is None:
            self._dom = self._dominators(self.succ, self.pred, [0])
        return self._dom

    def dominates(self, a, b):
        return a in self.dom[b]

    def diverges(self, b):
        """no normal return is reachable from block b (it ends in a panic / abort)"""
        if not hasattr(self, '_div'):
            ex = set(self.exits)
            can = set(ex)
            changed = True
            while changed:
                changed = False
                for i in range(self.n):
                    if i not in can and any(x in can for x in self.succ[i]):
                        can.add(i)
                        changed = True
            self._div = [i not in can for i in range(self.n)]
        return self._div[b]

    @property
    def exits(self):
        return [i for i, b in enumerate(self.blocks) if b['term']['k'] == 'return']

    @property
    def pdom(self):
        """post-dominators w.r.t. normal `return` exits (panic/abort paths are not exits)."""
        if self._pdom is None:
            self._pdom = self._dominators(self.pred, self.succ, self.exits)
        return self._pdom

    def debug_assert_blocks(self):
        """blocks that exist only to evaluate a `debug_assert!`: dominated by the taken side of the `if cfg!(debug_assertions)` switch the
        macro expands to (a switch from the expansion on a literal), down to its panic"""
        if getattr(self, '_dab', None) is not None:
            return self._dab
        out = set()
        for bi, t in self.calls():
            if not any(str(m).startswith('debug_assert') for m in (t.get('mac') or [])):
                continue
            for a in sorted(self.dom[bi], key=lambda x: -len(self.dom[x])):
                ta = self.blocks[a]['term']
                if a == bi or ta['k'] != 'switch' or not ta.get('exp') or ta['discr']['k'] not in ('copy', 'move') or ta['discr']['pl'].get('p'):
                    continue
                l = ta['discr']['pl']['l']
                defs = [st for blk in self.blocks for st in blk['stmts'] if st['k'] == 'assign' and st['dst']['l'] == l and not st['dst'].get('p')]
                if len(defs) == 1 and defs[0]['rv']['k'] == 'use' and defs[0]['rv']['op']['k'] == 'const' and defs[0].get('exp'):
                    for sx in self.succ[a]:
                        if sx == bi or self.dominates(sx, bi):
                            out |= {x for x in range(self.n) if self.dominates(sx, x)}
                    break
        self._dab = out
        return out

    def natural_loops(self):
        """list of (header, set(body blocks)) from back edges t->h with h dom t."""
        if getattr(self, '_nloops', None) is not None:
            return self._nloops
        loops = {}
        reach = self.reachable()
        for t in reach:
            for h in self.succ[t]:
                if h in self.dom[t]:
                    body = {h}
                    st = [t]
                    while st:
                        x = st.pop()
                        if x in body:
                            continue
                        body.add(x)
                        st.extend(self.pred[x])
                    loops.setdefault(h, set()).update(body)
        self._nloops = sorted(loops.items())
        return self._nloops

    def control_deps(self):
        """cdep[b] = set of (switch_block, succ_taken) such that b is control dependent on that edge.
        Standard definition via post-dominators; blocks from which no normal return is reachable
        (panic paths) post-dominate nothing and are handled by treating their pdom set as {b}."""
        if self._cdep is not None:
            return self._cdep
        pdom = self.pdom
        cdep = [set() for _ in range(self.n)]
        reach = self.reachable()
        for a in reach:
            ss = self.succ[a]
            if len(ss) < 2:
                continue
            for s in ss:
                # walk up the post-dominator tree from s until reaching ipdom(a)
                # b is control dependent on (a,s) iff b postdominates s and b does not strictly postdominate a
                pd_s = pdom[s] if pdom[s] else {s}
                pd_a = (pdom[a] if pdom[a] else {a}) - {a}
                for b in pd_s:
                    if b not in pd_a:
                        cdep[b].add((a, s))
        self._cdep = cdep
        return cdep

    def control_deps_transitive(self, b):
        out = set()
        st = [b]
        seenb = set()
        cd = self.control_deps()
        while st:
            x = st.pop()
            if x in seenb:
                continue
            seenb.add(x)
            for (a, s) in cd[x]:
                if (a, s) not in out:
                    out.add((a, s))
                    st.append(a)
        return out

    # ---------------------------------------------------------------- iteration helpers
    def calls(self, include_cleanup=False):
        for i, b in enumerate(self.blocks):
            if b['cleanup'] and not include_cleanup:
                continue
            t = b['term']
            if t['k'] == 'call':
                yield i, t

    def stmts(self):
        for i, b in enumerate(self.blocks):
            if b['cleanup']:
                continue
            for s in b['stmts']:
                yield i, s


class Program:
    def __init__(self, path):
        with open(path) as f:
            text = f.read()
        # A method of a crate trait implemented for a type of another crate, or of a trait of another module implemented for a crate type, is
        # printed `<Type as Trait>::method` - a path without a module.  Rules select what they look at by module prefix, so these bodies are given
        # the module they are written in, in the form rustc prints inherent impls: `module::<impl Trait for Type>::method` (every mention of the
        # path - body, callee, resolved callee, closure parent - is renamed alike).
        import re as _re
        ren = {}
        for bj in json.loads(text)['bodies']:
            m = _re.match(r'^(<(.+?) as (.+?)>)::[^<>]*$', bj['path'])
            if m is None or bj.get('from_expansion') or bj.get('exp'):
                continue
            whole, ty, tr = m.group(1), m.group(2), m.group(3)
            if whole in ren:
                continue
            local = ('bbsplus::', 'cl03::', 'utils::', 'keys::', 'schemes::', 'errors::')
            home = ty if ty.startswith(local) else tr if tr.startswith(local) else None
            if home is None:
                continue
            mod = home.split('<')[0].rsplit('::', 1)[0]
            ren[whole] = '%s::<impl %s for %s>' % (mod, tr, ty)
        for old_, new_ in ren.items():
            text = text.replace(old_ + '::', new_ + '::')
        self.j = json.loads(text)
        self.renamed = ren
        self.cfg = self.j['cfg']
        self.bodies = {}
        for bj in self.j['bodies']:
            b = Body(bj, self)
            self.bodies[b.path] = b
        self.adts = {a['path']: a for a in self.j['adts']}
        self.impls = self.j['impls']
        self.items = self.j['items']
        self.fns = {f['path']: f for f in self.items['fns']}

    def body(self, path):
        return self.bodies.get(path)

    def find(self, suffix, exact_last=True):
        """bodies whose path ends with `suffix` (on a `::` boundary)."""
        out = []
        for p, b in self.bodies.items():
            if p == suffix or p.endswith('::' + suffix):
                out.append(b)
        return out

    def one(self, suffix):
        r = self.find(suffix)
        if len(r) != 1:
            raise KeyError('expected exactly one body for %r, got %r' % (suffix, [b.path for b in r]))
        return r[0]

    def closures_of(self, path):
        return [b for p, b in self.bodies.items() if p.startswith(path + '::{closure')]

    def free_consts(self):
        """{path: printed value} of the module-level constants of the crate"""
        if not hasattr(self, '_free_consts'):
            self._free_consts = {c['path']: c['val'] for c in self.j.get('items', {}).get('consts', []) if c.get('val')}
        return self._free_consts

    def impl_consts(self, trait_suffix):
        out = {}
        for i in self.impls:
            if i['trait'] and i['trait'].endswith(trait_suffix) and i['consts']:
                out[i['self']] = {c['name']: c for c in i['consts']}
        return out


# -------------------------------------------------------------------- pretty printing
def fmt_place(body, pl):
    s = body.local_name(pl['l'])
    if s != '_%d' % pl['l']:
        s = '%s(_%d)' % (s, pl['l'])
    for p in pl.get('p', []):
        k = p['k']
        if k == 'deref':
            s = '(*%s)' % s
        elif k == 'field':
            s = '%s.%s' % (s, p['n'])
        elif k == 'index':
            s = '%s[_%d]' % (s, p['l'])
        elif k == 'cindex':
            s = '%s[%s%d]' % (s, '-' if p['from_end'] else '', p['off'])
        elif k == 'subslice':
            s = '%s[%d..%s%d]' % (s, p['from'], '-' if p['from_end'] else '', p['to'])
        elif k == 'downcast':
            s = '(%s as %s)' % (s, p['n'])
        else:
            s = '%s.<%s>' % (s, p.get('d'))
    return s

def fmt_op(body, o):
    if o['k'] in ('copy', 'move'):
        return ('move ' if o['k'] == 'move' else '') + fmt_place(body, o['pl'])
    if o['k'] == 'const':
        if 'uneval' in o and 'promoted' not in o:
            return 'const<%s>' % o['uneval_full']
        if 'fn' in o:
            return 'fn<%s>' % o['fn_full']
        return 'const %s' % o.get('int', o['disp'])
    return str(o)

def fmt_rv(body, rv):
    k = rv['k']
    if k == 'use':
        return fmt_op(body, rv['op'])
    if k == 'ref':
        return '&%s%s' % ('mut ' if rv['mut'] else '', fmt_place(body, rv['pl']))
    if k == 'rawptr':
        return '&raw %s' % fmt_place(body, rv['pl'])
    if k == 'cast':
        return '%s as %s [%s]' % (fmt_op(body, rv['op']), rv['ty'], rv['ck'])
    if k == 'binop':
        return '%s(%s, %s)' % (rv['op'], fmt_op(body, rv['a']), fmt_op(body, rv['b']))
    if k == 'unop':
        return '%s(%s)' % (rv['op'], fmt_op(body, rv['a']))
    if k == 'discr':
        return 'discriminant(%s)' % fmt_place(body, rv['pl'])
    if k == 'agg':
        nm = rv['name'] + ('::' + rv['variant'] if rv['variant'] else '')
        return '%s %s{%s}' % (rv['ak'], nm, ', '.join(fmt_op(body, o) for o in rv['ops']))
    if k == 'repeat':
        return '[%s; %s]' % (fmt_op(body, rv['op']), rv['n'])
    return str(rv)

def fmt_term(body, t):
    k = t['k']
    if k == 'call':
        return '%s = %s(%s) -> bb%s   [L%s]' % (fmt_place(body, t['dst']), t.get('callee_full') or fmt_op(body, t['callee_op']),
                                               ', '.join(fmt_op(body, a) for a in t['args']), t['t'], t['line'])
    if k == 'switch':
        return 'switch %s %s else bb%d' % (fmt_op(body, t['discr']), ['%s->bb%d' % (v, b) for v, b in t['targets']], t['otherwise'])
    if k == 'assert':
        return 'assert(%s == %s, %s %s) -> bb%d  [L%s]' % (fmt_op(body, t['cond']), t['expected'], t['msg'],
                                                          [fmt_op(body, o) for o in t['ops']], t['t'], t['line'])
    if k == 'goto':
        return 'goto bb%d' % t['t']
    if k == 'drop':
        return 'drop(%s) -> bb%d' % (fmt_place(body, t['pl']), t['t'])
    return k

def dump(body, out=sys.stdout):
    out.write('fn %s  (%s)\n' % (body.path, body.span))
    for i, l in enumerate(body.locals):
        out.write('  let _%d: %s%s\n' % (i, l['ty'], '  // ' + l['name'] if l.get('name') else ''))
    for i, b in enumerate(body.blocks):
        if b['cleanup']:
            continue
        out.write(' bb%d:\n' % i)
        for s in b['stmts']:
            if s['k'] == 'assign':
                out.write('    %s = %s\n' % (fmt_place(body, s['dst']), fmt_rv(body, s['rv'])))
            else:
                out.write('    %s\n' % s)
        out.write('    %s\n' % fmt_term(body, b['term']))

if __name__ == '__main__':
    prog = Program(sys.argv[1])
    for b in prog.find(sys.argv[2]) or [x for p, x in prog.bodies.items() if sys.argv[2] in p]:
        dump(b)
