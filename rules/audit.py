"""D6: audited discharges of panic-capable sites the linear domain cannot prove.  Each entry: site key ->
(reason, fingerprint).  The fingerprint is a *structural fact recomputed on every run*; when it no longer holds the
entry discharges nothing and the site is reported."""
from flow import local_target, callee_matches, GateAnalysis
from zone import tadd, tfmt, UMAX
from dep import strip

G = 'bbsplus::generators::'
PF = 'bbsplus::proof::'
POKI = 'bbsplus::proof::<impl schemes::generics::PoKSignature<schemes::algorithms::BBSplus<CS>>>::'
U = 'utils::util::bbsplus_utils::'


def _origin_of_unwrap(zf, site):
    t = site.detail
    a0 = t['args'][0]
    if a0['k'] in ('copy', 'move') and not a0['pl'].get('p'):
        return zf._origin_call(a0['pl']['l'])
    return None


def _ct_origin(zf, site):
    """receiver of CtOption::unwrap -> the call that produced it"""
    t = site.detail
    a0 = t['args'][0]
    l = a0['pl']['l']
    for _ in range(6):
        d = zf.single_def(l)
        if not d:
            return None
        if d[0] == 'call':
            return d[2]
        if d[0] == 'assign' and d[2]['rv']['k'] == 'use' and d[2]['rv']['op']['k'] in ('copy', 'move'):
            l = d[2]['rv']['op']['pl']['l']
            continue
        return None
    return None


def fp_p1_constant(ctx, cfg, zf, site):
    c = _ct_origin(zf, site)
    if c is None or not (c.get('callee') or '').endswith('from_compressed_hex'):
        return False, 'receiver is not from_compressed_hex(..)'
    a = c['args'][0]
    atoms = zf.fd.read_op(a)
    ok = len(atoms) == 1 and all(x[0] == 'a' and x[1].endswith('::P1') for x in atoms)
    return ok, 'argument of from_compressed_hex is the associated constant P1 (value checked against the draft by A5)' if ok else 'argument is not CS::P1'


def fp_expand_len(ctx, cfg, zf, site):
    o = _origin_of_unwrap(zf, site)
    if not o or not (o[1].get('callee') or '').endswith('expand_message'):
        return False, 'receiver is not expand_message(..)'
    c = o[1]
    ln = c['args'][2]
    if not (ln['k'] == 'const' and ln.get('uneval', '').endswith('::EXPAND_LEN')):
        return False, 'length argument is not CS::EXPAND_LEN'
    vals = [int(cs['EXPAND_LEN']['int']) for cs in ctx.prog(cfg).impl_consts('BbsCiphersuite').values()]
    if not vals or not all(1 <= v <= 8160 for v in vals):
        return False, 'EXPAND_LEN values %s outside 1..=8160' % vals
    # the dst list is a one-element array (expand_message fails only for an empty list of DSTs, len 0, len > 65535, ell > 255)
    d = c['args'][1]
    ty = None
    l = d['pl']['l'] if d['k'] in ('copy', 'move') else None
    for _ in range(6):
        if l is None:
            break
        ty = zf.body.local_ty(l)
        if '; 1]' in ty:
            break
        dd = zf.single_def(l)
        if dd and dd[0] == 'assign' and dd[2]['rv'].get('op', {}).get('k') in ('copy', 'move'):
            l = dd[2]['rv']['op']['pl']['l']
        elif dd and dd[0] == 'assign' and dd[2]['rv']['k'] == 'ref':
            l = dd[2]['rv']['pl']['l']
        else:
            break
    ok = ty is not None and '; 1]' in ty
    return ok, 'len_in_bytes = EXPAND_LEN in %s, DST list has exactly one element' % sorted(set(vals)) if ok else 'DST list type %s' % ty


def _creator_suite(ctx, cfg, c, depth=0):
    """the ciphersuite type argument of the Generators::create call behind call c: c itself, or the tail call of a local helper that is
    generic in the suite only and hands its own suite parameter on."""
    prog, eng = ctx.prog(cfg), ctx.eng(cfg)
    tgt = local_target(eng, c) if c is not None else None
    if tgt is None or depth > 3:
        return None
    targs = c.get('targs') or []
    if tgt == G + 'Generators::create':
        return targs[0] if len(targs) == 1 else None
    hz = ctx.zone(cfg).zf(tgt)
    l, inner = 0, None
    for _ in range(6):
        ds = [d for d in hz.fd.defs.get(l, []) if not d[2].get('dst', {}).get('p')]
        if len(ds) != 1:
            return None
        d = ds[0]
        if d[0] == 'call':
            inner = d[2]
            break
        if d[0] == 'assign' and d[2]['rv']['k'] == 'use' and d[2]['rv']['op']['k'] in ('copy', 'move') and not d[2]['rv']['op']['pl'].get('p'):
            l = d[2]['rv']['op']['pl']['l']
            continue
        return None
    s = _creator_suite(ctx, cfg, inner, depth + 1)
    if s is None or len(targs) != 1:
        return None
    # the helper has one type parameter and passes it on unchanged: the suite is whatever the caller instantiates it with
    return targs[0] if not s.startswith(('schemes::', 'bbsplus::')) else s


def fp_append_same_suite(ctx, cfg, zf, site):
    prog, eng = ctx.prog(cfg), ctx.eng(cfg)
    n = 0
    for p, b in prog.bodies.items():
        for bi, t in b.calls():
            if local_target(eng, t) == G + 'Generators::append':
                n += 1
                z2 = ctx.zone(cfg).zf(p)
                fulls = []
                for a in t['args'][:2]:
                    if a['k'] not in ('copy', 'move'):
                        return False, 'append argument is not a local'
                    l = a['pl']['l']
                    c = None
                    for _ in range(6):
                        d = z2.single_def(l)
                        if d and d[0] == 'call':
                            c = d[2]
                            break
                        if d and d[0] == 'assign' and d[2]['rv']['k'] == 'use' and d[2]['rv']['op']['k'] in ('copy', 'move'):
                            l = d[2]['rv']['op']['pl']['l']
                            continue
                        break
                    suite = _creator_suite(ctx, cfg, c)
                    if suite is None:
                        return False, 'append argument at %s L%s does not come from Generators::create' % (p, t['line'])
                    fulls.append(suite)
                if len(set(fulls)) != 1:
                    return False, 'append of generator sets of different ciphersuites: %s' % fulls
    return n >= 1, 'all %d call sites append two Generators::create::<CS> results of the same CS (equal base point P1)' % n


def _bounded_by_callers(ctx, cfg, z2, op, bi, bound):
    """the operand is (a length of) a parameter of the specialised function z2: every call site that makes this instantiation bounds it"""
    prog, eng, za = ctx.prog(cfg), ctx.eng(cfg), ctx.zone(cfg)
    term = z2.term_op(op)
    if term is None or term[0] is None:
        return False
    path = z2.body.path
    sites = []
    for p, b in prog.bodies.items():
        for cbi, t in b.calls():
            if local_target(eng, t) == path:
                sites.append((p, cbi, t))
    if not sites:
        return False
    for p, cbi, t in sites:
        cz = za.zf(p)
        za.summary(p)
        cgm = za.resolve_cargs(cz, t, path)
        if cgm != z2.cg:
            continue          # another instantiation
        ct = za.subst(cz, t, term, tgt=path)
        if ct is None or not cz.prove_le(ct, (None, bound), cbi):
            return False
    return True


def fp_i2osp(ctx, cfg, zf, site):
    """i2osp::<N> is only instantiated with N in {2, 8}; for N < 8 the argument is proven <= 2^(8N) - 1 at the call site."""
    prog, eng, za = ctx.prog(cfg), ctx.eng(cfg), ctx.zone(cfg)
    ns = set()
    for p, b in prog.bodies.items():
        for bi, t in b.calls():
            if local_target(eng, t) == U + 'i2osp':
                ca = t.get('cargs') or []
                if len(ca) != 1:
                    return False, 'i2osp instantiated without one const argument at %s' % p
                if ca[0].isdigit():
                    cases = [(int(ca[0]), za.zf(p), p)]
                    za.summary(p)
                else:
                    # called from a function that is itself generic in N (`prefixed::<N>`): one case per instantiation of that function
                    owner = p if b.kind != 'Closure' else b.j.get('parent_fn', p)
                    insts = za.instances(owner)
                    if not insts or any(ca[0] not in i for i in insts):
                        return False, 'i2osp instantiated with non-literal N at %s (instantiations of the caller not resolvable)' % p
                    cases = []
                    for i in insts:
                        za.summary_spec(owner, i)
                        cases.append((i[ca[0]], za.zf_spec(p, i) if p == owner else za.zf(p), p))
                for n, z2, where in cases:
                    ns.add(n)
                    if n < 1 or n > 16:
                        return False, 'i2osp::<%d>' % n
                    if n < 8:
                        term = z2.term_op(t['args'][0])
                        ok = z2.prove_le(term, (None, 2 ** (8 * n) - 1), bi)
                        if not ok and z2.cg:
                            # the bound may be a precondition of the generic caller, established by the callers that instantiate it with this N
                            ok = _bounded_by_callers(ctx, cfg, z2, t['args'][0], bi, 2 ** (8 * n) - 1)
                        if not ok:
                            return False, 'i2osp::<%d>(%s) at %s L%s: argument not bounded by %d' % (n, tfmt(term), where, t['line'], 2 ** (8 * n) - 1)
    return bool(ns), 'instantiations N in %s; every N < 8 call has a dominating size guard' % sorted(ns)


def _validation_gates(ctx, cfg, fn_path, block):
    ga = ctx.gates(cfg)
    fd = ctx.eng(cfg).fndep(fn_path)
    return ga.block_gates(fd, block)


def fp_validated_by_predicate(container_param, bound_atoms, callee_names=('Iterator::find', 'Iterator::any', 'Iterator::all', 'Iterator::position')):
    """the site (or, for a site inside a helper, every call of the helper) is control dependent on an iterator predicate over
    `container_param` whose closure mentions the bound."""
    def fp(ctx, cfg, zf, site, fn_path=None, block=None):
        fn_path = fn_path or zf.body.path
        block = site.block if block is None else block
        body = ctx.prog(cfg).bodies[fn_path]
        k = body.param_index(container_param)
        for g in _validation_gates(ctx, cfg, fn_path, block):
            if g.kind == 'call' and any(c in (g.what or '') for c in callee_names):
                atoms = g.all_atoms()
                has_cont = any(strip(a)[0] == 'p' and strip(a)[1] == k for a in atoms) if k else False
                if has_cont:
                    return True, 'control dependent on %s over `%s` (L%s)' % (g.what.split('::')[-1], container_param, g.line)
        return False, 'no dominating iterator predicate over `%s`' % container_param
    return fp


def fp_core_proof_gen_index_validation(ctx, cfg, zf, site):
    """get_messages / H_points[undisclosed] are reached from core_proof_gen only after (a) `find(|i| i > L-1)` returned None
    for the disclosed indexes and (b) the undisclosed indexes come from get_remaining_indexes(L, ..) (all < L)."""
    prog, eng = ctx.prog(cfg), ctx.eng(cfg)
    cpg = prog.bodies.get(PF + 'core_proof_gen')
    if cpg is None:
        return False, 'core_proof_gen not found'
    fd = eng.fndep(cpg.path)
    ga = ctx.gates(cfg)
    calls = [(bi, t) for bi, t in cpg.calls() if local_target(eng, t) == U + 'get_messages']
    others = []
    for p, b in prog.bodies.items():
        if p == cpg.path:
            continue
        for bi, t in b.calls():
            if local_target(eng, t) == U + 'get_messages':
                others.append(p)
    if others:
        return False, 'get_messages has callers outside core_proof_gen: %s' % others
    if len(calls) != 2:
        return False, 'expected 2 get_messages calls in core_proof_gen, found %d' % len(calls)
    k_idx = cpg.param_index('disclosed_indexes')
    k_msg = cpg.param_index('messages')
    ok_find = False
    for bi, t in calls:
        for g in ga.block_gates(fd, bi):
            if g.kind == 'call' and 'Iterator::find' in (g.what or ''):
                at = g.all_atoms()
                if any(strip(a)[0] == 'p' and strip(a)[1] == k_idx for a in at) and any(a[0] == 'len' and strip(a)[1] == k_msg for a in at):
                    ok_find = True
    if not ok_find:
        return False, 'no find(..) gate over disclosed_indexes mentioning len(messages) before get_messages'
    # the second index list comes from get_remaining_indexes(len(messages), ..)
    zf2 = ctx.zone(cfg).zf(cpg.path)
    rem = [(bi, t) for bi, t in cpg.calls() if (local_target(eng, t) or '').endswith('get_remaining_indexes')]
    if len(rem) != 1:
        return False, 'get_remaining_indexes call not found'
    t0 = zf2.term_op(rem[0][1]['args'][0])
    ln = ('len:messages', 0)
    if t0 != ln:
        return False, 'get_remaining_indexes first argument is %s, expected len(messages)' % tfmt(t0)
    return True, 'disclosed indexes validated by find(|i| i > L - 1) -> Err; undisclosed = get_remaining_indexes(len(messages), ..)'


def fp_remaining_elems_lt_length(ctx, cfg, zf, site):
    """get_remaining_indexes(length, _) pushes only the induction variable of `0..length`."""
    prog, eng, za = ctx.prog(cfg), ctx.eng(cfg), ctx.zone(cfg)
    gri = [b for p, b in prog.bodies.items() if p.endswith('::get_remaining_indexes')]
    if len(gri) != 1:
        return False, 'get_remaining_indexes not found'
    b = gri[0]
    z = za.zf(b.path)
    za.summary(b.path)
    pushes = [(bi, t) for bi, t in b.calls() if (t.get('callee') or '') == 'std::vec::Vec::<T, A>::push']
    if not pushes:
        return False, 'no push in get_remaining_indexes'
    for bi, t in pushes:
        term = z.term_op(t['args'][1])
        if not z.prove_le(tadd(term, 1), ('p1', 0), bi):
            return False, 'pushed value %s not proven < length' % tfmt(term)
    # and the site indexes H_points with an element of the vector returned by get_remaining_indexes(L, ..) where len(H_points) == L
    body = zf.body
    rem = [(bi, t) for bi, t in body.calls() if (local_target(eng, t) or '').endswith('get_remaining_indexes')]
    if rem:
        t0 = zf.term_op(rem[0][1]['args'][0])
        need_len = site.need[0][1] if site.need else None
        if need_len is None or not (zf.prove_le(t0, need_len, site.block) and zf.prove_le(need_len, t0, site.block)):
            return False, 'length passed to get_remaining_indexes (%s) is not the length of the indexed slice (%s) at the site' % (tfmt(t0), tfmt(need_len))
        return True, 'elements come from get_remaining_indexes(%s, ..), all < %s = len of the indexed slice' % (tfmt(t0), tfmt(need_len))
    # the vector is a parameter: every caller must pass get_remaining_indexes(len(messages) ..) (checked for proof_init's only caller)
    return fp_core_proof_gen_index_validation(ctx, cfg, zf, site)


def fp_validation_loop(container_param):
    """a complete loop over `container_param` compares every element with the bound and leaves the function otherwise; the
    site lies after that loop."""
    def fp(ctx, cfg, zf, site):
        body = zf.body
        za = ctx.zone(cfg)
        want = ('len:' + container_param, 0)
        for h, blocks in zf.loops:
            if site.block in blocks or not body.dominates(h, site.block):
                continue
            # is it a loop over the container?
            it = None
            for bi in blocks:
                t = body.blocks[bi]['term']
                if t['k'] == 'call' and (t.get('callee') or '') == 'std::iter::Iterator::next':
                    sl = za._slice_of_iter(zf, t['args'][0])
                    if sl == want:
                        it = bi
            if it is None:
                continue
            # a comparison inside the loop whose failing edge leaves the loop towards a return that does not reach the site
            for bi in blocks:
                t = body.blocks[bi]['term']
                if t['k'] != 'switch':
                    continue
                for succ in body.succ[bi]:
                    fs = zf.edge_facts.get((bi, succ))
                    if fs and succ in blocks:
                        other = [x for x in body.succ[bi] if x != succ]
                        if other and all(site.block not in body.reachable(o) for o in other):
                            # the pass edge facts, with the loop element unified with the site's index value, must prove the need
                            elem_syms = {t1[0] for (t1, t2) in fs if t1[0]} | {t2[0] for (t1, t2) in fs if t2[0]}
                            idx_sym = site.need[0][0][0] if site.need else None
                            for es in elem_syms:
                                ren = [((idx_sym, a[1]) if a[0] == es else a, (idx_sym, c[1]) if c[0] == es else c) for (a, c) in fs]
                                if site.need and all(zf.prove_le(a, c, site.block, extra=ren) for (a, c) in site.need):
                                    return True, 'every element of `%s` is compared in the loop at bb%d (failing elements return Err); the bound implies the index is in range' % (container_param, h)
        return False, 'no validation loop over `%s` implying the bound' % container_param
    return fp


def fp_blind_proof_gen_shift(ctx, cfg, zf, site):
    """closure |&j| j + L + 1 in blind_proof_gen: created after `any(|&i| i >= M)` over the same list returned Err"""
    prog, eng = ctx.prog(cfg), ctx.eng(cfg)
    parent = prog.bodies.get(zf.body.j.get('parent_fn'))
    if parent is None:
        return False, 'closure parent not found'
    fd = eng.fndep(parent.path)
    # block where the closure is created
    cb = None
    for bi, s in parent.stmts():
        if s['k'] == 'assign' and s['rv']['k'] == 'agg' and s['rv']['ak'] == 'closure' and s['rv']['name'] == zf.body.path:
            cb = bi
    if cb is None:
        return False, 'closure creation not found'
    k = parent.param_index('disclosed_commitment_indexes')
    km = parent.param_index('committed_messages')
    for g in ctx.gates(cfg).block_gates(fd, cb):
        if g.kind == 'call' and 'Iterator::any' in (g.what or ''):
            at = g.all_atoms()
            if any(strip(a)[0] == 'p' and strip(a)[1] == k for a in at) and any(a[0] == 'len' and strip(a)[1] == km for a in at):
                return True, 'closure created only after any(|&i| i >= M) over disclosed_commitment_indexes was false; j < M = len(committed_messages), L = len(messages): j + L + 1 cannot overflow'
    return False, 'no dominating any(..) validation of disclosed_commitment_indexes against len(committed_messages)'


def fp_find_closure_nonempty(ctx, cfg, zf, site):
    """closure |&&i| i > L - 1 passed to find over disclosed_indexes: runs only if the list is non-empty, and R <= L was checked"""
    prog, eng = ctx.prog(cfg), ctx.eng(cfg)
    parent = prog.bodies.get(zf.body.j.get('parent_fn'))
    if parent is None:
        return False, 'closure parent not found'
    pz = ctx.zone(cfg).zf(parent.path)
    ctx.zone(cfg).summary(parent.path)
    for bi, t in parent.calls():
        if (t.get('callee') or '') == 'std::iter::Iterator::find':
            ci = None
            for a in t['args']:
                if a['k'] in ('copy', 'move') and not a['pl'].get('p'):
                    ci = pz.fd._closure_info(a['pl']['l']) or ci
            if ci and ci[0] == zf.body.path:
                # facts at the find call: R <= L where R = len(list) (from checked_sub)
                facts = pz.facts_at(bi)
                caps = ci[1]
                lterm = None
                for c in caps:
                    if c['k'] in ('copy', 'move'):
                        r, p = pz.fd.resolve_place(c['pl'])
                        lterm = pz.term_local(r) or lterm
                if lterm is None:
                    return False, 'captured L has no term'
                # some length R with R <= L must be known: then a non-empty list implies L >= 1
                for (a, c) in facts:
                    if c == lterm and a[0] and a[0].startswith('len'):
                        return True, 'find runs the closure only for a non-empty list of length R, and R <= L holds at the call (checked_sub), so L - 1 does not underflow'
                return False, 'no fact R <= L at the find call'
    return False, 'closure is not the predicate of a find(..) call'


def fp_counting_argument(ctx, cfg, zf, site):
    """undisclosed_indexes = get_remaining_indexes(L, disclosed): |result| >= L - R = U.  Fingerprint: the indexed vector is
    the result of get_remaining_indexes(L, disclosed_indexes) with L defined as U + R and the loop bound is U."""
    eng = ctx.eng(cfg)
    body = zf.body
    rem = [(bi, t) for bi, t in body.calls() if (local_target(eng, t) or '').endswith('get_remaining_indexes')]
    if len(rem) != 1:
        return False, 'get_remaining_indexes call not found'
    bi, t = rem[0]
    a0 = t['args'][0]
    if a0['k'] not in ('copy', 'move'):
        return False, 'length argument is not a local'
    r, p = zf.fd.resolve_place(a0['pl'])
    key = (body.path, r)
    # L = U + R recorded by the zone analysis as a sum
    sums = ctx.zone(cfg).sums
    s = sums.get(key)
    if s is None:
        # L may be a copy of the sum local
        d = zf.single_def(r)
        if d and d[0] == 'assign' and d[2]['rv']['k'] == 'use' and d[2]['rv']['op']['k'] in ('copy', 'move'):
            pl = d[2]['rv']['op']['pl']
            s = sums.get((body.path, pl['l']))
    if s is None:
        return False, 'L is not a recorded sum U + R'
    a, b = s
    lens = {a, b}
    if ('len:proof.m_cap', 0) not in lens or ('len:disclosed_indexes', 0) not in lens:
        return False, 'L = %s + %s, expected len(proof.m_cap) + len(disclosed_indexes)' % (tfmt(a), tfmt(b))
    # second argument is the same disclosed_indexes, and the site's index is bounded by U
    a1 = t['args'][1]
    r1, _ = zf.fd.resolve_place(a1['pl']) if a1['k'] in ('copy', 'move') else (None, None)
    if r1 != body.param_index('disclosed_indexes'):
        return False, 'second argument is not disclosed_indexes'
    return True, 'L = len(m_cap) + len(disclosed_indexes); the complement of R indexes in 0..L has at least L - R = U elements, and j < U'


AUDIT = {
    G + 'Generators::create#ctunwrap:from_compressed_hex(..).unwrap':
        ('P1 is a compile-time constant of the ciphersuite whose value is checked against the draft (A5): a valid compressed G1 point', fp_p1_constant),
    G + 'create_generators#unwrap:expand_message(..).unwrap':
        ('expand_message fails only for len 0 / > 65535 / ell > 255 / empty DST list: len is EXPAND_LEN = 48, one DST', fp_expand_len),
    G + 'create_generators#unwrap:expand_message(..).unwrap~1':
        ('same as the first expand_message call', fp_expand_len),
    G + 'Generators::append#panic:assert_failed()':
        ('assert_eq on the base points of two generator sets created for the same ciphersuite (both are CS::P1)', fp_append_same_suite),
    U + 'i2osp#overflow:x>>(8 Mul N)': ('shift amount 8N < 64 on the branch N < 8', fp_i2osp),
    U + 'i2osp#panic:panic_fmt("i2osp overflow")': ('reachable only if x >= 2^(8N) with N < 8; callers with N < 8 bound the argument', fp_i2osp),
    U + 'i2osp#copylen:copy_from_slice(tmp,be_bytes)': ('N < 8 branch: out is N bytes, be_bytes[8-N..] is N bytes', fp_i2osp),
    PF + 'proof_verify_init#bounds:undisclosed_indexes[j]':
        ('counting argument: the complement of R indexes in 0..L has at least U = L - R elements', fp_counting_argument),
    PF + 'core_proof_gen::{closure#1}#overflow:tmp-1':
        ('L - 1 inside the find predicate: the predicate only runs for a non-empty index list and R <= L was checked', fp_find_closure_nonempty),
}


def lookup(ctx, cfg, zf, site, key):
    e = AUDIT.get(key)
    if e is None:
        return None
    reason, fp = e
    try:
        ok, detail = fp(ctx, cfg, zf, site)
    except Exception as ex:  # a fingerprint that cannot be evaluated discharges nothing
        ok, detail = False, 'fingerprint raised %r' % (ex,)
    return (ok, reason, detail)
