"""Check framework: fact cache keyed by the content of /repo, obligations, known findings, evidence."""
import os, sys, json, time, hashlib, subprocess, fcntl

V = os.environ.get('VERIF_HOME', '/verif')
REPO = os.environ.get('VERIF_REPO', '/repo')
WORK = os.environ.get('VERIF_WORK', os.path.join(V, '.work'))
EVID = os.environ.get('VERIF_EVIDENCE', os.path.join(V, 'evidence'))

sys.path.insert(0, os.path.join(V, 'rules'))
from mir import Program
from dep import Engine
from flow import GateAnalysis


def tree_hash():
    h = hashlib.sha256()
    roots = [os.path.join(REPO, 'src'), os.path.join(REPO, 'Cargo.toml'), os.path.join(REPO, 'Cargo.lock')]
    files = []
    for r in roots:
        if os.path.isdir(r):
            for dp, dn, fn in os.walk(r):
                dn.sort()
                for f in sorted(fn):
                    files.append(os.path.join(dp, f))
        elif os.path.exists(r):
            files.append(r)
    for f in files:
        h.update(f.encode())
        with open(f, 'rb') as fh:
            h.update(fh.read())
    # the extractor itself is part of the key
    for f in (os.path.join(V, 'driver/src/main.rs'), os.path.join(V, 'bin/extract.sh')):
        with open(f, 'rb') as fh:
            h.update(fh.read())
    return h.hexdigest()[:20]


class BuildFailed(Exception):
    pass


def facts_path(cfg):
    os.makedirs(WORK, exist_ok=True)
    th = tree_hash()
    out = os.path.join(WORK, 'facts-%s-%s.json' % (cfg, th))
    if os.path.exists(out) and os.path.getsize(out) > 0:
        try:
            os.utime(out)
        except OSError:
            pass
        return out
    lock = open(os.path.join(WORK, 'lock-%s' % cfg), 'w')
    fcntl.flock(lock, fcntl.LOCK_EX)
    try:
        if os.path.exists(out) and os.path.getsize(out) > 0:
            return out
        # remove stale fact files of this config (other tree hashes)
        for f in os.listdir(WORK):
            if f.startswith('facts-%s-' % cfg) and f.endswith('.json'):
                try:
                    # (not the ones in use: checks of another tree - a scratch copy - may be running at the same time)
                    if time.time() - os.path.getmtime(os.path.join(WORK, f)) < 1800:
                        continue
                    os.remove(os.path.join(WORK, f))
                except OSError:
                    pass
        tmp = out + '.tmp.%d' % os.getpid()
        env = dict(os.environ)
        env['VERIF_REPO'] = REPO
        env['VERIF_WORK'] = WORK
        r = subprocess.run([os.path.join(V, 'bin/extract.sh'), cfg, tmp], env=env, stdout=subprocess.PIPE, stderr=subprocess.PIPE)
        if r.returncode != 0 or not os.path.exists(tmp):
            raise BuildFailed('extraction of config %s failed:\n%s' % (cfg, r.stderr.decode(errors='replace')[-3000:]))
        os.rename(tmp, out)
        return out
    finally:
        fcntl.flock(lock, fcntl.LOCK_UN)
        lock.close()


class Ctx:
    """lazy access to the analysed program per configuration."""

    def __init__(self, tier):
        self.tier = tier
        self._prog = {}
        self._eng = {}
        self._ga = {}
        self.configs_used = set()

    def prog(self, cfg='prod-all'):
        if cfg not in self._prog:
            self._prog[cfg] = Program(facts_path(cfg))
            self.configs_used.add(cfg)
        return self._prog[cfg]

    def eng(self, cfg='prod-all'):
        if cfg not in self._eng:
            self._eng[cfg] = Engine(self.prog(cfg))
        return self._eng[cfg]

    def zone(self, cfg='prod-all'):
        if not hasattr(self, '_za'):
            self._za = {}
        if cfg not in self._za:
            from census import ZoneAnalysis
            self._za[cfg] = ZoneAnalysis(self.eng(cfg))
        return self._za[cfg]

    def gates(self, cfg='prod-all'):
        if cfg not in self._ga:
            self._ga[cfg] = GateAnalysis(self.eng(cfg))
        return self._ga[cfg]

    def gates_modular(self, cfg='prod-all'):
        """gate analysis over the dependence engine that labels how each dependence treats residue classes (dep.label_of)"""
        if not hasattr(self, '_gam'):
            self._gam = {}
        if cfg not in self._gam:
            self._gam[cfg] = GateAnalysis(Engine(self.prog(cfg), modular=True))
        return self._gam[cfg]


def _gates_sites(self, sites, cfg='prod-all'):
    """gate analysis over a dependence engine in which the results of the named decoding calls carry their call site as an atom"""
    if not hasattr(self, '_gas'):
        self._gas = {}
    key = (cfg, tuple(sites))
    if key not in self._gas:
        self._gas[key] = GateAnalysis(Engine(self.prog(cfg), sites=sites))
    return self._gas[key]


Ctx.gates_sites = _gates_sites


class Ob:
    """one obligation (rule instance) and its outcome."""

    def __init__(self, rule, key, ok, what, where='', fact=None, expected=None, nontrivial=True, note=None):
        self.rule = rule
        self.key = key            # stable key: def-path + role, never a line number
        self.ok = ok              # True | False | None (undecided sub-check, reported, never an alarm)
        self.what = what
        self.where = where
        self.fact = fact
        self.expected = expected
        self.nontrivial = nontrivial
        self.note = note

    def to_json(self):
        return {'rule': self.rule, 'key': self.key, 'ok': self.ok, 'what': self.what, 'where': self.where,
                'fact': self.fact, 'expected': self.expected, 'note': self.note}


class AnchorMissing(Exception):
    pass


def load_known():
    p = os.path.join(V, 'known_findings.json')
    if not os.path.exists(p):
        return {'findings': [], 'fixed': []}
    with open(p) as f:
        return json.load(f)


def run_property(pid, tier, rules, meta, controls=(), negatives=()):
    """rules: list of (rule_name, fn(ctx) -> iterable[Ob], floor).  Returns exit code."""
    t0 = time.time()
    seed = int(os.environ.get('VERIF_SEED', '0') or 0)
    ctx = Ctx(tier)
    obs = []
    broken = []
    per_rule = {}
    try:
        for (name, fn, floor) in rules:
            n0 = len(obs)
            try:
                for ob in fn(ctx):
                    obs.append(ob)
            except AnchorMissing as e:
                broken.append('%s: anchor missing: %s' % (name, e))
            cnt = len(obs) - n0
            per_rule[name] = cnt
            if cnt < floor:
                broken.append('%s: evaluated %d instances, floor is %d (fail closed)' % (name, cnt, floor))
    except BuildFailed as e:
        print('BUILD-FAILED property=%s\n%s' % (pid, e))
        return 2
    # positive controls: each listed patch must make this property's quick check report a violation on a scratch copy
    control_results = []
    if controls and os.environ.get('VERIF_IN_CONTROL') != '1':
        for c in controls:
            pth = os.path.join(V, c)
            env = dict(os.environ)
            env['VERIF_IN_CONTROL'] = '1'
            env['MUT_LINES'] = '3'
            r = subprocess.run([os.path.join(V, 'bin/mutant_run.sh'), pth, pid], env=env, stdout=subprocess.PIPE, stderr=subprocess.STDOUT)
            out = r.stdout.decode(errors='replace')
            if 'PATCH-DOES-NOT-APPLY' in out:
                control_results.append({'control': c, 'result': 'not-applicable (patch does not apply to the current tree)'})
            elif '== %s exit=1' % pid in out:
                rule_line = [l.strip() for l in out.splitlines() if l.strip().startswith('rule=')]
                control_results.append({'control': c, 'result': 'detected', 'by': rule_line[:1]})
            else:
                control_results.append({'control': c, 'result': 'MISSED'})
                broken.append('positive control %s was not detected by the quick check of %s' % (c, pid))
    if negatives and os.environ.get('VERIF_IN_CONTROL') != '1':
        for c in negatives:
            pth = os.path.join(V, c)
            env = dict(os.environ)
            env['VERIF_IN_CONTROL'] = '1'
            env['MUT_LINES'] = '3'
            r = subprocess.run([os.path.join(V, 'bin/mutant_run.sh'), pth, pid], env=env, stdout=subprocess.PIPE, stderr=subprocess.STDOUT)
            out = r.stdout.decode(errors='replace')
            if 'PATCH-DOES-NOT-APPLY' in out:
                control_results.append({'negative_control': c, 'result': 'not-applicable (patch does not apply to the current tree)'})
            elif '== %s exit=0' % pid in out:
                control_results.append({'negative_control': c, 'result': 'silent'})
            else:
                rule_line = [l.strip() for l in out.splitlines() if l.strip().startswith('rule=')]
                control_results.append({'negative_control': c, 'result': 'FALSE-ALARM', 'by': rule_line[:2]})
                broken.append('negative control %s (behaviour-preserving refactoring) made the quick check of %s raise an alarm' % (c, pid))
    known = load_known()
    known_keys = {(k['property'], k['key']): k for k in known.get('findings', [])}
    viol = [o for o in obs if o.ok is False]
    unknown_viol = []
    known_hit = []
    for o in viol:
        k = known_keys.get((pid, o.key))
        if k is not None:
            known_hit.append((o, k))
        else:
            unknown_viol.append(o)
    os.makedirs(os.path.join(EVID, 'replay'), exist_ok=True)
    for o, k in known_hit:
        print('KNOWN-FINDING: property=%s %s [%s]' % (pid, k['what'], o.key))
    rc = 0
    for o in unknown_viol:
        rp = os.path.join(EVID, 'replay', '%s-%s.json' % (pid, hashlib.sha1(o.key.encode()).hexdigest()[:12]))
        with open(rp, 'w') as f:
            json.dump({'property': pid, **o.to_json()}, f, indent=1)
        print('VIOLATION property=%s replay=%s' % (pid, rp))
        print('  rule=%s key=%s\n  what: %s\n  where: %s\n  fact: %s\n  expected: %s' % (o.rule, o.key, o.what, o.where, o.fact, o.expected))
        rc = 1
    for b in broken:
        rp = os.path.join(EVID, 'replay', '%s-broken.json' % pid)
        with open(rp, 'w') as f:
            json.dump({'property': pid, 'broken': broken}, f, indent=1)
        print('VIOLATION property=%s replay=%s' % (pid, rp))
        print('  CHECK-FAILED-CLOSED: %s' % b)
        rc = 1
    decided = [o for o in obs if o.ok is not None]
    undec = [o for o in obs if o.ok is None]
    distinct = len({o.key for o in decided if o.nontrivial})
    samples = []
    seen_rules = set()
    for o in obs:
        if o.rule not in seen_rules or len(samples) < 12:
            if sum(1 for s in samples if s['rule'] == o.rule) < 3:
                samples.append(o.to_json())
                seen_rules.add(o.rule)
    functions = set()
    for cfg in ctx.configs_used:
        functions |= set(ctx.prog(cfg).bodies.keys())
    ev = {
        'property_id': pid,
        'tier': tier,
        'seed': seed,
        'level': 'other',
        'coverage': {
            'explanation': meta.get('explanation', ''),
            'obligations': len(decided),
            'discharged': len([o for o in decided if o.ok]),
            'evaluations': max(1, len(obs)),
            'distinct_nontrivial': distinct,
            'rule': 'one obligation per (rule family, rule instance) evaluated on the MIR of /repo\'s working tree; '
                    'distinct = distinct instance keys; non-trivial = the instance has a non-empty extracted fact',
            'samples': samples[:40],
            'rule_instances': per_rule,
            'configs': sorted(ctx.configs_used),
            'functions_analysed': len(functions),
            'undecided_subchecks': [o.to_json() for o in undec][:40],
            'known_findings_hit': [o.key for o, _ in known_hit],
            'positive_controls': control_results,
            'trusted_base': ['rustc MIR construction (nightly)', 'rules/tables contracts for external crates',
                             'bls12_381_plus / rand / rug / elliptic-curve library semantics'],
            'exhaustive': False,
            'tree_hash': tree_hash(),
        },
        'assumptions': list(meta.get('assumptions', [])) + ['no allocated object (slice, Vec, String) is larger than 2^56 bytes (the panic census and every length argument bound lengths by 2^56 / size_of(element))',
                                                       'library contracts of bls12_381_plus, rug, rand, elliptic-curve, digest as written into the rule tables'],
        'wall_s': round(time.time() - t0, 3),
        'violations': len(unknown_viol) + len(broken),
    }
    with open(os.path.join(EVID, '%s.json' % pid), 'w') as f:
        json.dump(ev, f, indent=1)
    print('%s tier=%s obligations=%d discharged=%d undecided=%d known=%d violations=%d wall=%.1fs' % (
        pid, tier, len(decided), len([o for o in decided if o.ok]), len(undec), len(known_hit), len(unknown_viol) + len(broken), time.time() - t0))
    return rc
