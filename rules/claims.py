"""Per property: what the check claims (MANIFEST level text / note / technique).  Kept next to the rules so that
MANIFEST.json is regenerated from one place (bin/gen_manifest.py)."""

TB = ('Trusted base: rustc MIR construction on the pre-installed nightly, the contracts listed in rules/ for external crates '
      '(bls12_381_plus, elliptic-curve, rand, rug, serde), collision resistance of the hash functions. ')

CLAIMS = {
 'C01': {'text': 'Decides structurally: (complete) an absent header/message list is normalised to the empty one before any use in sign and verify; '
                 '(necessary) signer and verifier reach every DST / generator-seed role with the same interface constants; the ciphersuite constant table equals the draft. '
                 'Does not decide the pairing algebra or the value-level round trip.',
         'note': TB + 'Completeness of the pairing equation for honest signatures is not analysed.',
         'technique': 'MIR dataflow: option-use discipline, context-sensitive constant propagation, const evaluation'},
 'C02': {'text': 'Decides necessary conditions of binding: every bound datum (pk, count, generators, header, api id, each message) must-flows into the hashed buffers on every path; '
                 'the pairing comparison gating acceptance depends on A, e, pk, every message, header and the interface constants.',
         'note': TB + 'A changed ingredient is assumed to change the hash. Bit-flip rejection is decided only as: both signature fields gate acceptance.',
         'technique': 'MIR must-flow (dominance) into hash inputs + control-dependence gates with value-dependence slices'},
 'C04': {'text': 'Decides necessary conditions of soundness: challenge ingredients must-flow into the hash; challenge equality and pairing check gate every accept path and depend on every proof field and public input; '
                 'identity proof points are refused on every constructor path (decoder and serde) before acceptance.',
         'note': TB + 'Knowledge soundness of the sigma protocol is not decided.',
         'technique': 'MIR control-dependence gates + interprocedural field-sensitive value dependence'},
 'C06': {'text': 'Decides necessary conditions: blind_sign is control dependent on the commitment-proof challenge equality whose operands depend on the whole serialized commitment, blind generators and blind api id (only the empty-commitment path is exempt); '
                 'blind verification gates depend on committed/signer messages, blind factor, L, header, ph, pk.',
         'note': TB + 'Soundness of the Schnorr proof as such is not decided.',
         'technique': 'MIR control-dependence gates through delegated verifiers + must-flow into the blind challenge'},
 'C11': {'text': 'Decides (necessary) domain separation as constant propagation: from every public entry point exactly the interface api id (plus BLIND_ for blind generators) reaches each DST/seed role; suites differ in every interface constant.',
         'note': TB + 'Disjointness / identity-freeness of hash-to-curve outputs is assumed.',
         'technique': 'context-sensitive constant propagation over the MIR call tree + const evaluation'},
 'C03': {'text': 'Decides completely: absent == empty for every optional input of proof_gen / proof_verify; proof length = 272 + 32 * U (writer layout + one response per undisclosed message); reader offsets == writer offsets. '
                 'Decides necessary conditions of prover/verifier agreement, including the production randomness request 5 + U that the test build never compiles (twin agreement with the mock and with the consumer guard). The Schnorr algebra is not decided.',
         'note': TB,
         'technique': 'MIR option-use discipline, codec layout extraction, cfg-twin comparison across build configurations, zone loop-coverage'},
 'C05': {'text': 'Decides completely: absent == empty for the optional octet/list inputs of the blind entry points. Decides necessary conditions: only the blind api id (+ BLIND_ for blind generators) reaches every role; '
                 'production commit randomness M + 2 equals its mock twin and the positions read; commitment loops cover every committed message; prover and verifier shift committed indexes by L + 1. The algebra is not decided.',
         'note': TB,
         'technique': 'MIR dataflow + constant propagation + cfg-twin comparison + zone loop coverage'},
 'C07': {'text': 'Decides (provenance / non-flow reading): every blinding role in the production configuration (dead code for the test suite) has its only provenance in rand::thread_rng; one draw per vector element inside the loop; '
                 'distinct role positions agreed between producer and consumer; each response is mask +/- secret*challenge with its own mask; transmitted types reach no secret-bearing type; no shared state. Probabilistic distinctness is assumed from the CSPRNG.',
         'note': TB + 'rand::thread_rng is trusted to be a CSPRNG; Scalar::random to sample uniformly.',
         'technique': 'MIR provenance (backward value dependence to origin calls) on non-test cfg + loop membership + type reachability'},
 'C08': {'text': 'Decides (sound, may-report) panic freedom of the 21 entry points and the derived Deserialize impls: every bounds / overflow / range-index / unwrap / explicit-panic site '
                 'reachable in the MIR is proven by a difference-bound length domain, carried as a precondition to every call site up to the entry points, or covered by an audited entry with a recomputed structural fingerprint; '
                 'generator counts and allocations must be bounded by input lengths. Wall-time budgets and termination of library code are not decided.',
         'note': TB + 'Lengths are bounded by isize::MAX / size_of(element). Audited discharges are listed in rules/audit.py with their reasons.',
         'technique': 'MIR panic-site census + difference-bound (zone) abstract interpretation with interprocedural preconditions'},
 'C09': {'text': 'Decides completely the framing clause: the set of lengths each octet decoder accepts (difference bounds + modular guards at accept sites, composed through delegated decoders) equals {96}, {32}, {272+32k}, {64+32k}, {112+32k}; '
                 'decides as necessary conditions that acceptance is gated by the checked point / scalar constructors and by identity / zero exclusion. Round-trip value equality is not decided.',
         'note': TB + 'Canonicality of the external checked constructors (bls12_381_plus) is assumed.',
         'technique': 'zone abstract interpretation of accepted-length sets + control-dependence gates'},
 'C10': {'text': 'Byte-for-byte conformance is a value-level property and is NOT claimed. Decides completely the three size limits (boundary values proven at the use site) and the schedule clause (no shared mutable state); '
                 'decides as necessary conditions: constants equal the draft table, ingredient sets of every hash, un-narrowed length prefixes, I2OSP widths.',
         'note': TB + 'Output equality with a reference implementation is left to the fixture vectors.',
         'technique': 'zone bounds at use sites, const evaluation, must-flow, shared-state census'},
 'C12': {'text': 'Decides completely: update_signature returns a signature only if update_index < n (n-1 allowed, n refused), selects generators.values[update_index+1], reaches the same interface constants as sign, and (no shared state) a history of updates is a composition of single steps; its reachable panic sites are discharged. '
                 'The group algebra and wrong-old-value behaviour are not decided.',
         'note': TB,
         'technique': 'zone bounds at the accept site + constant propagation + shared-state census'},
 'C13': {'text': 'Decides (necessary) on code the baseline never compiles: CL03 verification accepts only through the equation comparison, the lower bound on e and a comparison of every attribute with 2^lm (excludes the shift-by-e forgeries); '
                 'decides (complete given next_prime) that the issued e leaves the generate-and-test loop only with 2^(le-1) < e < 2^le and gcd(e, phi) = 1. The modular algebra is not decided.',
         'note': TB + 'CL03 is analysed under a build configuration (system GMP + header shim) only rustc\'s front end sees.',
         'technique': 'MIR control-dependence gates + loop-exit condition extraction'},
 'C14': {'text': 'Decides (necessary): blind_sign touches the secret key only after verify_proof == true on the values it signs; verify_proof is gated by every sub-proof; each per-attribute commitment is built over the base its proof uses; '
                 'carried commitments are equated; every serialised ZKPoK leaf influences a comparison (known finding: commitment randomness). Unblinding algebra is not decided.',
         'note': TB,
         'technique': 'dominance of secret-key uses by the verifier edge, sibling contradiction rule, gates'},
 'C15': {'text': 'Decides (necessary): challenge equality depends on all nine responses, four commitment values, keys, bases, revealed attributes and count; Ce and each per-attribute commitment are equated with their range proofs; '
                 'every serialised leaf influences a comparison (known finding: commitment randomness). Completeness / soundness algebra is not decided.',
         'note': TB,
         'technique': 'must-flow into the challenge hash + control-dependence gates + leaf coverage'},
 'C16': {'text': 'Decides (necessary): acceptance is gated by E\' == E^(2^T), both decomposition equalities, both proofs of square and both larger-interval proofs, and the commitment carried by each proof of square is equated with E_a_1 / E_b_1 (transplant defect). Completeness for in-range values is not decided.',
         'note': TB,
         'technique': 'control-dependence gates + carried-commitment equality (contradiction rule)'},
 'C17': {'text': 'Decides completely the structural reading: enumerates the leaves the resolved Serialize impls of both proof types emit; none may be a commitment opening. Seven are emitted today (known findings). Computational hiding is not decided.',
         'note': TB,
         'technique': 'type / serde reachability over resolved impl bodies'},
 'C18': {'text': 'Decides (complete given rug contracts): loop-exit conditions of both safe-prime searches, p = 2p\'+1 shape, quadratic-residue construction and acceptance test of b, c, a_i, h, g_i = h^f with > 1 / gcd test before storing, exact bit length of random_bits, rand_int shape, thread_rng seeding. Primality itself and codec round trips are not decided.',
         'note': TB,
         'technique': 'loop-exit gate extraction + provenance / construction-shape checks on MIR'},
 'C19': {'text': 'Decides completely the two quotient conditions the property names by bit-length arithmetic over the MIR for the three suites: mask_bits >= 256 + 65 for every response (N1) and denominator mask dominating its product for factor-related pairs (N2). 3 + 2 violations exist today (known findings).',
         'note': TB + 'random_bits(n) yields exactly n bits (checked under C18).',
         'technique': 'bit-length abstract interpretation of rug Integer expressions'},
}

NOT_APPLICABLE = {}
