"""Per property: what the check claims (MANIFEST level text / note / technique).  Kept next to the rules so that
MANIFEST.json is regenerated from one place (bin/gen_manifest.py)."""

TB = ('Trusted base: rustc MIR construction on the pre-installed nightly, the contracts listed in rules/ for external crates '
      '(bls12_381_plus, elliptic-curve, rand, rug, serde), collision resistance of the hash functions. ')

CLAIMS = {
 'C01': {'text': 'Decides structurally: (complete) an absent header/message list is normalised to the empty one before any use in sign and verify; '
                 '(necessary) signer and verifier reach every DST / generator-seed role with the same interface constants; the ciphersuite constant table equals the draft. '
                 'Does not decide the pairing algebra or the value-level round trip.',
         'note': TB + 'Completeness of the pairing equation for honest signatures is not analysed.',
         'technique': 'MIR dataflow: option-use discipline, context-sensitive constant propagation, const evaluation'},
 'C02': {'text': 'Decides necessary conditions of binding: every bound datum (pk, count, generators, header, api id, each message) must-flows into the hashed buffers on every path; '
                 'the pairing comparison gating acceptance depends on A, e, pk, every message, header and the interface constants.',
         'note': TB + 'A changed ingredient is assumed to change the hash. Bit-flip rejection is decided only as: both signature fields gate acceptance.',
         'technique': 'MIR must-flow (dominance) into hash inputs + control-dependence gates with value-dependence slices'},
 'C04': {'text': 'Decides necessary conditions of soundness: challenge ingredients must-flow into the hash; challenge equality and pairing check gate every accept path and depend on every proof field and public input; '
                 'identity proof points are refused on every constructor path (decoder and serde) before acceptance.',
         'note': TB + 'Knowledge soundness of the sigma protocol is not decided.',
         'technique': 'MIR control-dependence gates + interprocedural field-sensitive value dependence'},
 'C06': {'text': 'Decides necessary conditions: blind_sign is control dependent on the commitment-proof challenge equality whose operands depend on the whole serialized commitment, blind generators and blind api id (only the empty-commitment path is exempt); '
                 'blind verification gates depend on committed/signer messages, blind factor, L, header, ph, pk.',
         'note': TB + 'Soundness of the Schnorr proof as such is not decided.',
         'technique': 'MIR control-dependence gates through delegated verifiers + must-flow into the blind challenge'},
 'C11': {'text': 'Decides (necessary) domain separation as constant propagation: from every public entry point exactly the interface api id (plus BLIND_ for blind generators) reaches each DST/seed role; suites differ in every interface constant.',
         'note': TB + 'Disjointness / identity-freeness of hash-to-curve outputs is assumed.',
         'technique': 'context-sensitive constant propagation over the MIR call tree + const evaluation'},
}

NOT_APPLICABLE = {}
