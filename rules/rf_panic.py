"""RF-F: panic-site census over everything reachable from the untrusted-input entry points (C08), and the
allocation/work clause (size operands must be bounded by input sizes)."""
from framework import Ob, AnchorMissing
from census import ZoneAnalysis, reachable_fns, tfmt
from flow import local_target, walk, callee_matches
from rf_gates import resolve_fn
from dep import strip, fmt_atoms
import bbs_tables as T
import audit

C08_ENTRIES = [
    'bbsplus::keys::BBSplusPublicKey::from_bytes', 'bbsplus::keys::BBSplusPublicKey::from_coordinates',
    'bbsplus::keys::BBSplusSecretKey::from_bytes', 'bbsplus::signature::BBSplusSignature::from_bytes',
    T.SIG + 'from_bytes', T.BSIG + 'from_bytes', 'bbsplus::proof::BBSplusPoKSignature::from_bytes', T.POK + 'from_bytes',
    'bbsplus::proof::BBSplusZKPoK::from_bytes', 'bbsplus::commitment::BBSplusCommitment::from_bytes', T.COM + 'from_bytes',
    'bbsplus::commitment::BlindFactor::from_bytes',
    T.SIG + 'verify', T.POK + 'proof_verify', T.POK + 'blind_proof_verify', T.BSIG + 'blind_sign', T.BSIG + 'verify_blind_sign',
    T.COM + 'deserialize_and_validate_commit', T.POK + 'proof_gen', T.POK + 'blind_proof_gen', T.SIG + 'update_signature',
]

# derived Deserialize impls of the same types (serde_json decoding)
SERDE_TYPES = ['bbsplus::keys::BBSplusPublicKey', 'bbsplus::keys::BBSplusSecretKey', 'bbsplus::signature::BBSplusSignature',
               'bbsplus::proof::BBSplusPoKSignature', 'bbsplus::proof::BBSplusZKPoK', 'bbsplus::commitment::BBSplusCommitment',
               'schemes::generics::Signature', 'schemes::generics::BlindSignature', 'schemes::generics::PoKSignature',
               'schemes::generics::Commitment']


def entry_paths(prog, suffixes):
    out = []
    for s in suffixes:
        out.append(resolve_fn(prog, s).path)
    return out


def serde_entry_paths(prog):
    out = []
    for p, b in prog.bodies.items():
        if b.j.get('impl_trait', '').endswith('Deserialize') and p.endswith('::deserialize'):
            st = b.j.get('impl_self', '')
            if any(st == t or st.startswith(t + '<') for t in SERDE_TYPES):
                out.append(p)
    return out


def rule_panic_census(ctx, entries=C08_ENTRIES, cfg='prod-all', with_serde=True, rule='RF-F', min_functions=40):
    prog, eng = ctx.prog(cfg), ctx.eng(cfg)
    za = ctx.zone(cfg)
    eps = entry_paths(prog, entries)
    if with_serde:
        sp = serde_entry_paths(prog)
        if len(sp) < 6:
            yield Ob(rule, 'serde-entry-points', False, 'derived Deserialize impls of the untrusted types', '', fact=sp, expected='>= 6')
        eps = eps + sp
    reach, parent = reachable_fns(eng, eps)
    ep_set = set(eps)

    def path_to(fn):
        c = [fn]
        while fn in parent and len(c) < 12:
            fn = parent[fn]
            c.append(fn)
        return [x.split('::')[-1] if '<impl' not in x else x.split('>::')[-1] for x in reversed(c)]

    n_sites = 0
    for fn in sorted(reach):
        body = prog.bodies[fn]
        za.summary(fn)
        zf = za.zf(fn)
        for s in zf.sites:
            n_sites += 1
            status = s.status
            is_entry = fn in ep_set
            key = s.key() if s.kind != 'callee' else '%s#callee:%s' % (fn, (s.origin or s).key())
            where = '%s L%s (reached via %s)' % (body.file(), s.line, ' > '.join(path_to(fn)))
            need = [(tfmt(a), tfmt(b)) for a, b in s.need] if s.need else None
            if status.startswith('safe'):
                yield Ob(rule, key, True, 'panic-capable site discharged (%s)' % status[5:], where, fact={'need': need}, expected='safe')
                continue
            if status == 'pre' and not is_entry:
                # becomes an obligation of every caller (appears there as a `callee` site)
                yield Ob(rule, key, True, 'site turned into a precondition on the parameters, re-checked at each call site', where,
                         fact={'pre': [(tfmt(a), tfmt(b)) for a, b in s.pre]}, expected='checked by callers', nontrivial=False)
                continue
            aud = audit.lookup(ctx, cfg, zf, s, key)
            if aud is not None and aud[0]:
                yield Ob(rule, key, True, 'audited discharge: ' + aud[1], where, fact={'need': need, 'fingerprint': aud[2]}, expected='audited')
                continue
            what = {'bounds': 'index may be out of bounds', 'range': 'slice range may be out of bounds', 'overflow': 'integer arithmetic may overflow',
                    'unwrap': 'unwrap/expect on a value that may be None/Err', 'ctunwrap': 'CtOption::unwrap without a dominating is_none check',
                    'panic': 'explicit panic reachable', 'copylen': 'copy_from_slice length mismatch possible', 'split': 'split_at beyond length',
                    'div': 'division by zero possible', 'callee': 'precondition of callee not established', 'assert': 'assertion may fail'}.get(s.kind, s.kind)
            if status == 'pre':
                what += ' for some input of this entry point (needs %s)' % ', '.join('%s <= %s' % (tfmt(a), tfmt(b)) for a, b in s.pre)
            if aud is not None and not aud[0]:
                what += ' [audit entry present but its structural fingerprint no longer holds: %s]' % aud[2]
            if getattr(s.origin or s, 'debug_only', False):
                # a debug assertion states what its author holds to be implied by the code before it; it is not part of a build without debug
                # assertions.  Where the facts do not prove it the site is listed as undecided, not as a panic of the library.
                yield Ob(rule, key, None, 'debug assertion not proven from the facts at its site (absent from builds without debug assertions)', where,
                         fact={'status': status, 'need': need, 'site': s.desc}, expected='discharged')
                continue
            yield Ob(rule, key, False, what, where, fact={'status': status, 'need': need, 'site': s.desc}, expected='discharged or audited')
    yield Ob(rule, 'census#reachable-functions', len(reach) >= min_functions, 'functions reachable from the entry points', '',
             fact={'functions': len(reach), 'sites': n_sites, 'entry_points': len(eps)}, expected='>= %d functions' % min_functions, nontrivial=False)


def _bound_up_the_chain(za, fr, arg_op, bi):
    """upper bound of an integer operand of frame fr at block bi; while the operand is just a parameter of the frame, continue with the
    argument the caller passes and ask for its bound at the caller's call site"""
    f, call_bi = fr, bi
    ub = 2 ** 64 - 1
    for _ in range(12):
        zf = za.zf(f.path)
        za.summary(f.path)
        term = zf.term_op(arg_op)
        ub = zf.upper_bound(term, call_bi)
        if ub <= 2 ** 63 or term is None or f.parent is None:
            break
        sym = term[0]
        if sym is None or not (sym.startswith('p') and sym[1:].isdigit()) or f.body.kind == 'Closure':
            break
        k = int(sym[1:])
        pc = f.call
        if pc is None or k - 1 >= len(pc['args']):
            break
        arg_op = pc['args'][k - 1]
        call_bi = next((b for b, tt in f.parent.body.calls() if tt is pc), call_bi)
        f = f.parent
    return ub


def rule_work_bounded(ctx, entries=C08_ENTRIES, cfg='prod-all', rule='RF-F'):
    """the trip count of every counting loop (`for i in a..b`, `(a..b).map(..)`) reachable from an entry point is bounded by the size of the
    inputs: its end bound depends on lengths and constants only, or on a numeric parameter that a comparison bounds by lengths before the loop.
    (Loops over a slice / Vec are bounded by that container; library loops are trusted.)"""
    prog, eng = ctx.prog(cfg), ctx.eng(cfg)
    za = ctx.zone(cfg)
    n = 0
    for ep in entry_paths(prog, entries):
        ebody = prog.bodies[ep]
        seen = set()
        cnt = {}
        for fr in walk(eng, ep):
            zf = za.zf(fr.path)
            for bi, blk in enumerate(fr.body.blocks):
                if blk['cleanup']:
                    continue
                cands = [s for s in blk['stmts'] if s['k'] == 'assign' and s['rv']['k'] == 'agg' and s['rv'].get('name') in ('std::ops::Range', 'std::ops::RangeInclusive')]
                t = blk['term']
                if t['k'] == 'call' and (t.get('callee') or '').endswith('RangeInclusive::<Idx>::new') and len(t['args']) == 2 and not t['dst'].get('p'):
                    cands.append({'k': 'assign', 'dst': t['dst'], 'rv': {'k': 'agg', 'name': 'std::ops::RangeInclusive', 'ops': t['args']}, 'line': t.get('line')})
                for s in cands:
                    ty = fr.body.local_ty(s['dst']['l'])
                    if not ty.startswith(('std::ops::Range<u', 'std::ops::RangeInclusive<u')) or len(s['rv']['ops']) != 2:
                        continue
                    if not _is_iterated(fr.body, fr.fd, s['dst']['l']):
                        continue          # a range used for slicing is bounded by the slice (bounds census)
                    end = s['rv']['ops'][1]
                    key = '%s#work:%s L%s' % (ep, fr.path.split('::')[-1], s.get('line'))
                    if key in seen:
                        continue
                    seen.add(key)
                    n += 1
                    atoms = fr.lift(fr.fd.read_op(end))
                    bare = [a for a in atoms if a[0] == 'p' and ebody.local_ty(a[1]).replace('std::option::Option<', '').rstrip('>') in ('usize', 'u64', 'u32')]
                    ok, bound = True, None
                    if bare:
                        bound = _bound_up_the_chain(za, fr, end, bi)
                        ok = bound <= 2 ** 63
                    cnt[fr.path] = cnt.get(fr.path, 0) + 1
                    yield Ob(rule, '%s#work:%s[%d]' % (ep, fr.path.split('::')[-1], cnt[fr.path]), ok,
                             'the number of iterations of a counting loop is bounded by the size of the inputs', '%s L%s' % (fr.body.file(), s.get('line')),
                             fact={'range': _range_desc(zf, s), 'end_depends_on': fmt_atoms(ebody, atoms)[:10], 'bare_numeric_params': fmt_atoms(ebody, bare), 'proved_upper_bound': bound},
                             expected='lengths and constants only, or a numeric parameter bounded by them before the loop')
    yield Ob(rule, 'census#counting-loops', n >= 10, 'counting loops reachable from the entry points examined', '', fact=n, expected='>= 10', nontrivial=False)
    # every other loop must be an iteration (over a container or an adaptor chain): `while` / `loop` forms have no bound this rule can read
    from census import reachable_fns
    reach, _ = reachable_fns(eng, entry_paths(prog, entries))
    other = []
    n_loops = 0
    for fn in sorted(reach):
        b = prog.bodies[fn]
        for h, bl in b.natural_loops():
            n_loops += 1
            if not any(bi in bl and (t.get('callee') or '').endswith('Iterator::next') for bi, t in b.calls()):
                other.append('%s (loop header bb%d, L%s)' % (fn, h, b.blocks[h]['term'].get('line')))
    yield Ob(rule, 'census#loop-forms', None if other else True,
             'every loop reachable from the entry points is driven by an iterator (range, container, adaptor chain); other loop forms are listed as undecided', '',
             fact={'loops': n_loops, 'not_iterator_driven': other[:8]}, expected='none', nontrivial=False)


def _range_desc(zf, s):
    from zone import tfmt
    a, b = zf.term_op(s['rv']['ops'][0]), zf.term_op(s['rv']['ops'][1])
    return '%s..%s' % (tfmt(a), tfmt(b))


def _is_iterated(body, fd, l, depth=0):
    """is the range held in local l (or a move of it) consumed as an iterator (into_iter / next / an adaptor), rather than used as an index?"""
    if depth > 4:
        return False
    for bi, t in body.calls():
        for k, a in enumerate(t['args']):
            if a['k'] in ('copy', 'move') and a['pl']['l'] == l and not a['pl'].get('p'):
                cal = t.get('callee') or ''
                if cal.startswith(('std::iter::', 'core::iter::')):
                    return True
                if cal in ('std::ops::Index::index', 'std::ops::IndexMut::index_mut') or '::get' in cal or 'slice' in cal:
                    return False
    for bi, s in body.stmts():
        if s['k'] == 'assign' and s['rv']['k'] == 'use' and s['rv']['op']['k'] in ('copy', 'move') and s['rv']['op']['pl']['l'] == l \
                and not s['rv']['op']['pl'].get('p') and not s['dst'].get('p'):
            if _is_iterated(body, fd, s['dst']['l'], depth + 1):
                return True
    return False


# ---------------------------------------------------------------------- allocation / work clause
SIZE_SITES = {
    'bbsplus::generators::Generators::create': 0,
    'utils::util::bbsplus_utils::calculate_random_scalars': 0,
}
EXTERNAL_SIZE = ('std::vec::from_elem', 'std::vec::Vec::<T>::with_capacity')


def rule_alloc_bounded(ctx, entries=C08_ENTRIES, cfg='prod-all', rule='RF-F'):
    """the size operand of generator creation / vector allocation reachable from an entry point depends only on lengths of
    inputs and constants, or on a numeric parameter that a comparison bounds by such lengths before the allocation."""
    prog, eng = ctx.prog(cfg), ctx.eng(cfg)
    za = ctx.zone(cfg)
    for ep in entry_paths(prog, entries):
        ebody = prog.bodies[ep]
        n = 0
        for fr in walk(eng, ep):
            for bi, t in fr.body.calls():
                tgt = local_target(eng, t)
                ai = None
                if tgt in SIZE_SITES:
                    ai = SIZE_SITES[tgt]
                elif (t.get('callee') or '') in EXTERNAL_SIZE:
                    ai = 1 if (t.get('callee') or '').endswith('from_elem') else 0
                if ai is None:
                    continue
                n += 1
                atoms = fr.lift(fr.fd.read_op(t['args'][ai]))
                bare = [a for a in atoms if a[0] == 'p' and ebody.local_ty(a[1]).replace('std::option::Option<', '').rstrip('>') in ('usize', 'u64', 'u32')]
                # a bare numeric parameter is acceptable when, in the frame of the call, the size term is bounded by lengths
                ok = True
                bound = None
                if bare:
                    # follow the size term up the call chain: while it is just a parameter of the current frame,
                    # continue with the argument the caller passes, and ask for its bound at the caller's call site
                    f, call_t, call_bi = fr, t, bi
                    arg_op = t['args'][ai]
                    ub = 2 ** 64 - 1
                    for _ in range(12):
                        zf = za.zf(f.path)
                        za.summary(f.path)
                        term = zf.term_op(arg_op)
                        ub = zf.upper_bound(term, call_bi)
                        if ub <= 2 ** 63 or term is None or f.parent is None:
                            break
                        sym = term[0]
                        if sym is None or not (sym.startswith('p') and sym[1:].isdigit()):
                            break
                        k = int(sym[1:])
                        pc = f.call
                        if pc is None or k - 1 >= len(pc['args']):
                            break
                        arg_op = pc['args'][k - 1]
                        # block of the call in the parent
                        call_bi = next((b for b, tt in f.parent.body.calls() if tt is pc), call_bi)
                        f = f.parent
                    bound = ub
                    ok = ub <= 2 ** 63  # bounded by a sum of input lengths (each <= isize::MAX)
                key = '%s#alloc:%s@%s' % (ep, (tgt or t.get('callee')).split('::')[-1], fr.path.split('::')[-1])
                yield Ob(rule, key, ok, 'allocation / generator count is bounded by the size of the inputs',
                         '%s L%s' % (fr.body.file(), t['line']),
                         fact={'size_depends_on': fmt_atoms(ebody, atoms)[:12], 'bare_numeric_params': fmt_atoms(ebody, bare), 'proved_upper_bound': bound},
                         expected='lengths and constants only, or a numeric parameter bounded by them before the call')
