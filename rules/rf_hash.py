"""RF-C: hash-input binding.  Hash sites are discovered; each must be in the table; for every tabled
ingredient the must-flow analysis has to show it reaches the hashed buffer on every path to the call."""
from framework import Ob, AnchorMissing
from flow import MustFlow, callee_matches, local_target
from dep import fmt_atoms, strip
from spec import parse_req, has, has_narrow_only

# callee suffix -> (msg arg index, dst arg index or None)
HASH_CALLEES = {
    'utils::util::bbsplus_utils::hash_to_scalar': (0, 1),
    'elliptic_curve::hash2curve::ExpandMsg::expand_message': (0, 1),
    'bls12_381_plus::G1Projective::hash': (0, 1),
    'digest::Digest::digest': (0, None),
}

# function (path suffix) -> list of sites in source order; each: callee suffix, msg ingredients, dst ingredients.
# Oracle: draft-irtf-cfrg-bbs-signatures-08 (calculate_domain 4.1.1? "Domain Calculation", "Challenge Calculation",
# "Messages to Scalars", "Generators", "KeyGen"), draft-irtf-cfrg-bbs-blind-signatures-01 (blind challenge,
# FinalizeBlindSign); each row confirmed against the pinned source.
BBS_TABLE = {
    'utils::util::bbsplus_utils::calculate_domain': [
        ('hash_to_scalar', ['pk', 'len(H_points)', 'Q1', 'H_points', 'api_id', 'len(header)', 'header'], ['api_id', 'a:H2S'])],
    'utils::message::bbsplus_message::BBSplusMessage::messages_to_scalar': [
        ('hash_to_scalar', ['messages'], ['api_id', 'a:MAP_MSG_SCALAR'])],
    'utils::message::bbsplus_message::BBSplusMessage::map_message_to_scalar_as_hash': [
        ('hash_to_scalar', ['data'], ['api_id', 'a:MAP_MSG_SCALAR'])],
    'bbsplus::signature::core_sign': [
        ('hash_to_scalar', ['sk', 'messages', 'pk', 'header', 'generators.values', 'api_id'], ['api_id', 'a:H2S'])],
    'bbsplus::blind::finalize_blind_sign': [
        ('hash_to_scalar', ['sk', 'B', 'pk', 'header', 'generators.values', 'blind_generators.values', 'api_id'], ['api_id', 'a:H2S'])],
    'bbsplus::proof::proof_challenge_calculate': [
        ('hash_to_scalar', ['len(disclosed_indexes)', 'disclosed_indexes', 'disclosed_messages', 'init_res.Abar', 'init_res.Bbar',
                            'init_res.D', 'init_res.T1', 'init_res.T2', 'init_res.domain', 'len(ph)', 'ph'], ['api_id', 'a:H2S'])],
    'utils::util::bbsplus_utils::calculate_blind_challenge': [
        ('hash_to_scalar', ['len(generators)', 'generators', 'C', 'Cbar'], ['api_id', 'a:H2S'])],
    'bbsplus::keys::key_gen': [
        # the DST is the caller's key_dst or, when absent, API_ID || KEYGEN_DST: each reaches the DST on the path that uses it (may-flow);
        # that an absent key_dst selects the default is RF-A's business
        ('hash_to_scalar', ['key_material', 'len(key_info)', 'key_info'], ['~key_dst', '~a:API_ID', '~a:KEYGEN_DST'])],
    'utils::util::bbsplus_utils::hash_to_scalar': [
        ('expand_message', ['msg_octects'], ['dst'])],
    'bbsplus::generators::create_generators': [
        ('expand_message', ['api_id', 'a:GENERATOR_SEED'], ['api_id', 'a:GENERATOR_SEED_DST']),
        ('expand_message', ['api_id', 'a:GENERATOR_SEED', 'a:GENERATOR_SEED_DST'], ['api_id', 'a:GENERATOR_SEED_DST']),
        ('G1Projective::hash', ['api_id', 'a:GENERATOR_SEED', 'a:GENERATOR_SEED_DST'], ['api_id', 'a:GENERATOR_DST'])],
}

# i2osp width per calling function (draft: I2OSP(.., 8) everywhere, 2 for key_info length)
I2OSP_WIDTH = {
    'utils::util::bbsplus_utils::calculate_domain': {'8'},
    'bbsplus::proof::proof_challenge_calculate': {'8'},
    'utils::util::bbsplus_utils::calculate_blind_challenge': {'8'},
    'bbsplus::generators::create_generators': {'8'},
    'bbsplus::keys::key_gen': {'2'},
}


def relocation(prog, table, scope_prefixes=('bbsplus::', 'utils::util::bbsplus_utils', 'utils::message::bbsplus_message')):
    """{tabled function that no longer exists: the function that took its place}.  A tabled hashing helper that was renamed, moved or
    turned into a method is recognised by what makes it one: it is the one function in scope, not tabled itself, that calls a hash function
    directly - when there is exactly one such function for exactly one missing row (anything else stays a missing anchor)."""
    missing = [k for k in table if k not in prog.bodies]
    if len(missing) != 1:
        return {}
    cands = []
    for p, b in sorted(prog.bodies.items()):
        if b.from_expansion or b.kind == 'Closure' or not p.startswith(scope_prefixes) or p in table or '::tests::' in p:
            continue
        if any(_site_callee_key(t) for bi, t in b.calls()):
            cands.append(p)
    return {missing[0]: cands[0]} if len(cands) == 1 else {}


def relocated(prog, table, scope_prefixes=('bbsplus::', 'utils::util::bbsplus_utils', 'utils::message::bbsplus_message')):
    """the table with the row of a relocated function moved to where the function is now"""
    rel = relocation(prog, BBS_TABLE if table is not None and set(table) <= set(BBS_TABLE) else table, scope_prefixes)
    if not rel:
        return table, rel
    return {rel.get(k, k): v for k, v in table.items()}, rel


def _site_callee_key(t):
    for suf in HASH_CALLEES:
        if callee_matches(t, suf):
            return suf
    return None


def discover_sites(prog, scope_prefixes):
    out = []
    for p, b in sorted(prog.bodies.items()):
        if b.from_expansion or not p.startswith(scope_prefixes):
            continue
        for bi, t in b.calls():
            k = _site_callee_key(t)
            if k:
                out.append((p, bi, t, k))
    return out


def rule_hash_binding(ctx, table, scope_prefixes, cfg='prod-all', only_fns=None, roles=('msg', 'dst')):
    """For every tabled function R: the hash call sites reachable from R through local helpers (not crossing into another tabled function)
    are matched, in order, with R's table rows; each tabled ingredient must reach the hashed buffer / DST on every path.  Atoms of a site
    inside a helper are lifted to R's parameters through the call chain.  A hash call site reachable from no tabled function is reported."""
    from flow import walk
    prog, eng = ctx.prog(cfg), ctx.eng(cfg)
    table, rel = relocated(prog, table, scope_prefixes)
    if only_fns:
        only_fns = {rel.get(f, f) for f in only_fns}
    for fn in table:
        if only_fns and fn not in only_fns:
            continue
        if fn not in prog.bodies:
            raise AnchorMissing('hash site function %s not found' % fn)
    covered = set()
    for root in sorted(table):
        if root not in prog.bodies:
            continue
        rows = table[root]
        body = prog.bodies[root]
        sites = []
        for fr in walk(eng, root, include_closures=True):
            if fr.path != root and fr.path in table:
                continue
            # do not descend below another tabled function: frames whose chain contains one (other than the root) are skipped
            if any(c in table for c in fr.chain()[1:]):
                continue
            for bi, t in fr.body.calls():
                k = _site_callee_key(t)
                if k:
                    sites.append((fr, bi, t, k))
                    covered.add((fr.path, bi))
        if only_fns and root not in only_fns:
            continue
        sites.sort(key=lambda x: (x[0].depth(), x[2]['line'], x[1]))
        if len(sites) != len(rows):
            yield Ob('RF-C', '%s#site-count' % root, False, 'number of hash call sites reachable from this function differs from its table',
                     body.span, fact=[(x[0].path.split('::')[-1], x[3]) for x in sites], expected=len(rows))
            continue
        for idx, ((fr, bi, t, k), (csuf, msg_req, dst_req)) in enumerate(zip(sites, rows)):
            if not callee_matches(t, csuf):
                yield Ob('RF-C', '%s#%d-callee' % (root, idx), False, 'hash site callee differs from table',
                         '%s L%s' % (fr.body.file(), t['line']), fact=t.get('callee'), expected=csuf)
                continue
            mf = MustFlow(eng, fr.fd)
            mi, di = HASH_CALLEES[k]
            for role, ai, reqs in (('msg', mi, msg_req), ('dst', di, dst_req)):
                if ai is None or role not in roles:
                    continue
                arg = t['args'][ai]
                if arg['k'] in ('copy', 'move'):
                    must = fr.lift(mf.must_atoms_place(arg['pl'], bi))
                    may = fr.lift(fr.fd.read_op(arg))
                else:
                    must = may = fr.fd.const_atoms(arg)
                for r in reqs:
                    loop_carried = r.startswith('~')     # folded inside a loop over a caller-chosen list: reaches the buffer when the list is non-empty
                    alts = [x.strip() for x in r.lstrip('~').split('|')]
                    ok = False
                    narrow = False
                    for a in alts:
                        try:
                            req = parse_req(body, a)
                        except AnchorMissing:
                            if len(alts) == 1:
                                raise
                            continue
                        if has(must, req) or (loop_carried and has(must | may, req)):
                            ok = True
                        elif has_narrow_only(must | may, req):
                            narrow = True
                    key = '%s#%s[%d].%s∋%s' % (root, csuf, idx, role, r)
                    what = 'ingredient %s must reach the %s of %s %s' % (r.lstrip('~'), role, csuf, 'inside its loop' if loop_carried else 'on every path')
                    if narrow and not ok:
                        what += ' (present only through a narrowing cast / mask)'
                    yield Ob('RF-C', key, ok, what, '%s L%s' % (fr.body.file(), t['line']),
                             fact={'must': fmt_atoms(body, must)[:40], 'may_only': fmt_atoms(body, may - must)[:20], 'site_in': fr.path.split('::')[-1]},
                             expected=r)
    # hash call sites no tabled function reaches
    for (p, bi, t, k) in discover_sites(prog, scope_prefixes):
        if (p, bi) not in covered:
            if only_fns:
                continue
            yield Ob('RF-C', '%s#untabled-hash-site' % p, False, 'hash call site that no function with an ingredient table reaches',
                     '%s L%s' % (prog.bodies[p].file(), t['line']), fact=t.get('callee'), expected='table row')


def rule_i2osp_width(ctx, widths=I2OSP_WIDTH, cfg='prod-all'):
    """every I2OSP call reachable (through local helpers) from a tabled function has the width the drafts prescribe for that function;
    an I2OSP call reachable from no tabled function is reported."""
    from flow import walk
    prog, eng = ctx.prog(cfg), ctx.eng(cfg)
    covered = set()
    rel = relocation(prog, BBS_TABLE)
    widths = {rel.get(k, k): v for k, v in widths.items()}
    for root, exp in sorted(widths.items()):
        if root not in prog.bodies:
            raise AnchorMissing(root)
        n = 0
        for fr in walk(eng, root, include_closures=True):
            if fr.path != root and fr.path in widths:
                continue        # another tabled root: judged under its own entry
            for bi, t in fr.body.calls():
                if callee_matches(t, 'utils::util::bbsplus_utils::i2osp'):
                    covered.add((fr.path, bi))
                    w = (t.get('cargs') or ['?'])[0]
                    # inside a helper that is generic in the width (`prefixed::<N>`): the width this call chain instantiates it with
                    f = fr
                    while not str(w).isdigit() and f.parent is not None and f.call is not None and len(f.call.get('cargs') or []) == 1:
                        w = f.call['cargs'][0]
                        f = f.parent
                    yield Ob('RF-C', '%s#i2osp[%d].width' % (root, n), w in exp, 'I2OSP width', '%s L%s' % (fr.body.file(), t['line']),
                             fact={'width': w, 'in': fr.path.split('::')[-1]}, expected=sorted(exp))
                    n += 1
    for p, b in sorted(prog.bodies.items()):
        if b.from_expansion:
            continue
        for bi, t in b.calls():
            if callee_matches(t, 'utils::util::bbsplus_utils::i2osp') and (p, bi) not in covered:
                yield Ob('RF-C', '%s#i2osp-untabled' % p, False, 'I2OSP call not reachable from any function with a tabled width', '%s L%s' % (b.file(), t['line']),
                         fact=(t.get('cargs') or ['?'])[0], expected='table row')


# ------------------------------------------------------------------ CL03 Fiat-Shamir tables (sigma protocols of issuance and presentation)
_SP = 'cl03::sigma_protocols::'
CL03_FS_TABLE = {
    # proof that two commitments (under the issuer key and under the commitment key) hide the same attributes
    _SP + 'NISP2Commitments::nisp2_generate_proof_MultiSecrets': [
        ('digest::Digest::digest', ['~a_bases', '~commitment_pk.g_bases', 'signer_pk.b', 'signer_pk.N', 'commitment_pk.h', 'commitment_pk.N',
                                    '~unrevealed_message_indexes'], [])],
    _SP + 'NISP2Commitments::nisp2_verify_proof_MultiSecrets': [
        ('digest::Digest::digest', ['self.challenge', '~self.d', 'self.d_1', 'self.d_2', 'c1.value', 'c2.value', '~a_bases', '~commitment_pk.g_bases',
                                    'signer_pk.b', 'signer_pk.N', 'commitment_pk.h', 'commitment_pk.N', '~unrevealed_message_indexes'], [])],
    # knowledge of the opening (m, r) of one commitment
    _SP + 'NISPSecrets::nisp2sec_generate_proof': [
        ('digest::Digest::digest', ['g1', 'h1', 'n1', 'commitment.value'], [])],
    _SP + 'NISPSecrets::nisp2sec_verify_proof': [
        ('digest::Digest::digest', ['g1', 'h1', 'commitment.value', 'self.t'], [])],
    # knowledge of the hidden attributes inside the commitment the issuer signs
    _SP + 'NISPMultiSecrets::nispMultiSecrets_generate_proof': [
        ('digest::Digest::digest', ['~a_bases', 'signer_pk.b', 'signer_pk.N', 'commitment.value', '~unrevealed_message_indexes'], [])],
    _SP + 'NISPMultiSecrets::nispMultiSecrets_verify_proof': [
        ('digest::Digest::digest', ['~a_bases', 'signer_pk.b', 'commitment.value', 'self.t', '~unrevealed_message_indexes'], [])],
}


# ------------------------------------------------------------------ octet-string ingredients enter the hashed buffers whole
APPENDERS = ('std::vec::Vec::<T, A>::extend_from_slice', 'std::iter::Extend::extend', 'std::vec::Vec::<T, A>::extend', 'std::vec::Vec::<T, A>::append')


LOSSY_SINKS = ('std::io::Write::write', 'std::vec::Vec::<T, A>::truncate', 'std::string::String::truncate', 'std::io::Read::read')


def rule_no_lossy_sinks(ctx, table=None, cfg='prod-all'):
    """What is hashed is put together without an operation that can drop part of it: in the functions that build a hash input (the tabled
    hashing functions and what they call) there is no `io::Write::write` (on a slice it copies what fits and only *returns* how much that
    was - `write_all` fails instead), no `truncate`.  A fixed buffer filled that way hashes a prefix of the input once the input is long
    enough: everything after the cut (the header, the last messages) is no longer bound."""
    from flow import walk
    prog, eng = ctx.prog(cfg), ctx.eng(cfg)
    table = table or BBS_TABLE
    table, _rel = relocated(prog, table)
    found = []
    nfn = 0
    seenfn = set()
    for root in sorted(table):
        if root not in prog.bodies:
            raise AnchorMissing(root)
        for fr in walk(eng, root, include_closures=True):
            if fr.path in seenfn:
                continue
            seenfn.add(fr.path)
            nfn += 1
            for bi, t in fr.body.calls():
                cal = t.get('callee') or ''
                if cal in LOSSY_SINKS:
                    # tolerated when the count it returns is looked at (compared / matched on)
                    found.append('%s L%s: %s' % (fr.path.split('::')[-1], t.get('line'), cal.split('::')[-1]))
    yield Ob('RF-C', 'crate#lossy-sinks', not found, 'no operation that can silently drop the tail of a hash input (`io::Write::write` on a fixed buffer, `truncate`) in the functions that build hash inputs',
             '', fact=found[:6], expected='none')
    yield Ob('RF-C', 'crate#hash-input-builders', nfn >= 10, 'functions examined (tabled hashing functions and their callees)', '', fact=nfn, expected='>= 10', nontrivial=False)


def rule_whole_ingredients(ctx, table=None, cfg='prod-all', min_sites=8):
    """an octet string supplied by the caller (header, presentation header, api id, key_info, key_dst, key_material) is appended to a hashed
    buffer as it is: the appended operand is the caller's own parameter, reached through identity steps only (Option defaulting, borrows,
    copies) at every level of the call chain.  A trimmed, truncated, re-encoded or otherwise normalised copy makes distinct inputs hash alike
    (or equal inputs differ from what the other party hashes) for exactly the inputs the normalisation touches."""
    from flow import walk
    from rf_consts import _trace_identity, _mut_borrowed
    prog, eng = ctx.prog(cfg), ctx.eng(cfg)
    table = table or BBS_TABLE
    table, _rel = relocated(prog, table)
    n = 0
    seen = set()
    for root in sorted(table):
        if root not in prog.bodies:
            raise AnchorMissing(root)
        rb = prog.bodies[root]
        octet_params = {k for k in range(1, rb.arg_count + 1)
                        if rb.local_ty(k).replace('std::option::Option<', '').rstrip('>').strip() in ('&[u8]', "&'static [u8]")}
        if not octet_params:
            continue
        for fr in walk(eng, root, include_closures=True):
            if fr.path != root and fr.path in table:
                continue
            if any(c in table for c in fr.chain()[1:]):
                continue
            for bi, t in fr.body.calls():
                cal = t.get('callee') or ''
                ops = []
                if cal in APPENDERS and len(t['args']) == 2:
                    ops = [t['args'][1]]
                elif cal.endswith('::concat') and t['args'] and t['args'][0]['k'] in ('copy', 'move'):
                    # [a, b, c].concat(): the elements of the array literal
                    l = fr.fd.resolve_place(t['args'][0]['pl'])[0]
                    for kind, bj, x in fr.fd.defs.get(l, []):
                        if kind == 'assign' and x['rv']['k'] == 'agg' and x['rv'].get('ak') in ('array',):
                            ops = list(x['rv']['ops'])
                for o in ops:
                    if o['k'] not in ('copy', 'move'):
                        continue
                    atoms = fr.lift(fr.fd.read_op(o))
                    ps = {a for a in atoms if a[0] == 'p'}
                    # (the length of the same parameter showing up next to it - `&data[..n]` with n computed from data.len() - is still that parameter)
                    others = {a for a in atoms if a[0] not in ('p', 'c', 'a') and not (a[0] in ('len', 'narrow') and (a[1] in ps or a[1][0] in ('c', 'a')))}
                    if len(ps) != 1 or others:
                        continue
                    (_, k, path) = next(iter(ps))
                    if k not in octet_params or path:
                        continue
                    # identity chain up the frames
                    cur_fr, cur_op, ok, why = fr, o, True, None
                    for _ in range(12):
                        if isinstance(cur_fr, type(fr)) and cur_fr.body.kind == 'Closure':
                            ok, why = None, 'appended inside a closure (not judged)'
                            break
                        par, chain, w = _trace_identity(cur_fr.fd, cur_fr.body, cur_op)
                        if par is None:
                            ok, why = False, '%s: %s' % (cur_fr.path.split('::')[-1], w)
                            break
                        if _mut_borrowed(cur_fr.fd, cur_fr.body, set(chain)):
                            ok, why = False, '%s: a copy on the way is mutably borrowed' % cur_fr.path.split('::')[-1]
                            break
                        if cur_fr.parent is None:
                            ok = (par == k)
                            why = None if ok else 'reaches parameter %s instead' % cur_fr.body.local_name(par)
                            break
                        if cur_fr.call is None or par - 1 >= len(cur_fr.call['args']):
                            ok, why = None, 'call chain not resolvable'
                            break
                        cur_op = cur_fr.call['args'][par - 1]
                        cur_fr = cur_fr.parent
                    key = '%s#whole:%s@%s' % (root, rb.local_name(k), fr.path.split('::')[-1])
                    if key in seen:
                        continue
                    seen.add(key)
                    n += 1
                    yield Ob('RF-C', key, ok, 'the caller\'s `%s` is appended to the hashed buffer as it is (no trimmed / truncated / re-encoded copy)' % rb.local_name(k),
                             '%s L%s' % (fr.body.file(), t['line']), fact={'why': why}, expected='identity chain to the parameter')
    yield Ob('RF-C', 'crate#whole-ingredient-census', n >= min_sites, 'octet-string ingredients examined', '', fact=n, expected='>= %d' % min_sites, nontrivial=False)
