"""RF-D / RF-K / RF-J: guard-before-accept.  For a verifier or decoder V, every accept path (accept block x
accept paths of the callees it delegates to) must contain a *comparison gate* whose operand values have the
tabled sources in their data-dependence slice.  Because the slice is an over-approximation of data flow and
never includes control dependence, a reported violation means: no comparison that the accept site depends on
can be influenced by that input -- the input is provably not checked."""
from framework import Ob, AnchorMissing
from spec import parse_req, has, atom_matches
from dep import fmt_atoms, strip


def resolve_fn(prog, suffix):
    r = prog.find(suffix)
    r = [b for b in r if b.kind != 'Closure']
    if len(r) != 1:
        raise AnchorMissing('expected one function %r, found %s' % (suffix, [b.path for b in r]))
    return r[0]


def _name_match(c, w):
    """table names starting with `::` are whole last segments (`::from_compressed` does not match `from_compressed_unchecked`)"""
    return w.endswith(c) if c.startswith('::') else (c in w)


def gate_is_comparison(g):
    if g.kind == 'cmp':
        return True
    if g.kind == 'call':
        w = g.what or ''
        return any(_name_match(x, w) for x in ('PartialEq', 'is_identity', 'is_none', 'is_some', 'is_zero', 'ct_eq', 'Ord::cmp',
                                    'PartialOrd', 'contains', 'is_empty', 'Iterator::any', 'Iterator::all', 'Iterator::find',
                                    'is_ok', 'is_err', 'try_from', 'try_into', 'Iterator::next', 'Vec::<T, A>::pop',
                                    'slice::<impl [T]>::get', 'checked_', 'is_probably_prime', 'Integer',
                                    # a switch on the Option a checked constructor's CtOption was converted into
                                    '::from_be_bytes', '::from_compressed', '::from_uncompressed'))
    return False


def p_atoms(atoms):
    return {strip(a) for a in atoms if strip(a)[0] == 'p'}


def eval_requirement(body, ap, req):
    """does accept path `ap` contain a gate satisfying `req` (or one of req['alts'])?"""
    if 'alts' in req:
        best = None
        for alt in req['alts']:
            r2 = dict(req)
            del r2['alts']
            r2.update(alt)
            ok, wit = _eval_requirement(body, ap, r2)
            if ok:
                return ok, wit
            best = best or wit
        return False, best
    return _eval_requirement(body, ap, req)


def _eval_requirement(body, ap, req):
    cover = [parse_req(body, s) for s in req.get('cover', [])]
    callee_any = req.get('gate_callee')
    ops_any = req.get('gate_op')
    pure = req.get('pure')
    in_fn = req.get('in_fn')
    const_any = req.get('const')
    best = None
    hits = set()
    for g in ap['gates']:
        if not gate_is_comparison(g):
            continue
        if g.dom is not True and not req.get('any_path') and not (g.dom == 'loop' and req.get('per_item')):
            continue      # a check on only some of the paths to the accept site does not gate it (per_item: a check every iteration of a
                          # decoding loop passes gates what the loop decodes)
        if req.get('quantifier') == 'forall' and g.kind == 'call':
            w = g.what or ''
            # a validation of *every* element: all(pred) must hold, or any(violates) must not
            if w.endswith('Iterator::any') and g.truth is not False:
                continue
            if w.endswith('Iterator::all') and g.truth is not True:
                continue
        if getattr(g, 'quant', None) and (req.get('quantifier') == 'forall' or g.truth is not None):
            # what the predicate of a quantifier tests is a fact about each element only under the right polarity: acceptance must follow from
            # `all(p)` being true or `any(p)` being false (a refusal `if all(bad) {Err}` lets through every list with one good element)
            q = g.quant
            if q.endswith('Iterator::any') and g.truth is not False:
                continue
            if q.endswith('Iterator::all') and g.truth is not True:
                continue
        if callee_any and not (g.kind == 'call' and any(_name_match(c, g.what or '') for c in callee_any)):
            if not (ops_any and g.kind == 'cmp' and g.what in ops_any):
                continue
        elif ops_any and not callee_any and not (g.kind == 'cmp' and g.what in ops_any):
            continue
        if in_fn and not any(g.fn.endswith(x) for x in in_fn):
            continue
        if 'truth' in req and g.truth is not req['truth']:
            continue      # (`list.contains(&bad)` says something about every element only when it came out false)
        atoms = g.all_atoms()
        if const_any is not None:
            cs = {a[1] for a in atoms if a[0] in ('c', 'a')} | set(str(c) for c in g.const_ops)
            if not any(any(str(c) == x or x.endswith('::' + str(c)) for x in cs) for c in const_any):
                continue
        missing = [s for s, r in zip(req.get('cover', []), cover) if not has(atoms, r)]
        missing += [a[1] for a in req.get('cover_raw', []) if a not in atoms]
        if req.get('per_element') and not (g.quant or g.dom == 'loop' or (g.kind == 'call' and (g.what or '').endswith(('Iterator::any', 'Iterator::all', '<impl [T]>::contains')))):
            continue      # a list is tested by a test of each element
        if pure:
            allowed = [parse_req(body, s) for s in pure]
            extra = [a for a in p_atoms(atoms) if not any(atom_matches(a, r) for r in allowed)]
            # positions select which element is compared, they are not part of the compared value (`list.get(idx)` with idx counted along an index list)
            extra = [a for a in extra if not (body.local_ty(a[1]).replace('&mut ', '').lstrip('&').strip() in ('usize', '[usize]', 'std::vec::Vec<usize>') and not a[2])]
            if extra:
                continue
        if not missing:
            hits.add((g.fn, g.block, g.line, g.what))
            if len(hits) >= int(req.get('min_gates', 1)):
                return True, g.describe()
            continue
        if best is None or len(missing) < len(best[1]):
            best = (g.describe(), missing)
    if hits:
        return False, ('%d of %d required comparisons found' % (len(hits), int(req.get('min_gates', 1))), req.get('cover'))
    return False, best


def path_is_exempt(body, ap, exempt):
    """exempt: {'gate_callee': [...], 'cover': [...], 'truth': bool}"""
    if not exempt:
        return False
    cover = [parse_req(body, s) for s in exempt.get('cover', [])]
    for g in ap['gates']:
        if g.kind == 'call' and g.dom is True and any(c in (g.what or '') for c in exempt['gate_callee']):
            if all(has(g.all_atoms(), r) for r in cover) and g.truth == exempt.get('truth', True):
                return True
    return False


def rule_accept_requirements(ctx, table, cfg='prod-all', rule='RF-D'):
    prog, ga = ctx.prog(cfg), ctx.gates(cfg)
    for entry_suffix, reqs in table:
        body = resolve_fn(prog, entry_suffix)
        aps = ga.accept_paths(body.path)
        if not aps:
            yield Ob(rule, '%s#accept-sites' % body.path, False, 'no accept site found in verifier', body.span, fact=0, expected='>=1')
            continue
        for req in reqs:
            n_ok = 0
            n_ex = 0
            fails = []
            for ap in aps:
                if path_is_exempt(body, ap, req.get('exempt')):
                    n_ex += 1
                    continue
                ok, wit = eval_requirement(body, ap, req)
                if ok:
                    n_ok += 1
                else:
                    fails.append((ap['block'], wit))
            key = '%s#%s' % (body.path, req['id'])
            if n_ok == 0 and not fails:
                yield Ob(rule, key, False, 'all accept paths exempt: requirement evaluated on nothing', body.span,
                         fact={'accept_paths': len(aps), 'exempt': n_ex}, expected=req.get('what'))
                continue
            yield Ob(rule, key, not fails, req.get('what', req['id']), body.span,
                     fact={'accept_paths': len(aps), 'satisfied': n_ok, 'exempt': n_ex,
                           'unsatisfied': [{'accept_block': b, 'closest_gate': w[0] if w else None, 'missing': w[1] if w else req.get('cover')} for b, w in fails][:4]},
                     expected={'cover': req.get('cover'), 'gate': req.get('gate_callee') or req.get('gate_op')})


DECODE_SITES = ('::from_bytes_be', '::from_be_bytes', '::from_bytes', '::parse_g1_projective', '::parse_g2_projective_compressed', '::parse_g2_projective_uncompressed', '::from_compressed', '::from_uncompressed',
                '::from_okm', '::try_from', '::try_into')


def rule_decoded_values_tested(ctx, table, cfg='prod-all', rule='RF-D'):
    """A decoder refuses the excluded value (identity, zero) of *each* value it decodes: every member of the object it returns comes from one or
    more decoding calls, and for each of those calls a refusing test of the tabled kind looks at what that call returned (a list: a test of each
    element).  Told apart by call-site atoms (Engine(sites=..)), since all members come from the same octets.  Members whose decoding call cannot be
    named (built some other way) are undecided."""
    from bbs_tables import IDENT_ALTS, ZERO_ALTS
    prog = ctx.prog(cfg)
    ga = ctx.gates_sites(DECODE_SITES, cfg)
    eng = ga.eng
    n = 0
    for fn, adt_suffix, fields in table:
        body = resolve_fn(prog, fn)
        fd = eng.fndep(body.path)
        aggs = [s['rv'] for bi, s in body.stmts() if s['k'] == 'assign' and s['rv']['k'] == 'agg' and s['rv'].get('ak') == 'adt'
                and (s['rv']['name'] == adt_suffix or s['rv']['name'].endswith('::' + adt_suffix))]
        aps = ga.accept_paths(body.path)
        for f, kind in fields:
            key = '%s#tested:%s' % (body.path, f)
            what = 'the decoded %s is refused when it is %s (a test looks at what its own decoding call returned)' % (f, 'the identity' if kind == 'identity' else 'zero')
            if len(aggs) != 1 or not aps:
                yield Ob(rule, key, None, what, body.span, fact='the returned object is not put together in this function', expected='one aggregate')
                continue
            agg = aggs[0]
            names = [str(x) for x in agg['fields']]
            if f not in names:
                raise AnchorMissing('%s has no member %s' % (adt_suffix, f))
            op = agg['ops'][names.index(f)]
            own = body.path + '#'
            sites = sorted(a for a in fd.read_op(op) if a[0] == 'site' and (a[1].startswith(own) or a[1].startswith(body.path + '::{closure')))
            if not sites:
                yield Ob(rule, key, None, what, body.span, fact='no decoding call of this function found behind the member', expected='>= 1 decoding call')
                continue
            n += 1
            is_list = body.local_ty(op['pl']['l']).startswith('std::vec::Vec<') if op['k'] in ('copy', 'move') and not op['pl'].get('p') else False
            bad = []
            for ap in aps:
                for st in sites:
                    req = {'id': f, 'alts': IDENT_ALTS if kind == 'identity' else ZERO_ALTS, 'cover_raw': [st], 'per_item': True, 'per_element': is_list}
                    ok, wit = eval_requirement(body, ap, req)
                    if not ok:
                        bad.append({'accept_block': ap['block'], 'decoding_call': st[1]})
            yield Ob(rule, key, not bad, what, body.span, fact={'decoding_calls': [s_[1] for s_ in sites], 'untested': bad[:4]}, expected='every decoding call tested')
    yield Ob(rule, 'crate#decoded-members-examined', n >= 6, 'decoded members whose decoding call was named (12 on the reviewed tree)', '', fact=n, expected='>= 6', nontrivial=False)


def rule_all_fields_gate(ctx, entry_suffix, param, adt_suffix, cfg='prod-all', rule='RF-K', skip=(), extra_prefix=()):
    """every field of the ADT (as listed by the type facts) gates every accept path of the verifier."""
    prog, ga = ctx.prog(cfg), ctx.gates(cfg)
    body = resolve_fn(prog, entry_suffix)
    adts = [a for p, a in prog.adts.items() if p == adt_suffix or p.endswith('::' + adt_suffix)]
    if len(adts) != 1:
        raise AnchorMissing('ADT %s' % adt_suffix)
    fields = [f['name'] for f in adts[0]['variants'][0]['fields']]
    aps = ga.accept_paths(body.path)
    for f in fields:
        if f in skip:
            continue
        spec = '.'.join((param,) + tuple(extra_prefix) + (f,))
        req = {'id': 'field:' + f, 'cover': [spec]}
        fails = []
        for ap in aps:
            ok, wit = eval_requirement(body, ap, req)
            if not ok:
                fails.append(ap['block'])
        yield Ob(rule, '%s#field:%s.%s' % (body.path, adt_suffix, f), not fails,
                 'transmitted field %s.%s must influence a comparison every accept path depends on' % (adt_suffix, f),
                 body.span, fact={'accept_paths': len(aps), 'paths_without_gate': fails[:6]}, expected='gate on ' + spec)


# ---------------------------------------------------------------------------------- guards test the final value
GUARD_CALLS = ('::is_identity', '::is_zero')


def rule_guards_test_final_value(ctx, cfg='prod-all', scope=('bbsplus::',), rule='RF-D'):
    """An identity / zero exclusion (`x.is_identity()`, `x == IDENTITY`, `e == ZERO`) protects the value that is used afterwards only if that value
    is not written again after the test: `if B.is_identity() { Err }; B += P1` tests an intermediate, and refuses / admits the wrong set of
    results.  Decided per guard: no write to the tested variable (assignment, call result, `&mut` argument such as `+=`) is reachable from the test."""
    from flow import MustFlow
    prog, eng = ctx.prog(cfg), ctx.eng(cfg)
    n = 0
    for p, b in sorted(prog.bodies.items()):
        if b.from_expansion or not p.startswith(scope) or b.kind == 'Closure':
            continue
        fd = eng.fndep(p)
        mf = None
        cnt = {}
        for bi, t in b.calls():
            cal = t.get('callee') or ''
            tested = None
            if cal.endswith(GUARD_CALLS) and t['args'] and t['args'][0]['k'] in ('copy', 'move'):
                tested = t['args'][0]
            elif cal.endswith(('PartialEq::eq', 'PartialEq::ne')) and len(t['args']) == 2:
                ats = [fd.read_op(a) for a in t['args']]
                for k in (0, 1):
                    if any(a[0] == 'a' and a[1].split('::')[-1] in ('IDENTITY', 'ZERO') for a in ats[k]) and t['args'][1 - k]['k'] in ('copy', 'move'):
                        tested = t['args'][1 - k]
            if tested is None:
                continue
            root, path = fd.resolve_place(tested['pl'])
            if fd.is_param(root):
                continue              # a parameter is not rebuilt by this function (writes through `&mut` parameters are not guarded values here)
            if mf is None:
                mf = MustFlow(eng, fd)
            n += 1
            after = b.reachable(bi) - {bi}
            later = []
            for kind, db, x in fd.defs.get(root, []):
                if db in after:
                    later.append('L%s %s' % (x.get('line'), 'assignment' if kind == 'assign' else (x.get('callee') or '').split('::')[-1]))
            for e in mf.events.get(root, []):
                if e['kind'] == 'mutarg' and e['b'] in after:
                    if (e['call'].get('callee') or '').startswith(('std::iter::Iterator::', 'core::iter::')):
                        continue      # advancing an iterator over the container (`slice.iter().any(..)`) reads the container, it does not write it
                    tgt = e.get('target')
                    if tgt is not None and path and tuple(tgt[1][:len(path)]) != tuple(path[:len(tgt[1])]):
                        continue      # another field of the same aggregate
                    later.append('L%s %s' % (e.get('line'), (e['call'].get('callee') or '').split('::')[-1]))
            nm = b.local_name(root)
            cnt[nm] = cnt.get(nm, 0) + 1
            yield Ob(rule, '%s#guard-final:%s[%d]' % (p, nm, cnt[nm]), not later,
                     'the value tested by %s is not written again after the test (the guard is about the value that is used)' % cal.split('::')[-1],
                     '%s L%s' % (b.file(), t.get('line')), fact={'tested': nm + ''.join('.' + str(x) for x in path), 'writes_after_the_test': later[:4]}, expected='none')
    yield Ob(rule, 'crate#guards-examined', n >= 4, 'identity / zero guards examined', '', fact=n, expected='>= 4', nontrivial=False)
