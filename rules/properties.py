"""property id -> rule instances.  `python3 properties.py Cxx --tier quick|thorough`"""
import sys, os, argparse
sys.path.insert(0, os.path.dirname(os.path.abspath(__file__)))
import framework
from framework import run_property
import bbs_tables as T
import rf_hash, rf_gates, rf_consts, rf_panic, rf_frame, rf_rand, rf_codec, rf_bits, rf_accept, rf_gatesets, rf_errors, rf_senses
import cl03_rules as CL

CL03_FS_SCOPE = ('cl03::sigma_protocols::NISP2', 'cl03::sigma_protocols::NISPSecrets', 'cl03::sigma_protocols::NISPMulti')
BBS_SCOPE = ('bbsplus::', 'utils::util::bbsplus_utils', 'utils::message::bbsplus_message')

PLAIN_ENTRIES = [T.SIG + 'sign', T.SIG + 'verify', T.POK + 'proof_gen', T.POK + 'proof_verify', T.SIG + 'update_signature']
BLIND_ENTRIES = [T.COM + 'commit', T.COM + 'deserialize_and_validate_commit', T.BSIG + 'blind_sign', T.BSIG + 'verify_blind_sign',
                 T.POK + 'blind_proof_gen', T.POK + 'blind_proof_verify']


def only(table, *entries):
    return [(e, r) for e, r in table if e in entries]


def hash_fns(*names):
    return {k for k in rf_hash.BBS_TABLE if any(k.endswith(n) for n in names)}


def P(pid):
    """returns (rules, meta) for property pid; rules = list of (name, fn(ctx), floor)"""
    R = []
    meta = {'explanation': '', 'assumptions': []}
    if pid == 'C01':
        R = [
            ('RF-P Q_1 * domain is added on every path, whatever the number of messages', rf_codec.rule_domain_term_on_every_path, 3),
            ('RF-S the tests success rests on hold the way round and with the strictness they had', lambda c: rf_senses.rule_acceptance_senses(c, group='bbs', strict=False, only=['::sign', '::verify']), 1),
            ('RF-D identity / zero guards test the value that is used afterwards', rf_gates.rule_guards_test_final_value, 4),
            ('RF-B pass-through arguments keep their role', rf_consts.rule_argument_roles, 40),
            ('RF-A option-normalisation sign/verify', lambda c: rf_consts.rule_option_normalisation(c, [T.SIG + 'sign', T.SIG + 'verify']), 4),
            ('RF-B interface constants sign/verify', lambda c: rf_consts.rule_interface_constants(c, [T.SIG + 'sign', T.SIG + 'verify']), 8),
            ('A5 ciphersuite constants', rf_consts.rule_ciphersuite_constants, 30),
            ('RF-T size thresholds (uniform behaviour in L / lengths)', rf_frame.rule_size_thresholds, 3),
            ('RF-P accumulation loops cover every message', lambda c: rf_codec.rule_loop_coverage(c, fns=['bbsplus::signature::core_sign', 'bbsplus::signature::core_verify']), 2),
            ('RF-M generator / message pairing', rf_codec.rule_generator_pairing, 8),
            ('RF-W acceptance conditions test the combinations of inputs tested before', lambda c: rf_gatesets.rule_gate_sets(c, group='bbs', only=['::sign', '::verify']), 2),
            ('RF-X no new cause of failure below the entry points', lambda c: rf_gatesets.rule_error_origins(c, only=['::sign', '::verify']), 2),
            ('RF-V acceptance regions (no new refusal of inputs accepted before)', lambda c: rf_accept.rule_acceptance_regions(c, only=['::sign', '::verify', 'core_sign', 'core_verify', 'calculate_domain', 'hash_to_scalar', 'key_gen']), 3),
        ]
        meta['explanation'] = ('Structural clauses of signature completeness decided on the MIR of the working tree: None==empty '
                               'normalisation of header/messages (complete), identical interface constants reaching every DST/seed role '
                               'from sign and verify (necessary for agreement), ciphersuite constant table. The pairing algebra is not decided.')
    elif pid == 'C02':
        R = [
            ('RF-Y no accept path goes on because a fallible operation failed', rf_errors.rule_failures_do_not_pass, 2),
            ('RF-P Q_1 * domain is added on every path, whatever the number of messages', rf_codec.rule_domain_term_on_every_path, 3),
            ('RF-S the tests success rests on hold the way round and with the strictness they had', lambda c: rf_senses.rule_acceptance_senses(c, group='bbs', strict=False, only=['::verify']), 1),
            ('RF-E decoder inputs are copied, never computed', rf_frame.rule_decoder_input_integrity, 2),
            ('RF-Y failures of fallible operations are never discarded', rf_errors.rule_errors_not_discarded, 60),
            ('RF-B pass-through arguments keep their role', rf_consts.rule_argument_roles, 40),
            ('RF-B message lists handed down whole', rf_consts.rule_list_integrity, 15),
            ('RF-C octet-string ingredients are hashed whole', rf_hash.rule_whole_ingredients, 9),
            ('RF-C hash inputs are put together without lossy operations', rf_hash.rule_no_lossy_sinks, 2),
            ('RF-C hash binding (domain, map, e)', lambda c: rf_hash.rule_hash_binding(c, rf_hash.BBS_TABLE, BBS_SCOPE,
                only_fns=hash_fns('calculate_domain', 'messages_to_scalar', 'map_message_to_scalar_as_hash', 'core_sign', 'hash_to_scalar')), 20),
            ('RF-D verify gates', lambda c: rf_gates.rule_accept_requirements(c, only(T.VERIFY_REQS, T.SIG + 'verify', T.BSIG + 'verify_blind_sign')), 2),
            ('RF-D the verifiers refuse the values the octet decoders refuse (identity key, identity A, e = 0)', lambda c: rf_gates.rule_accept_requirements(c, T.VERIFY_VALUE_REQS), 6),
            ('RF-B interface constants', lambda c: rf_consts.rule_interface_constants(c, [T.SIG + 'verify', T.BSIG + 'verify_blind_sign']), 8),
            ('RF-T size thresholds (uniform behaviour in L / lengths)', rf_frame.rule_size_thresholds, 3),
            ('RF-D checked constructors only', rf_frame.rule_checked_constructors, 8),
            ('RF-P verification folds every message', lambda c: rf_codec.rule_loop_coverage(c, fns=['bbsplus::signature::core_verify']), 1),
            ('RF-D success values are computed from the inputs they bind', lambda c: rf_frame.rule_result_binding(c, only=['::sign']), 4),
        ]
        meta['explanation'] = ('Necessary conditions of binding: every datum the signature must be bound to must-flows into the hashed '
                               'domain / message-scalar buffers on every path, and the pairing comparison that gates acceptance has A, e, pk, '
                               'messages, header and the interface constants in its data-dependence slice. Collision resistance is assumed.')
    elif pid == 'C04':
        R = [
            ('RF-Y no accept path goes on because a fallible operation failed', rf_errors.rule_failures_do_not_pass, 2),
            ('RF-S the tests success rests on hold the way round and with the strictness they had', lambda c: rf_senses.rule_acceptance_senses(c, group='bbs', strict=False, only=['::proof_verify']), 1),
            ('RF-E decoder inputs are copied, never computed', rf_frame.rule_decoder_input_integrity, 2),
            ('RF-D identity / zero guards test the value that is used afterwards', rf_gates.rule_guards_test_final_value, 4),
            ('RF-Y failures of fallible operations are never discarded', rf_errors.rule_errors_not_discarded, 60),
            ('RF-B pass-through arguments keep their role', rf_consts.rule_argument_roles, 40),
            ('RF-B message lists handed down whole', rf_consts.rule_list_integrity, 15),
            ('RF-C octet-string ingredients are hashed whole', rf_hash.rule_whole_ingredients, 9),
            ('RF-C hash inputs are put together without lossy operations', rf_hash.rule_no_lossy_sinks, 2),
            ('RF-C challenge ingredients', lambda c: rf_hash.rule_hash_binding(c, rf_hash.BBS_TABLE, BBS_SCOPE,
                only_fns=hash_fns('proof_challenge_calculate', 'calculate_domain')), 15),
            ('RF-D proof_verify gates', lambda c: rf_gates.rule_accept_requirements(c, only(T.VERIFY_REQS, T.POK + 'proof_verify')), 4),
            ('RF-M disclosed messages stay paired with their indexes', rf_codec.rule_paired_lists_keep_their_order, 5),
            ('RF-L the blind verifier keeps signer and committed positions apart', rf_frame.rule_blind_verifier_index_ranges, 4),
            ('RF-D identity exclusion', lambda c: rf_gates.rule_accept_requirements(c, only(T.IDENTITY_REQS, T.POK + 'proof_verify')), 3),
            ('RF-K every proof field gates', lambda c: rf_gates.rule_all_fields_gate(c, T.POK + 'proof_verify', 'self', 'BBSplusPoKSignature'), 8),
            ('RF-D checked constructors only', rf_frame.rule_checked_constructors, 8),
            ('RF-E decoder framing (no trailing or missing octets in an encoded proof)', rf_frame.rule_decoder_framing, 7),
            ('RF-T size thresholds (uniform behaviour in L / lengths)', rf_frame.rule_size_thresholds, 3),
        ]
        meta['explanation'] = ('Necessary conditions of proof soundness: challenge ingredients must-flow, the challenge equality and the pairing '
                               'check gate every accept path and depend on every proof field and every public input, identity points are refused '
                               'on every constructor path, the disclosed messages stay paired with their indexes (no list of a pair is re-ordered without the other), and the blind verifier keeps signer positions (below L) and committed positions (below M) apart. Knowledge soundness of the sigma protocol itself is not decided.')
    elif pid == 'C06':
        R = [
            ('RF-Y no accept path goes on because a fallible operation failed', rf_errors.rule_failures_do_not_pass, 2),
            ('RF-S the tests success rests on hold the way round and with the strictness they had', lambda c: rf_senses.rule_acceptance_senses(c, group='bbs', strict=False, only=['::blind_sign', '::blind_proof_verify', 'deserialize_and_validate_commit']), 1),
            ('RF-B committed index translation and signer generator count use L + 1', rf_codec.rule_index_translation, 4),
            ('RF-L the blind verifier keeps signer and committed positions apart', rf_frame.rule_blind_verifier_index_ranges, 4),
            ('RF-D identity / zero guards test the value that is used afterwards', rf_gates.rule_guards_test_final_value, 4),
            ('RF-Y failures of fallible operations are never discarded', rf_errors.rule_errors_not_discarded, 60),
            ('RF-B pass-through arguments keep their role', rf_consts.rule_argument_roles, 40),
            ('RF-B message lists handed down whole', rf_consts.rule_list_integrity, 15),
            ('RF-C blind challenge ingredients', lambda c: rf_hash.rule_hash_binding(c, rf_hash.BBS_TABLE, BBS_SCOPE,
                only_fns=hash_fns('calculate_blind_challenge', 'finalize_blind_sign')), 10),
            ('RF-D blind gates', lambda c: rf_gates.rule_accept_requirements(c, only(T.VERIFY_REQS, T.BSIG + 'blind_sign',
                T.COM + 'deserialize_and_validate_commit', T.BSIG + 'verify_blind_sign', T.POK + 'blind_proof_verify')), 6),
            ('RF-B blind interface constants', lambda c: rf_consts.rule_interface_constants(c, BLIND_ENTRIES), 20),
            ('RF-T size thresholds (uniform behaviour in L / lengths)', rf_frame.rule_size_thresholds, 3),
            ('RF-D success values are computed from the inputs they bind', lambda c: rf_frame.rule_result_binding(c, only=['blind_sign']), 5),
        ]
        meta['explanation'] = ('Necessary conditions of blind soundness: blind_sign is control dependent on the commitment-proof challenge '
                               'equality, whose operands depend on the whole serialized commitment, the blind generators and the blind api id; '
                               'blind verification gates depend on committed messages, signer messages, blind factor, L, header, ph, pk.')
    elif pid == 'C11':
        R = [
            ('RF-Y no accept path goes on because a fallible operation failed', rf_errors.rule_failures_do_not_pass, 2),
            ('RF-Y failures of fallible operations are never discarded', rf_errors.rule_errors_not_discarded, 60),
            ('RF-B interface constants (all entry points)', rf_consts.rule_interface_constants, 40),
            ('RF-B pass-through arguments keep their role (an api_id handed on is the caller\'s api_id, also in the public helpers)', rf_consts.rule_argument_roles, 40),
            ('RF-A absent == empty in every function of the layer', rf_consts.rule_option_normalisation_all, 50),
            ('A5 ciphersuite constants', rf_consts.rule_ciphersuite_constants, 30),
            ('RF-C generator seeds', lambda c: rf_hash.rule_hash_binding(c, rf_hash.BBS_TABLE, BBS_SCOPE, only_fns=hash_fns('create_generators')), 10),
            ('RF-S no cache / shared state (generators are a pure function of count, api_id and the suite)', rf_consts.rule_shared_state, 3),
            ('RF-T size thresholds (first k generators independent of count)', rf_frame.rule_size_thresholds, 3),
        ]
        meta['explanation'] = ('Domain separation decided as constant propagation: from every public entry point exactly the interface\'s '
                               'api id (and the BLIND_ prefix for blind generators) reaches every DST / seed role; the two suites differ in '
                               'every interface constant. Disjointness of hash-to-curve outputs is assumed, not decided.')
    elif pid == 'C03':
        R = [
            ('RF-P Q_1 * domain is added on every path, whatever the number of messages', rf_codec.rule_domain_term_on_every_path, 3),
            ('RF-S the tests success rests on hold the way round and with the strictness they had', lambda c: rf_senses.rule_acceptance_senses(c, group='bbs', strict=False, only=['::proof_gen', '::proof_verify']), 1),
            ('RF-B pass-through arguments keep their role', rf_consts.rule_argument_roles, 40),
            ('RF-B message lists handed down whole', rf_consts.rule_list_integrity, 15),
            ('RF-A option-normalisation proof_gen/proof_verify', lambda c: rf_consts.rule_option_normalisation(c, [T.POK + 'proof_gen', T.POK + 'proof_verify']), 8),
            ('RF-N proof length and layout', rf_codec.rule_proof_length, 4),
            ('RF-N reader/writer agreement', rf_codec.rule_reader_writer, 2),
            ('RF-O production/mock twin agreement', rf_rand.rule_cfg_twins, 8),
            ('RF-B interface constants proof_gen/proof_verify', lambda c: rf_consts.rule_interface_constants(c, [T.POK + 'proof_gen', T.POK + 'proof_verify']), 10),
            ('RF-B index normalisation', rf_codec.rule_index_normalisation, 3),
            ('RF-M generator / message pairing', rf_codec.rule_generator_pairing, 8),
            ('RF-P accumulation loops cover every message', lambda c: rf_codec.rule_loop_coverage(c, fns=['bbsplus::proof::proof_init', 'bbsplus::proof::proof_verify_init', 'bbsplus::proof::proof_finalize']), 5),
            ('RF-T size thresholds (uniform behaviour in L / lengths)', rf_frame.rule_size_thresholds, 3),
            ('RF-G2 role positions (prover)', rf_rand.rule_role_projection, 6),
            ('RF-G2 the production source of blinding scalars returns exactly `count` of them', rf_rand.rule_draw_in_loop, 2),
            ('RF-D the serde decoder of a proof refuses zero scalars and nothing else (sense of the test, element by element)', rf_codec.rule_serde_checked_decoders, 6),
            ('RF-F proof_gen panic census', lambda c: rf_panic.rule_panic_census(c, entries=[T.POK + 'proof_gen'], with_serde=False, min_functions=10), 25),
            ('RF-D success values are computed from the inputs they bind', lambda c: rf_frame.rule_result_binding(c, only=['::proof_gen']), 6),
            ('RF-L index lists are validated against their own message list', rf_frame.rule_index_lists_validated, 5),
            ('RF-V acceptance regions (no new refusal of inputs accepted before)', lambda c: rf_accept.rule_acceptance_regions(c, only=['::proof_gen', '::proof_verify', 'core_proof_gen', 'core_proof_verify', 'proof_init', 'proof_verify_init', 'calculate_domain']), 3),
            ('RF-W acceptance conditions test the combinations of inputs tested before', lambda c: rf_gatesets.rule_gate_sets(c, group='bbs', only=['::proof_gen', '::proof_verify']), 2),
            ('RF-X no new cause of failure below the entry points', lambda c: rf_gatesets.rule_error_origins(c, only=['::proof_gen', '::proof_verify']), 2),
        ]
        meta['explanation'] = ('Decides completely: None==empty for every optional input of proof_gen / proof_verify; proof length = 272 + 32 * U from the '
                               'writer layout and the one-push-per-undisclosed-message loop; reader offsets equal writer offsets. Decides as necessary conditions '
                               'of prover/verifier agreement: same interface constants, same generator split, sorted de-duplicated index lists on both sides, '
                               'full coverage of every message vector, and - invisible to the suite - that the production randomness request (5 + U, never compiled '
                               'under cfg(test)) equals the mocked one and the consumer guard. The Schnorr algebra is not decided.')
    elif pid == 'C05':
        R = [
            ('RF-P Q_1 * domain is added on every path, whatever the number of messages', rf_codec.rule_domain_term_on_every_path, 3),
            ('RF-S the tests success rests on hold the way round and with the strictness they had', lambda c: rf_senses.rule_acceptance_senses(c, group='bbs', strict=False, only=['::commit', '::blind_sign', '::verify_blind_sign', '::blind_proof_gen', '::blind_proof_verify', 'deserialize_and_validate_commit']), 1),
            ('RF-B index normalisation (prover and verifier agree on the canonical index lists)', rf_codec.rule_index_normalisation, 3),
            ('RF-D identity / zero guards test the value that is used afterwards', rf_gates.rule_guards_test_final_value, 4),
            ('RF-B pass-through arguments keep their role', rf_consts.rule_argument_roles, 40),
            ('RF-B message lists handed down whole', rf_consts.rule_list_integrity, 15),
            ('RF-A option-normalisation blind entry points', lambda c: rf_consts.rule_option_normalisation(c, BLIND_ENTRIES), 14),
            ('RF-B blind interface constants', lambda c: rf_consts.rule_interface_constants(c, BLIND_ENTRIES), 20),
            ('RF-O production/mock twin agreement', rf_rand.rule_cfg_twins, 8),
            ('RF-P accumulation loops (commit / blind B)', lambda c: rf_codec.rule_loop_coverage(c, fns=['bbsplus::commitment::core_commit', 'bbsplus::commitment::core_commit_verify', 'bbsplus::blind::calculate_b']), 3),
            ('RF-G2 role positions (commit)', rf_rand.rule_role_projection, 6),
            ('RF-G2 the production source of blinding scalars returns exactly `count` of them', rf_rand.rule_draw_in_loop, 2),
            ('RF-T size thresholds (uniform behaviour in L / lengths)', rf_frame.rule_size_thresholds, 3),
            ('RF-B index translation agreement', rf_codec.rule_index_translation, 2),
            ('RF-L the blind verifier keeps signer and committed positions apart', rf_frame.rule_blind_verifier_index_ranges, 4),
            ('RF-F blind generation panic census', lambda c: rf_panic.rule_panic_census(c, entries=[T.POK + 'blind_proof_gen', T.BSIG + 'blind_sign'], with_serde=False, min_functions=12), 35),
            ('RF-D success values are computed from the inputs they bind', lambda c: rf_frame.rule_result_binding(c, only=['blind_sign','commit','blind_proof_gen']), 15),
            ('RF-L index lists are validated against their own message list', rf_frame.rule_index_lists_validated, 5),
            ('RF-V acceptance regions (no new refusal of inputs accepted before)', lambda c: rf_accept.rule_acceptance_regions(c, only=['commit', 'deserialize_and_validate_commit', 'blind_sign', 'verify_blind_sign', 'blind_proof_gen', 'blind_proof_verify', 'core_commit', 'core_commit_verify', 'prepare_parameters', 'calculate_blind_challenge', 'core_proof_gen', 'core_proof_verify', 'proof_verify_init']), 3),
            ('RF-W acceptance conditions test the combinations of inputs tested before', lambda c: rf_gatesets.rule_gate_sets(c, group='bbs', only=['commit', 'blind_sign', 'verify_blind_sign', 'blind_proof_gen', 'blind_proof_verify']), 2),
            ('RF-X no new cause of failure below the entry points', lambda c: rf_gatesets.rule_error_origins(c, only=['commit', 'blind_sign', 'verify_blind_sign', 'blind_proof_gen', 'blind_proof_verify']), 2),
        ]
        meta['explanation'] = ('Decides completely: None==empty for the optional octet/list inputs of the five blind entry points. Decides as necessary conditions: '
                               'all blind entry points reach only API_ID_BLIND (+ BLIND_ for blind generators) at every role, the commit randomness request M + 2 '
                               'equals its mock twin and the positions read, commitment / B loops cover every committed / signer message, prover and verifier shift '
                               'committed indexes by L + 1. The algebra is not decided.')
    elif pid == 'C07':
        R = [
            ('RF-G1 CSPRNG provenance', rf_rand.rule_randomness_provenance, 7),
            ('RF-G2 one draw per element', rf_rand.rule_draw_in_loop, 2),
            ('RF-G1 buffers have their final length when the generator fills them', rf_rand.rule_filled_buffers, 2),
            ('RF-G2 role positions', rf_rand.rule_role_projection, 6),
            ('RF-G4 responses are masked', rf_rand.rule_response_masks, 12),
            ('RF-O production/mock twin agreement', rf_rand.rule_cfg_twins, 8),
            ('RF-I transmitted types hold no secret type', rf_rand.rule_serialised_leaves_bbs, 7),
            ('RF-S no shared state', rf_consts.rule_shared_state, 3),
        ]
        meta['explanation'] = ('The production randomness path is never compiled into the test binary; here it is read in the production configurations. Decided: '
                               'every blinding role (proof scalars, commitment scalars, blind factor, random key material) has its only provenance in '
                               'rand::thread_rng (no constant, parameter, static or seeded generator), each vector element is drawn inside the generating loop, roles '
                               'occupy pairwise distinct positions agreed between producer and consumer, each response is mask +/- secret * challenge with its own mask, '
                               'transmitted types reach no secret-bearing type, and no shared state exists. Probabilistic distinctness is assumed from the CSPRNG.')
        meta['assumptions'] = ['rand::thread_rng is a CSPRNG reseeded from the OS', 'Scalar::random samples uniformly']
    elif pid == 'C08':
        R = [
            ('RF-F panic-site census', rf_panic.rule_panic_census, 90),
            ('RF-F allocation bounded by input size', rf_panic.rule_alloc_bounded, 15),
            ('RF-F work bounded by input size (counting loops)', rf_panic.rule_work_bounded, 20),
        ]
        meta['explanation'] = ('Every panic-capable MIR site (bounds / overflow asserts, slice range indexing, unwrap/expect, CtOption::unwrap, '
                               'copy_from_slice, explicit panics) in every function reachable from the 21 untrusted-input entry points and the derived '
                               'Deserialize impls is proven safe by a difference-bound length domain, turned into a precondition re-checked at every '
                               'call site up to the entry points, or discharged by an audited entry whose structural fingerprint is recomputed. '
                               'Generator counts / allocations must be bounded by input lengths. Termination of library code and wall time are not decided.')
        meta['assumptions'] = ['slice/Vec lengths are bounded by isize::MAX / size_of(element)', 'external crates do not panic on the paths used (contracts in audit.py)']
    elif pid == 'C09':
        R = [
            ('RF-E decoder inputs are copied, never computed', rf_frame.rule_decoder_input_integrity, 2),
            ('RF-Y failures of fallible operations are never discarded', rf_errors.rule_errors_not_discarded, 60),
            ('RF-E decoder framing', rf_frame.rule_decoder_framing, 7),
            ('RF-E array-typed inputs are cut out of octet strings by exact conversions', rf_frame.rule_array_inputs_exact, 3),
            ('RF-D identity / zero exclusion in decoders', lambda c: rf_gates.rule_accept_requirements(c, T.DECODER_REQS), 6),
            ('RF-D every decoded member is tested for the value its decoder refuses', lambda c: rf_gates.rule_decoded_values_tested(c, T.DECODED_MEMBERS), 8),
            ('RF-D the serde decoders refuse what the octet decoders refuse', rf_codec.rule_serde_checked_decoders, 6),
            ('RF-S the tests of the octet decoders keep their sense', lambda c: rf_senses.rule_acceptance_senses(c, scope=rf_senses.BBS_DECODER_SCOPE, floor=10, strict=False), 10),
            ('RF-N placeholder variants cannot be built from serialised data', rf_codec.rule_placeholder_variants_not_deserialisable, 4),
            ('RF-D checked constructors only', rf_frame.rule_checked_constructors, 8),
            ('RF-N reader/writer agreement', rf_codec.rule_reader_writer, 2),
            ('RF-N serde writer/reader agreement (derive output)', rf_codec.rule_serde_symmetry, 25),
        ]
        meta['explanation'] = ('Decides completely the length clause: the set of input lengths each decoder can accept, computed from difference-bound '
                               'facts and modular guards at its accept sites through delegated decoders, equals the tabled framing. Decides as necessary '
                               'conditions: acceptance is gated by the checked constructors and by identity / zero exclusion. Round-trip value equality is not decided.')
    elif pid == 'C10':
        R = [
            ('RF-B index normalisation (prover and verifier agree on the canonical index lists)', rf_codec.rule_index_normalisation, 3),
            ('RF-L limit guards', rf_frame.rule_limit_guards, 3),
            ('A5 constants equal the drafts', rf_consts.rule_ciphersuite_constants, 30),
            ('RF-C octet-string ingredients are hashed whole', rf_hash.rule_whole_ingredients, 9),
            ('RF-C hash inputs are put together without lossy operations', rf_hash.rule_no_lossy_sinks, 2),
            ('RF-C ingredient sets and length prefixes', lambda c: rf_hash.rule_hash_binding(c, rf_hash.BBS_TABLE, BBS_SCOPE), 60),
            ('RF-C I2OSP widths', rf_hash.rule_i2osp_width, 4),
            ('RF-A absent == empty in every function of the layer', rf_consts.rule_option_normalisation_all, 50),
            ('RF-S no shared state (schedule quantifier)', rf_consts.rule_shared_state, 3),
            ('RF-D the verifiers refuse the values the octet decoders refuse (identity key, identity A, e = 0)', lambda c: rf_gates.rule_accept_requirements(c, T.VERIFY_VALUE_REQS), 6),
            ('RF-D the proof verifiers refuse a zero scalar (octets_to_proof)', lambda c: rf_gates.rule_accept_requirements(c, T.PROOF_VALUE_REQS), 10),
            ('RF-D identity / zero exclusion in decoders', lambda c: rf_gates.rule_accept_requirements(c, T.DECODER_REQS), 6),
            ('RF-D every decoded member is tested for the value its decoder refuses', lambda c: rf_gates.rule_decoded_values_tested(c, T.DECODED_MEMBERS), 8),
            ('RF-D the serde decoders refuse what the octet decoders refuse', rf_codec.rule_serde_checked_decoders, 6),
            ('RF-S the tests of the octet decoders keep their sense', lambda c: rf_senses.rule_acceptance_senses(c, scope=rf_senses.BBS_DECODER_SCOPE, floor=10, strict=False), 10),
        ]
        meta['explanation'] = ('Value-level conformance with the drafts cannot be decided statically and is not claimed. Decided clauses: the three size '
                               'limits are enforced exactly (boundary values proven), constants equal the draft table, every hash ingredient set and '
                               'un-narrowed length prefix of width 8 (2 for key_info) is present, and the crate has no shared mutable state, so results '
                               'cannot depend on thread interleavings.')
    elif pid == 'C12':
        R = [
            ('RF-S the tests success rests on hold the way round and with the strictness they had', lambda c: rf_senses.rule_acceptance_senses(c, group='bbs', strict=False, only=['::update_signature']), 1),
            ('RF-D identity / zero guards test the value that is used afterwards', rf_gates.rule_guards_test_final_value, 4),
            ('RF-L update_index guard and generator offset', rf_frame.rule_update_index_guard, 2),
            ('RF-B interface constants of update_signature', lambda c: rf_consts.rule_interface_constants(c, [T.SIG + 'update_signature', T.SIG + 'sign']), 6),
            ('RF-S no shared state (history quantifier)', rf_consts.rule_shared_state, 3),
            ('RF-T size thresholds (uniform behaviour in L / lengths)', rf_frame.rule_size_thresholds, 3),

            ('RF-F update_signature panic census', lambda c: rf_panic.rule_panic_census(c, entries=[T.SIG + 'update_signature'], with_serde=False, min_functions=6), 8),
            ('RF-D success values are computed from the inputs they bind', lambda c: rf_frame.rule_result_binding(c, only=['update_signature','::sign']), 9),
            ('RF-V acceptance regions (no new refusal of inputs accepted before)', lambda c: rf_accept.rule_acceptance_regions(c, only=['update_signature', 'core_sign', 'core_verify']), 3),
            ('RF-W acceptance conditions test the combinations of inputs tested before', lambda c: rf_gatesets.rule_gate_sets(c, group='bbs', only=['update_signature']), 2),
            ('RF-X no new cause of failure below the entry points', lambda c: rf_gatesets.rule_error_origins(c, only=['update_signature']), 2),
        ]
        meta['explanation'] = ('Decides completely: a signature is returned only if update_index < n (boundary proven both ways) and the generator '
                               'selected is values[update_index + 1] as in sign/verify; update_signature reaches the same interface constants as sign; '
                               'the crate has no state besides arguments, so a history of updates is a composition of single steps. The group algebra '
                               '(A\' = B\'/(sk+e)) and wrong-old-value behaviour are not decided.')
    elif pid == 'C13':
        R = [
            ('RF-Q the random exponent of a signature has ls bits', rf_bits.rule_signature_randomness_bits, 2),
            ('RF-Y refusals of local helpers are never discarded (CL03)', lambda c: rf_errors.rule_errors_not_discarded(c, scope=rf_errors.SCOPE_CL03, min_sources=0), 1),
            ('RF-D CL03 verify gates (equation, e range, attribute range)', lambda c: rf_gates.rule_accept_requirements(c, CL.C13_REQS), 6),
            ('RF-K the verifier pins the representative of every transmitted integer', lambda c: CL.rule_canonical_representatives(c, CL.REPRESENTATIVE_SPECS['C13']), 6),
            ('RF-Q issued exponent leaves the loop only when valid', CL.rule_e_loop_exit, 3),
            ('RF-F secure_pow_mod exponents are positive by construction', CL.rule_secure_pow_exponents, 2),
            ('RF-T size special cases of the CL03 code are the tabled ones', rf_frame.rule_size_thresholds_cl03, 3),
            ('RF-P no range 0..=n over a count', CL.rule_no_inclusive_count_ranges, 2),
            ('RF-B literal base positions are position 0', CL.rule_constant_base_positions, 2),
            ('RF-B pk.b is used as a base, pk.c as a factor', CL.rule_key_member_roles, 2),
            ('RF-D a signature is computed from the key, the bases and every attribute', lambda c: rf_frame.rule_result_binding(c, table={k: v for k, v in rf_frame.RESULT_BINDING_CL03.items() if '::sign' in k and 'blind' not in k}), 8),
            ('RF-N CL03 signature octets: reader offsets = writer offsets', rf_codec.rule_cl03_signature_codec, 1),
            ('RF-N serde writer/reader agreement (CL03 keys, signatures, bases, messages)', lambda c: rf_codec.rule_serde_symmetry(c, scope=('cl03::signature', 'cl03::keys', 'cl03::bases', 'cl03::blind', 'utils::message::cl03_message'), min_types=5), 15),
            ('RF-P every attribute is folded with the base of its own position', lambda c: rf_codec.rule_loop_coverage(c, fns=[CL.SIGI + 'sign_multiattr', CL.SIGI + 'verify_multiattr'], follow_prefix='cl03::signature::'), 3),
            ('RF-W acceptance conditions test the combinations of inputs tested before', lambda c: rf_gatesets.rule_gate_sets(c, group='cl03', only=['::verify', 'verify_multiattr']), 2),
            ('RF-S the tests acceptance rests on hold the way round and with the strictness they had', lambda c: rf_senses.rule_acceptance_senses(c, group='cl03', only=['CL03<CS>>>::verify', 'verify_multiattr']), 2),
            ('RF-S guards of the other signature functions keep their sense', lambda c: rf_senses.rule_acceptance_senses(c, scope=('cl03::signature::',)), 1),
        ]
        meta['explanation'] = ('CL03 is analysed in the all-features configuration the baseline never builds. Decided (necessary): verify / verify_multiattr accept only through '
                               'the equation comparison (depending on v, e, s, bases, attributes, b, c, N), the lower bound on e and a comparison of every attribute with 2^lm '
                               '(excludes the (v*a^k, m+k*e) forgeries) and comparisons that pin the representative of v (v + k*N is refused); (complete, given next_prime) sign / sign_multiattr / blind_sign leave the generate-and-test loop only with '
                               '2^(le-1) < e < 2^le and gcd(e, phi) = 1, e = random_prime(le). The modular algebra is not decided.')
    elif pid == 'C14':
        R = [
            ('RF-B bases are selected by attribute position', CL.rule_bases_by_attribute_position, 6),
            ('RF-Y refusals of local helpers are never discarded (CL03)', lambda c: rf_errors.rule_errors_not_discarded(c, scope=rf_errors.SCOPE_CL03, min_sources=0), 1),
            ('RF-B pass-through arguments keep their role (CL03)', lambda c: rf_consts.rule_argument_roles(c, scope=('cl03::',), min_sites=25), 25),
            ('RF-D blind_sign gated by verify_proof', CL.rule_blind_sign_gated, 2),
            ('RF-D every issuing function checks a proof for the commitment it signs', CL.rule_issuing_functions_gated, 3),
            ('RF-D revealed attributes are used whenever they are handed in', CL.rule_optional_attributes_used, 3),
            ('RF-F secure_pow_mod exponents are positive by construction', CL.rule_secure_pow_exponents, 2),
            ('RF-T size special cases of the CL03 code are the tabled ones', rf_frame.rule_size_thresholds_cl03, 3),
            ('RF-P no range 0..=n over a count', CL.rule_no_inclusive_count_ranges, 2),
            ('RF-B literal base positions are position 0', CL.rule_constant_base_positions, 2),
            ('RF-B pk.b is used as a base, pk.c as a factor', CL.rule_key_member_roles, 2),
            ('RF-Q every issued signature (blind_sign, update_signature) gets an exponent of its own from the search loop', CL.rule_e_loop_exit, 4),
            ('RF-D the blind signature is computed from the commitment, the key, the bases and the revealed attributes', lambda c: rf_frame.rule_result_binding(c, table={k: v for k, v in rf_frame.RESULT_BINDING_CL03.items() if 'blind_sign' in k}), 6),
            ('RF-C Fiat-Shamir ingredients of the issuance sigma protocols', lambda c: rf_hash.rule_hash_binding(c, rf_hash.CL03_FS_TABLE, CL03_FS_SCOPE), 38),
            ('RF-D verify_proof gates', lambda c: rf_gates.rule_accept_requirements(c, CL.C14_REQS), 4),
            ('RF-B commit / prove base agreement', CL.rule_commit_prove_base_agreement, 3),
            ('RF-J carried commitments are equated; per-attribute proofs are tied to the commitment', lambda c: CL.rule_carried_commitment_equalities(c, link=('ZKPoK',)), 7),
            ('RF-K every ZKPoK leaf gates acceptance', lambda c: CL.rule_every_leaf_gates(c, which=('zkpok',)), 40),
            ('RF-K the verifier pins the representative of every transmitted integer', lambda c: CL.rule_canonical_representatives(c, CL.REPRESENTATIVE_SPECS['C14']), 40),
            ('RF-K list fields of the proof have the number of entries the statement requires', lambda c: CL.rule_list_fields_counted(c, CL.REPRESENTATIVE_SPECS['C14']), 4),
            ('RF-C the statement is part of the Fiat-Shamir challenge', lambda c: CL.rule_statement_in_challenge(c, skip=('nisp5_MultiAttr_verify_proof',)), 5),
            ('RF-C the larger-interval challenges are bound to the commitment of the whole range proof', CL.rule_whole_proof_anchor, 5),
            ('RF-D sub-verifiers cannot be switched off by the proof', CL.rule_checks_not_skippable_by_artefact, 8),
            ('RF-P cursor discipline', CL.rule_cursor_discipline, 10),
            ('RF-W acceptance conditions test the combinations of inputs tested before', lambda c: rf_gatesets.rule_gate_sets(c, group='cl03', only=['verify_proof']), 2),
            ('RF-S the tests acceptance rests on hold the way round and with the strictness they had', lambda c: rf_senses.rule_acceptance_senses(c, group='cl03', only=['verify_proof']), 1),
            ('RF-Q range proofs are made and checked for the interval of the quantity they are about', CL.rule_range_statement_intervals, 2),
            ('RF-D no verifier says true from inside a loop over the parts of a proof', CL.rule_no_early_accept, 2),
            ('RF-O provers and verifiers of the sigma protocols raise the same bases in the same order, one response per mask', CL.rule_prover_verifier_bases, 7),
            ('RF-B sub-prover and sub-verifier calls get bases selected the same way', CL.rule_subprotocol_bases_agree, 2),
            ('RF-B parameters of the range-proof functions are handed on under their own name', lambda c: rf_consts.rule_argument_roles(c, scope=('cl03::range_proof::',), callee_scope=('cl03::range_proof::',), roles=('g', 'h', 'n', 't', 'l', 's', 's1', 's2', 'T', 'a', 'b'), min_sites=20, tag=':range-proof'), 20),
            ('RF-S guards of the issuing and committing functions keep their sense', lambda c: rf_senses.rule_acceptance_senses(c, scope=('cl03::blind::', 'cl03::commitment::'), floor=2), 1),
        ]
        meta['explanation'] = ('Decided (necessary): every use of the secret key in blind_sign is dominated by verify_proof == true on the very C, C_trusted, pk, bases, key and positions '
                               'that are signed; verify_proof is gated by the multi-secret PoK, the per-attribute PoKs / range proofs and the PoK / range proof of r; each per-attribute commitment '
                               'is built over the base its proof uses (the defect that broke hidden positions other than 0); every carried commitment is equated with the value it must be about; '
                               'every serialised leaf of the ZKPoK influences a comparison the verdict depends on (the commitment randomness leaves do not: known finding), every transmitted integer is seen by some comparison as itself, every list field has its length compared, a trusted commitment is accepted only with its key, update_signature draws an exponent of its own. Known findings: the per-attribute proofs are not tied to C, and the C / C_trusted equality proof does not hash its statement. Unblinding algebra is not decided.')
    elif pid == 'C15':
        R = [
            ('RF-B bases are selected by attribute position', CL.rule_bases_by_attribute_position, 6),
            ('RF-Y refusals of local helpers are never discarded (CL03)', lambda c: rf_errors.rule_errors_not_discarded(c, scope=rf_errors.SCOPE_CL03, min_sources=0), 1),
            ('RF-B pass-through arguments keep their role (CL03)', lambda c: rf_consts.rule_argument_roles(c, scope=('cl03::',), min_sites=25), 25),
            ('RF-C nisp5 challenge ingredients', CL.rule_nisp5_challenge, 20),
            ('RF-C Fiat-Shamir ingredients of the per-attribute proofs', lambda c: rf_hash.rule_hash_binding(c, rf_hash.CL03_FS_TABLE, CL03_FS_SCOPE,
                only_fns={k for k in rf_hash.CL03_FS_TABLE if 'NISPSecrets' in k}), 8),
            ('RF-D proof_verify gates', lambda c: rf_gates.rule_accept_requirements(c, CL.C15_REQS), 3),
            ('RF-J carried commitments are equated; per-attribute proofs are tied to the signature proof', lambda c: CL.rule_carried_commitment_equalities(c, link=('PoKSignature',)), 7),
            ('RF-K every PoKSignature leaf gates acceptance', lambda c: CL.rule_every_leaf_gates(c, which=('pok',)), 40),
            ('RF-K the verifier pins the representative of every transmitted integer', lambda c: CL.rule_canonical_representatives(c, CL.REPRESENTATIVE_SPECS['C15']), 40),
            ('RF-K list fields of the proof have the number of entries the statement requires', lambda c: CL.rule_list_fields_counted(c, CL.REPRESENTATIVE_SPECS['C15']), 3),
            ('RF-C the statement is part of the Fiat-Shamir challenge', lambda c: CL.rule_statement_in_challenge(c, skip=('nisp2_verify_proof_MultiSecrets',)), 5),
            ('RF-C the larger-interval challenges are bound to the commitment of the whole range proof', CL.rule_whole_proof_anchor, 5),
            ('RF-Q the larger-interval sub-proofs are given the bound of the remainder', CL.rule_remainder_bound, 3),
            ('RF-D sub-verifiers cannot be switched off by the proof', CL.rule_checks_not_skippable_by_artefact, 8),
            ('RF-P cursor discipline (revealed / hidden position bookkeeping)', CL.rule_cursor_discipline, 10),
            ('RF-W acceptance conditions test the combinations of inputs tested before', lambda c: rf_gatesets.rule_gate_sets(c, group='cl03', only=['proof_verify']), 2),
            ('RF-S the tests acceptance rests on hold the way round and with the strictness they had', lambda c: rf_senses.rule_acceptance_senses(c, group='cl03', only=['proof_verify']), 1),
            ('RF-Q range proofs are made and checked for the interval of the quantity they are about', CL.rule_range_statement_intervals, 2),
            ('RF-D no verifier says true from inside a loop over the parts of a proof', CL.rule_no_early_accept, 2),
            ('RF-O provers and verifiers of the sigma protocols raise the same bases in the same order, one response per mask', CL.rule_prover_verifier_bases, 7),
            ('RF-B sub-prover and sub-verifier calls get bases selected the same way', CL.rule_subprotocol_bases_agree, 2),
            ('RF-B parameters of the range-proof functions are handed on under their own name', lambda c: rf_consts.rule_argument_roles(c, scope=('cl03::range_proof::',), callee_scope=('cl03::range_proof::',), roles=('g', 'h', 'n', 't', 'l', 's', 's1', 's2', 'T', 'a', 'b'), min_sites=20, tag=':range-proof'), 20),
            ('RF-P no range 0..=n over a count', CL.rule_no_inclusive_count_ranges, 2),
            ('RF-B literal base positions are position 0', CL.rule_constant_base_positions, 2),
            ('RF-B pk.b is used as a base, pk.c as a factor', CL.rule_key_member_roles, 2),
        ]
        meta['explanation'] = ('Decided (necessary): the recomputed challenge equality gates acceptance and depends on all nine responses, the four commitment values, both keys, the bases, the revealed '
                               'attributes and the attribute count; Ce is equated with the range proof on e and each per-attribute commitment with its range proof; every serialised leaf of the proof '
                               'influences a comparison (the commitment randomness leaves do not: known finding) and every transmitted integer - in particular the commitments Cx, Cv, Cw, Ce - is pinned to its canonical representative; revealed attributes are range-checked and counted, hidden positions lie below the attribute count, list fields have their lengths compared. Known findings: the per-attribute proofs are not tied to the signature proof, and the nisp5 challenge does not hash its statement. Completeness algebra and soundness of the nine-response protocol are not decided.')
    elif pid == 'C16':
        R = [
            ('RF-Y refusals of local helpers are never discarded (CL03)', lambda c: rf_errors.rule_errors_not_discarded(c, scope=rf_errors.SCOPE_CL03, min_sources=0), 1),
            ('RF-D range proof gates', lambda c: rf_gates.rule_accept_requirements(c, CL.C16_REQS), 7),
            ('RF-J proofs of square are about the decomposition', CL.rule_carried_commitment_equalities, 6),
            ('RF-K the verifier pins the representative of every transmitted integer', lambda c: CL.rule_canonical_representatives(c, CL.REPRESENTATIVE_SPECS['C16']), 20),
            ('RF-C Fiat-Shamir ingredients', CL.rule_range_proof_hash_sites, 15),
            ('RF-C the statement is part of the Fiat-Shamir challenge', lambda c: CL.rule_statement_in_challenge(c, only=('range_proof',)), 3),
            ('RF-C the larger-interval challenges are bound to the commitment of the whole range proof', CL.rule_whole_proof_anchor, 5),
            ('RF-O prover and verifier agree on the interval of the larger-interval response', CL.rule_response_interval_agreement, 2),
            ('RF-Q the larger-interval sub-proofs are given the bound of the remainder', CL.rule_remainder_bound, 3),
            ('RF-Q tolerance exponent shape', CL.rule_tolerance_exponent, 2),
            ('RF-Q the tolerance parameter T = 2(t + l + 1) + bit length of the width', CL.rule_tolerance_parameter, 3),
            ('RF-J sub-provers of the range proof are handed the commitment their value and randomness open', CL.rule_opening_triples, 5),
            ('RF-F secure_pow_mod exponents are positive by construction', CL.rule_secure_pow_exponents, 2),
            ('RF-Q the honest prover refuses out-of-range values', CL.rule_prover_refuses_out_of_range, 3),
            ('RF-W acceptance conditions test the combinations of inputs tested before', lambda c: rf_gatesets.rule_gate_sets(c, group='cl03', only=['Boudot2000RangeProof::verify']), 2),
            ('RF-S the tests acceptance rests on hold the way round and with the strictness they had', lambda c: rf_senses.rule_acceptance_senses(c, group='cl03', only=['Boudot2000RangeProof::verify']), 1),
            ('RF-D no verifier says true from inside a loop over the parts of a proof', CL.rule_no_early_accept, 2),
            ('RF-O provers and verifiers of the sigma protocols raise the same bases in the same order, one response per mask', CL.rule_prover_verifier_bases, 7),
            ('RF-B sub-prover and sub-verifier calls get bases selected the same way', CL.rule_subprotocol_bases_agree, 2),
            ('RF-B parameters of the range-proof functions are handed on under their own name', lambda c: rf_consts.rule_argument_roles(c, scope=('cl03::range_proof::',), callee_scope=('cl03::range_proof::',), roles=('g', 'h', 'n', 't', 'l', 's', 's1', 's2', 'T', 'a', 'b'), min_sites=20, tag=':range-proof'), 20),
            ('RF-S guards of the range prover keep their sense', lambda c: rf_senses.rule_acceptance_senses(c, scope=('cl03::range_proof::',)), 1),
        ]
        meta['explanation'] = ('Decided (necessary): acceptance of a Boudot range proof is gated by E\' == E^(2^T), the two decomposition equalities, both proofs of square and both larger-interval '
                               'proofs, each depending on the commitment, bases, modulus and bounds; the commitment carried by each proof of square is equated with E_a_1 / E_b_1 (the transplant defect); '
                               'the four Fiat-Shamir hashes contain what they must; each of the 27 integers of a proof is seen by some comparison as itself and not only modulo n (E + n, F + n, shifted E_a_1 / E pairs are refused); the challenges of both sub-proof verifiers hash their whole statement as itself (an honest proof cannot be moved onto E * g^d * h^r). Completeness for in-range values and the soundness bounds are not decided.')
    elif pid == 'C17':
        R = [
            ('RF-I no member of a proof is a copy of a commitment handed in with its opening', CL.rule_no_copy_of_input_commitment, 3),
            ('RF-I no opening in the serialised proof types', CL.rule_no_opening_serialised, 4),
            ('RF-G2 hidden attributes are always blinded (mask selection)', CL.rule_mask_vectors, 8),
            ('RF-G2 sibling commitments use independent randomness', CL.rule_sibling_randomness, 2),
            ('RF-H response masks vs challenge / secret lengths (a response that reveals its secret confirms a guessed attribute)', rf_bits.rule_response_masking, 17),
            ('RF-H range-proof responses: the challenge is reduced to the t bits the masks provide for', rf_bits.rule_range_proof_challenge_length, 4),
        ]
        meta['explanation'] = ('Decided completely for the structural reading: the leaves the (derived) Serialize impls of CL03ZKPoK and CL03PoKSignature emit are enumerated from the resolved impl bodies; '
                               'none may be the randomness of a commitment to a hidden value. On this tree seven such leaves are emitted (known findings: the repair changes the wire format). '
                               'Computational hiding is not decided.')
    elif pid == 'C18':
        R = [
            ('RF-Q the random exponent of a signature has ls bits', rf_bits.rule_signature_randomness_bits, 2),
            ('RF-Q key / parameter generation loops and shapes', rf_bits.rule_key_generation, 20),
            ('RF-Q random helpers', rf_bits.rule_random_helpers, 6),
            ('RF-N CL03 key octets: reader offsets = writer offsets', rf_codec.rule_cl03_key_codecs, 3),
            ('RF-P no range 0..=n over a count', CL.rule_no_inclusive_count_ranges, 2),
            ('RF-S guards of the key decoders keep their sense', lambda c: rf_senses.rule_acceptance_senses(c, scope=('cl03::keys::',)), 1),
        ]
        meta['explanation'] = ('Decided (complete given the rug contracts is_probably_prime / next_prime / secure_pow_mod): both copies of the safe-prime search leave each loop only after the primality '
                               'test (and p != q), p = 2 p\' + 1 with p\' = random_prime(SECPARAM); b, c, a_i, h are random_qr(N) = r^2 mod N accepted only if > 1 and coprime to N; every g_i is a power of h '
                               'stored only after the > 1 / gcd test; random_bits sets bit n - 1; rand_int = a + random_below(b - a + 1); all seeds come from thread_rng. Primality itself and codec round trips are not decided.')
    elif pid == 'C19':
        R = [
            ('RF-H response masks vs challenge / secret lengths', rf_bits.rule_response_masking, 17),
            ('RF-H range-proof responses: the challenge is reduced to the t bits the masks provide for', rf_bits.rule_range_proof_challenge_length, 4),
            ('RF-G2 one fresh draw per mask element', CL.rule_mask_vectors, 8),
        ]
        meta['explanation'] = ('Decided completely for the two quotient attacks the property names, by bit-length arithmetic over the MIR evaluated for CL1024/2048/3072: every response mask + challenge * secret '
                               'in the four sigma-protocol provers must have mask_bits >= 256 + 65 (N1), and for responses whose secrets differ by one factor the denominator mask must dominate its product (N2). '
                               'On this tree 3 N1 and 2 N2 violations exist (known findings: choosing new lengths is a protocol decision). Statistical distance as a number is not decided.')
    return R, meta


ALL = ['C%02d' % i for i in range(1, 20)]

# positive controls (thorough tier): patches that break the property; the property's own quick check must report each of them.
# unfix-* = reverse of a `fix:` commit of /repo; seeded/* = changes written by independent sub-agents (see DESIGN.md section 6).
CONTROLS = {
    'C01': ['seeded/C01-a/patch.diff', 'seeded/C01-b/patch.diff', 'seeded/C01-c/patch.diff', 'seeded/C01-d/patch.diff', 'seeded/C01-e/patch.diff', 'seeded/C01-g/patch.diff', 'seeded/C01-j/patch.diff'],
    'C02': ['selftest/mutants/unfix-1a8aa8f.patch', 'seeded/C02-a/patch.diff', 'seeded/C04-a/patch.diff', 'seeded/C02-b/patch.diff', 'seeded/C02-c/patch.diff', 'seeded/C02-d/patch.diff', 'seeded/C02-e/patch.diff', 'seeded/C02-g/patch.diff', 'seeded/C02-h/patch.diff'],
    'C03': ['seeded/C03-a/patch.diff', 'seeded/C03-c/patch.diff', 'seeded/C03-d/patch.diff', 'seeded/C03-e/patch.diff', 'seeded/C03-g/patch.diff', 'seeded/C03-h/patch.diff', 'seeded/C03-i/patch.diff'],
    'C04': ['selftest/mutants/unfix-4e31b69.patch', 'selftest/mutants/unfix-1c8b8b0.patch', 'selftest/mutants/unfix-99e0eb6.patch', 'selftest/mutants/unfix-44a689e.patch', 'seeded/C04-a/patch.diff', 'seeded/C04-b/patch.diff', 'seeded/C04-c/patch.diff', 'seeded/C04-d/patch.diff', 'seeded/C04-f/patch.diff', 'seeded/C04-h/patch.diff', 'seeded/C04-i/patch.diff'],
    'C05': ['seeded/C05-a/patch.diff', 'seeded/C05-b/patch.diff', 'seeded/C05-c/patch.diff', 'seeded/C05-d/patch.diff', 'seeded/C05-e/patch.diff', 'seeded/C05-g/patch.diff', 'seeded/C05-h/patch.diff'],
    'C06': ['selftest/mutants/unfix-99e0eb6.patch', 'selftest/mutants/unfix-44a689e.patch', 'seeded/C06-a/patch.diff', 'seeded/C06-b/patch.diff', 'seeded/C06-c/patch.diff', 'seeded/C06-d/patch.diff', 'seeded/C06-e/patch.diff', 'seeded/C06-f/patch.diff', 'seeded/C06-h/patch.diff', 'seeded/C06-i/patch.diff'],
    'C07': ['seeded/C07-a/patch.diff', 'seeded/C07-b/patch.diff', 'seeded/C07-c/patch.diff', 'seeded/C07-d/patch.diff', 'seeded/C07-e/patch.diff', 'seeded/C07-g/patch.diff', 'seeded/C07-j/patch.diff'],
    'C08': ['selftest/mutants/unfix-928b770.patch', 'selftest/mutants/unfix-05eab20.patch', 'selftest/mutants/unfix-6597d81.patch', 'seeded/C08-b/patch.diff', 'selftest/mutants/work-unbounded-L.patch', 'seeded/C08-d/patch.diff', 'seeded/C08-e/patch.diff', 'seeded/C08-g/patch.diff', 'seeded/C08-j/patch.diff', 'seeded/C08-k/patch.diff'],
    'C09': ['selftest/mutants/unfix-928b770.patch', 'selftest/mutants/unfix-4e31b69.patch', 'selftest/mutants/unfix-e3aa4b0.patch', 'selftest/mutants/unfix-1a8aa8f.patch', 'selftest/mutants/unfix-07e52dd.patch', 'selftest/mutants/unfix-dc0c0a4.patch', 'seeded/C09-a/patch.diff', 'seeded/C09-b/patch.diff', 'seeded/C09-c/patch.diff', 'seeded/C09-d/patch.diff', 'seeded/C09-e/patch.diff', 'seeded/C09-f/patch.diff', 'seeded/C09-h/patch.diff', 'seeded/C09-i/patch.diff'],
    'C10': ['selftest/mutants/unfix-1a8aa8f.patch', 'selftest/mutants/unfix-e3aa4b0.patch', 'seeded/C10-a/patch.diff', 'seeded/C10-b/patch.diff', 'seeded/C10-c/patch.diff', 'seeded/C10-d/patch.diff', 'seeded/C10-e/patch.diff', 'seeded/C10-f/patch.diff', 'seeded/C10-h/patch.diff', 'seeded/C10-i/patch.diff'],
    'C11': ['seeded/C11-a/patch.diff', 'seeded/C11-b/patch.diff', 'seeded/C11-c/patch.diff', 'seeded/C11-d/patch.diff', 'seeded/C11-e/patch.diff', 'seeded/C11-g/patch.diff', 'seeded/C11-j/patch.diff'],
    'C12': ['selftest/mutants/unfix-ae1f505.patch', 'seeded/C12-a/patch.diff', 'seeded/C12-b/patch.diff', 'seeded/C12-c/patch.diff', 'seeded/C12-d/patch.diff', 'seeded/C12-e/patch.diff', 'seeded/C12-g/patch.diff', 'seeded/C12-h/patch.diff'],
    'C13': ['selftest/mutants/unfix-4faa0f0.patch', 'selftest/mutants/unfix-d5d2c0e.patch', 'selftest/mutants/unfix-d882cd3.patch', 'seeded/C13-a/patch.diff', 'seeded/C13-b/patch.diff', 'seeded/C13-c/patch.diff', 'seeded/C13-d/patch.diff', 'seeded/C13-e/patch.diff', 'seeded/C13-f/patch.diff', 'seeded/C13-h/patch.diff', 'seeded/C13-i/patch.diff', 'seeded/C13-j/patch.diff'],
    'C14': ['selftest/mutants/unfix-2e6b8d5.patch', 'selftest/mutants/unfix-2d01ace.patch', 'selftest/mutants/unfix-7b76bb5.patch', 'selftest/mutants/unfix-16c9f60.patch', 'selftest/mutants/unfix-9a8e02d.patch', 'seeded/C14-b/patch.diff', 'seeded/C14-d/patch.diff', 'seeded/C14-e/patch.diff', 'seeded/C14-f/patch.diff', 'seeded/C14-h/patch.diff', 'seeded/C14-i/patch.diff', 'seeded/C14-j/patch.diff'],
    'C15': ['selftest/mutants/unfix-2d01ace.patch', 'selftest/mutants/unfix-85ebe8e.patch', 'selftest/mutants/unfix-164e21b.patch', 'seeded/C15-a/patch.diff', 'seeded/C15-b/patch.diff', 'seeded/C15-c/patch.diff', 'seeded/C15-d/patch.diff', 'seeded/C15-e/patch.diff', 'seeded/C15-f/patch.diff', 'seeded/C15-h/patch.diff', 'seeded/C15-i/patch.diff', 'seeded/C15-j/patch.diff'],
    'C16': ['selftest/mutants/unfix-b52ed69.patch', 'selftest/mutants/unfix-2d81d25.patch', 'selftest/mutants/unfix-96df85f.patch', 'seeded/C16-a/patch.diff', 'seeded/C16-b/patch.diff', 'seeded/C16-c/patch.diff', 'seeded/C16-d/patch.diff', 'seeded/C16-f/patch.diff', 'seeded/C16-h/patch.diff', 'seeded/C16-i/patch.diff', 'seeded/C16-j/patch.diff', 'seeded/C16-k/patch.diff'],
    'C17': ['seeded/C17-a/patch.diff', 'seeded/C17-b/patch.diff', 'seeded/C17-c/patch.diff', 'seeded/C17-d/patch.diff', 'seeded/C17-e/patch.diff', 'seeded/C17-g/patch.diff', 'seeded/C17-j/patch.diff', 'seeded/C17-k/patch.diff'],
    'C18': ['seeded/C18-a/patch.diff', 'seeded/C18-b/patch.diff', 'seeded/C18-c/patch.diff', 'seeded/C18-d/patch.diff', 'seeded/C18-e/patch.diff', 'seeded/C18-g/patch.diff', 'seeded/C18-j/patch.diff', 'seeded/C18-k/patch.diff'],
    'C19': ['seeded/C19-a/patch.diff', 'seeded/C19-b/patch.diff', 'seeded/C19-c/patch.diff', 'seeded/C19-d/patch.diff', 'seeded/C19-e/patch.diff', 'seeded/C19-g/patch.diff'],
}

# negative controls (thorough tier): behaviour-preserving refactorings; the property's quick check must stay silent on each of them.
NEGATIVE = {
    'C01': ['selftest/negative/N1-zip-loop-core_verify.patch', 'selftest/negative/N8-msm-helper-iter_mut.patch', 'selftest/negative/R3N1-p1.patch', 'selftest/negative/R3N1-p2.patch', 'selftest/negative/R3N1-p3.patch', 'selftest/negative/R3N1-p4.patch'],
    'C02': ['selftest/negative/N1-zip-loop-core_verify.patch', 'selftest/negative/N2-helper-domain-input.patch', 'selftest/negative/N7-hash-call-in-helper.patch', 'selftest/negative/N8-msm-helper-iter_mut.patch', 'selftest/negative/R3N1-p1.patch', 'selftest/negative/R3N1-p2.patch', 'selftest/negative/R3N1-p3.patch', 'selftest/negative/R3N1-p4.patch', 'selftest/negative/R3N5-p1.patch', 'selftest/negative/R3N5-p2.patch', 'selftest/negative/R3N5-p3.patch', 'selftest/negative/R3N5-p4.patch'],
    'C03': ['selftest/negative/N9-index-check-closure.patch', 'selftest/negative/R3N2-p1.patch', 'selftest/negative/R3N2-p2.patch', 'selftest/negative/R3N2-p3.patch', 'selftest/negative/R3N2-p4.patch', 'selftest/negative/R3N3-p1.patch', 'selftest/negative/R3N3-p2.patch', 'selftest/negative/R3N3-p3.patch', 'selftest/negative/R3N3-p4.patch'],
    'C04': ['selftest/negative/N4-reorder-rename-proof_verify_init.patch', 'selftest/negative/N7-hash-call-in-helper.patch', 'selftest/negative/R3N3-p1.patch', 'selftest/negative/R3N3-p2.patch', 'selftest/negative/R3N3-p3.patch', 'selftest/negative/R3N3-p4.patch'],
    'C05': ['selftest/negative/N9-index-check-closure.patch', 'selftest/negative/R3N2-p1.patch', 'selftest/negative/R3N2-p2.patch', 'selftest/negative/R3N2-p3.patch', 'selftest/negative/R3N2-p4.patch', 'selftest/negative/R3N4-p1.patch', 'selftest/negative/R3N4-p2.patch', 'selftest/negative/R3N4-p3.patch', 'selftest/negative/R3N4-p4.patch'],
    'C06': ['selftest/negative/N3-get-okor-match-commitment.patch', 'selftest/negative/R3N3-p1.patch', 'selftest/negative/R3N3-p2.patch', 'selftest/negative/R3N3-p3.patch', 'selftest/negative/R3N3-p4.patch', 'selftest/negative/R3N4-p1.patch', 'selftest/negative/R3N4-p2.patch', 'selftest/negative/R3N4-p3.patch', 'selftest/negative/R3N4-p4.patch'],
    'C07': ['selftest/negative/R3N2-p1.patch', 'selftest/negative/R3N2-p2.patch', 'selftest/negative/R3N2-p3.patch', 'selftest/negative/R3N2-p4.patch', 'selftest/negative/R3N5-p1.patch', 'selftest/negative/R3N5-p2.patch', 'selftest/negative/R3N5-p3.patch', 'selftest/negative/R3N5-p4.patch'],
    'C08': ['selftest/negative/N3-get-okor-match-commitment.patch', 'selftest/negative/N4-reorder-rename-proof_verify_init.patch', 'selftest/negative/N8-msm-helper-iter_mut.patch', 'selftest/negative/N9-index-check-closure.patch', 'selftest/negative/R3N1-p1.patch', 'selftest/negative/R3N1-p2.patch', 'selftest/negative/R3N1-p3.patch', 'selftest/negative/R3N1-p4.patch', 'selftest/negative/R3N2-p1.patch', 'selftest/negative/R3N2-p2.patch', 'selftest/negative/R3N2-p3.patch', 'selftest/negative/R3N2-p4.patch', 'selftest/negative/R3N3-p1.patch', 'selftest/negative/R3N3-p2.patch', 'selftest/negative/R3N3-p3.patch', 'selftest/negative/R3N3-p4.patch', 'selftest/negative/R3N4-p1.patch', 'selftest/negative/R3N4-p2.patch', 'selftest/negative/R3N4-p3.patch', 'selftest/negative/R3N4-p4.patch', 'selftest/negative/R3N5-p1.patch', 'selftest/negative/R3N5-p2.patch', 'selftest/negative/R3N5-p3.patch', 'selftest/negative/R3N5-p4.patch'],
    'C09': ['selftest/negative/N3-get-okor-match-commitment.patch', 'selftest/negative/R3N1-p1.patch', 'selftest/negative/R3N1-p2.patch', 'selftest/negative/R3N1-p3.patch', 'selftest/negative/R3N1-p4.patch', 'selftest/negative/R3N3-p1.patch', 'selftest/negative/R3N3-p2.patch', 'selftest/negative/R3N3-p3.patch', 'selftest/negative/R3N3-p4.patch', 'selftest/negative/R3N4-p1.patch', 'selftest/negative/R3N4-p2.patch', 'selftest/negative/R3N4-p3.patch', 'selftest/negative/R3N4-p4.patch', 'selftest/negative/R3N5-p1.patch', 'selftest/negative/R3N5-p2.patch', 'selftest/negative/R3N5-p3.patch', 'selftest/negative/R3N5-p4.patch'],
    'C10': ['selftest/negative/N2-helper-domain-input.patch', 'selftest/negative/N7-hash-call-in-helper.patch', 'selftest/negative/R3N5-p1.patch', 'selftest/negative/R3N5-p2.patch', 'selftest/negative/R3N5-p3.patch', 'selftest/negative/R3N5-p4.patch'],
    'C11': ['selftest/negative/R3N5-p1.patch', 'selftest/negative/R3N5-p2.patch', 'selftest/negative/R3N5-p3.patch', 'selftest/negative/R3N5-p4.patch'],
    'C12': ['selftest/negative/R3N1-p1.patch', 'selftest/negative/R3N1-p2.patch', 'selftest/negative/R3N1-p3.patch', 'selftest/negative/R3N1-p4.patch'],
    'C13': ['selftest/negative/R3N6-p1.patch', 'selftest/negative/R3N6-p2.patch', 'selftest/negative/R3N6-p3.patch', 'selftest/negative/R3N6-p4.patch'],
    'C14': ['selftest/negative/R3N7-p1.patch', 'selftest/negative/R3N7-p2.patch', 'selftest/negative/R3N7-p3.patch', 'selftest/negative/R3N7-p4.patch'],
    'C15': ['selftest/negative/R3N7-p1.patch', 'selftest/negative/R3N7-p2.patch', 'selftest/negative/R3N7-p3.patch', 'selftest/negative/R3N7-p4.patch'],
    'C16': ['selftest/negative/N5-C16-helper-correct-rounding.patch', 'selftest/negative/R3N8-p1.patch', 'selftest/negative/R3N8-p2.patch', 'selftest/negative/R3N8-p3.patch'],
    'C17': ['selftest/negative/N10-r5-mapped-closure.patch', 'selftest/negative/R3N7-p1.patch', 'selftest/negative/R3N7-p2.patch', 'selftest/negative/R3N7-p3.patch', 'selftest/negative/R3N7-p4.patch', 'selftest/negative/R3N8-p1.patch', 'selftest/negative/R3N8-p2.patch', 'selftest/negative/R3N8-p3.patch'],
    'C18': ['selftest/negative/N6-C18-helper-correct-bits.patch', 'selftest/negative/R3N6-p1.patch', 'selftest/negative/R3N6-p2.patch', 'selftest/negative/R3N6-p3.patch', 'selftest/negative/R3N6-p4.patch'],
    'C19': ['selftest/negative/N10-r5-mapped-closure.patch', 'selftest/negative/R3N7-p1.patch', 'selftest/negative/R3N7-p2.patch', 'selftest/negative/R3N7-p3.patch', 'selftest/negative/R3N7-p4.patch'],
}

# round 5: bolder refactorings (named-role structs, helpers taking function values, pair vectors, Result-returning check helpers ...)
_R5 = {'R5N1': ['C01', 'C02', 'C08', 'C12'], 'R5N2': ['C03', 'C05', 'C07', 'C08'], 'R5N3': ['C03', 'C04', 'C06', 'C09'], 'R5N4': ['C06', 'C09', 'C10', 'C11'],
       'R5N5': ['C01', 'C02', 'C07', 'C10'], 'R5N6': ['C13', 'C18'], 'R5N7': ['C14', 'C15', 'C17', 'C19'], 'R5N8': ['C15', 'C16', 'C17']}
for _g, _ps in _R5.items():
    for _j in (1, 2, 3, 4):
        _f = 'selftest/negative/%s-p%d.patch' % (_g, _j)
        if os.path.exists(os.path.join(os.path.dirname(os.path.dirname(os.path.abspath(__file__))), _f)):
            for _p in _ps:
                NEGATIVE[_p].append(_f)

# round 6: the clean variants (same refactoring, slip corrected) of the seeded changes Cxx-d
_R6 = {'01': ['C01', 'C03', 'C08'], '02': ['C02', 'C10', 'C08'], '03': ['C03', 'C05', 'C08'], '04': ['C04', 'C09'], '05': ['C05', 'C06', 'C01'],
       '06': ['C06', 'C09', 'C03', 'C08'], '08': ['C08', 'C03', 'C07'], '09': ['C09', 'C03', 'C08'], '10': ['C10', 'C03', 'C05'], '11': ['C11', 'C06', 'C02'],
       '12': ['C12', 'C01'], '14': ['C14', 'C15'], '15': ['C15', 'C14'], '16': ['C16'], '17': ['C17', 'C19'], '18': ['C18', 'C13'], '19': ['C19', 'C17', 'C15']}
for _g, _ps in _R6.items():
    _f = 'selftest/negative/R6C%s-clean.patch' % _g
    if os.path.exists(os.path.join(os.path.dirname(os.path.dirname(os.path.abspath(__file__))), _f)):
        for _p in _ps:
            NEGATIVE[_p].append(_f)

# round 10: refactorings of the code the repairs of rounds 7 - 9 added (representation changes, validate / compute phases split into helpers,
# `ensure(cond, msg)?` error plumbing, performance rewrites)
_R10 = {'R10N1': ['C03', 'C04', 'C05', 'C06', 'C08', 'C09', 'C10'], 'R10N2': ['C01', 'C02', 'C04', 'C08', 'C09', 'C10'], 'R10N3': ['C14', 'C15', 'C16'],
        'R10N4': ['C14', 'C15', 'C17', 'C19'], 'R10N5': ['C13', 'C14', 'C18']}
for _g, _ps in _R10.items():
    for _j in (1, 2, 3, 4):
        _f = 'selftest/negative/%s-p%d.patch' % (_g, _j)
        if os.path.exists(os.path.join(os.path.dirname(os.path.dirname(os.path.abspath(__file__))), _f)):
            for _p in _ps:
                NEGATIVE[_p].append(_f)

# round 12: refactorings of the rest of the code (signing / keys, BBS provers, blind interface, generators and hashing helpers, CL03 provers,
# issuance, key generation).  Five of the 28 stay stated limits (selftest/negative/limits, DESIGN 8); R12N5-p2 moves a known mask-length defect
# under another key (a response computed in a shared helper), so it is a negative control for the properties without that finding only.
_R12 = {'R12N1': ['C01', 'C02', 'C08', 'C09', 'C10', 'C11', 'C12'], 'R12N2': ['C03', 'C04', 'C05', 'C07', 'C08', 'C10'],
        'R12N3': ['C05', 'C06', 'C07', 'C08', 'C09', 'C11'], 'R12N4': ['C01', 'C02', 'C03', 'C07', 'C08', 'C10', 'C11'],
        'R12N5': ['C14', 'C15', 'C17', 'C19'], 'R12N6': ['C13', 'C14', 'C15', 'C17', 'C18', 'C19'], 'R12N7': ['C14', 'C15', 'C16', 'C17', 'C19'], 'R12N8': ['C13', 'C17', 'C18']}
_R12_EXCEPT = {('R12N5', 2): ('C17', 'C19')}
for _g, _ps in _R12.items():
    for _j in (1, 2, 3, 4):
        _f = 'selftest/negative/%s-p%d.patch' % (_g, _j)
        if os.path.exists(os.path.join(os.path.dirname(os.path.dirname(os.path.abspath(__file__))), _f)):
            for _p in _ps:
                if _p not in _R12_EXCEPT.get((_g, _j), ()):
                    NEGATIVE[_p].append(_f)

# round 14: other spellings of "use the revealed attributes whenever they are there" (tuple match, Option::map, a loop over the Option, is_some + unwrap)
for _j in (1, 2, 3, 4):
    for _p in ('C14', 'C13', 'C17'):
        NEGATIVE[_p].append('selftest/negative/R14N1-p%d.patch' % _j)

# round 17: refactorings of the verifier sides and of the decoders written after the sense / correspondence rules of rounds 15 - 16 (ten of nineteen are
# silent and registered here; nine are stated limits, selftest/negative/limits, DESIGN 8: all nine alarms come from rules older than round 15)
_R17 = {'R17N1': ['C13', 'C18'], 'R17N2': ['C14', 'C15', 'C16'], 'R17N3': ['C14', 'C15', 'C16'], 'R17N4': ['C14', 'C15', 'C17', 'C19'], 'R17N5': ['C01', 'C02', 'C04', 'C09', 'C10', 'C12']}
for _g, _ps in _R17.items():
    for _j in (1, 2, 3, 4):
        _f = 'selftest/negative/%s-p%d.patch' % (_g, _j)
        if os.path.exists(os.path.join(os.path.dirname(os.path.dirname(os.path.abspath(__file__))), _f)):
            for _p in _ps:
                NEGATIVE[_p].append(_f)

# rules that are also evaluated on the other production configurations in the thorough tier (guards against feature-gated divergence)
def thorough_extra(pid):
    R = []
    if pid in ('C01', 'C02', 'C04', 'C10', 'C11'):
        for cfg in ('prod-default', 'prod-bbs'):
            R.append(('RF-C hash binding @%s' % cfg, (lambda cfg: lambda c: rf_hash.rule_hash_binding(c, {k: v for k, v in rf_hash.BBS_TABLE.items() if cfg != 'prod-bbs' or not k.endswith('finalize_blind_sign')}, BBS_SCOPE, cfg=cfg))(cfg), 40))
            R.append(('RF-B plain interface constants @%s' % cfg, (lambda cfg: lambda c: rf_consts.rule_interface_constants(c, PLAIN_ENTRIES, cfg=cfg))(cfg), 15))
    if pid in ('C07', 'C03', 'C05'):
        R.append(('RF-G1 provenance @prod-default', lambda c: rf_rand.rule_randomness_provenance(c, cfg='prod-default'), 7))
    if pid in ('C08',):
        R.append(('RF-F panic census @prod-default', lambda c: rf_panic.rule_panic_census(c, cfg='prod-default'), 90))
    if pid in ('C07', 'C10', 'C12', 'C11'):
        for cfg in ('prod-default', 'prod-bbs'):
            R.append(('RF-S shared state @%s' % cfg, (lambda cfg: lambda c: rf_consts.rule_shared_state(c, cfg=cfg))(cfg), 3))
    return R

if __name__ == '__main__':
    ap = argparse.ArgumentParser()
    ap.add_argument('pid')
    ap.add_argument('--tier', default=os.environ.get('VERIF_TIER', 'quick'))
    a = ap.parse_args()
    rules, meta = P(a.pid)
    if not rules:
        print('property %s has no registered rules' % a.pid)
        sys.exit(2)
    controls = []
    negatives = []
    if a.tier == 'thorough':
        rules = rules + thorough_extra(a.pid)
        controls = CONTROLS.get(a.pid, [])
        negatives = NEGATIVE.get(a.pid, [])
    sys.exit(run_property(a.pid, a.tier, rules, meta, controls=controls, negatives=negatives))
