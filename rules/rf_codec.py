"""RF-N codec layout (writer / reader agreement, proof length formula), RF-P accumulation-loop coverage,
RF-M generator offsets, index-list normalisation."""
from framework import Ob, AnchorMissing
from rf_gates import resolve_fn
from flow import MustFlow, local_target
from zone import tfmt, tadd, tsub, parse_array_len
from dep import strip
import bbs_tables as T


def _array_literal_ops(zf, op, depth=0):
    """operands of the array literal behind an iterated operand (`[a, b, c].iter()`, `[&x, &y]` passed by value), or None"""
    if op['k'] not in ('copy', 'move') or depth > 8:
        return None
    pl = op['pl']
    if any(q['k'] != 'deref' for q in pl.get('p', [])):
        return None
    d = zf.single_def(pl['l'])
    if d is None:
        return None
    if d[0] == 'assign' and not d[2]['dst'].get('p'):
        rv = d[2]['rv']
        if rv['k'] == 'agg' and rv.get('ak') == 'array':
            return rv['ops']
        if rv['k'] in ('use', 'cast') and rv['op']['k'] in ('copy', 'move'):
            return _array_literal_ops(zf, rv['op'], depth + 1)
        if rv['k'] in ('ref', 'rawptr'):
            return _array_literal_ops(zf, {'k': 'copy', 'pl': rv['pl']}, depth + 1)
        return None
    if d[0] == 'call' and d[2]['args'] and (d[2].get('callee') or '') in (
            'core::slice::<impl [T]>::iter', 'std::iter::IntoIterator::into_iter', 'core::array::<impl [T; N]>::iter', 'std::iter::Iterator::copied',
            'std::iter::Iterator::cloned', 'core::array::<impl [T; N]>::as_slice'):
        return _array_literal_ops(zf, d[2]['args'][0], depth + 1)
    return None


def _byte_iter_events(ctx, cfg, fn, op, _depth=0):
    """events (atoms, width, kind) of an iterator of octets handed to `extend`: `parts.flat_map(|x| x.encode())` where parts is a chain of
    `list.iter()`, `once(x)`, array literals; also such an iterator returned by a local helper (atoms instantiated at the call).  None if unknown."""
    prog, eng, za = ctx.prog(cfg), ctx.eng(cfg), ctx.zone(cfg)
    if op.get('k') not in ('copy', 'move') or op['pl'].get('p') or _depth > 4:
        return None
    fd = eng.fndep(fn)
    za.summary(fn)
    zf = za.zf(fn)
    d = zf.single_def(op['pl']['l'])
    if d is None:
        return None
    if d[0] == 'assign' and d[2]['rv']['k'] == 'use' and d[2]['rv']['op']['k'] in ('copy', 'move'):
        return _byte_iter_events(ctx, cfg, fn, d[2]['rv']['op'], _depth)
    if d[0] != 'call':
        return None
    t = d[2]
    cal = t.get('callee') or ''
    tgt = local_target(eng, t)
    if tgt is not None and tgt != fn and tgt in prog.bodies:
        sub = _byte_iter_events(ctx, cfg, tgt, {'k': 'copy', 'pl': {'l': 0}}, _depth + 1)
        if sub is None:
            return None
        out = []
        for sat, w, kind in sub:
            inst = set()
            for x in sat:
                inst |= {y for y in fd._inst_atom(x, t['args']) if strip(y)[0] == 'p'}
            out.append((inst, w, kind))
        return out
    if cal == 'std::iter::Iterator::flat_map' and len(t['args']) == 2 and t['args'][1]['k'] in ('copy', 'move'):
        ci = fd._closure_info(t['args'][1]['pl']['l'])
        n = parse_array_len(prog.bodies[ci[0]].local_ty(0)) if ci and ci[0] in prog.bodies else None
        if n is None or not str(n).isdigit():
            return None
        parts = _iter_parts(zf, fd, t['args'][0])
        if parts is None:
            return None
        return [(at, str(n), kind) for at, kind in parts]
    return None


def _iter_parts(zf, fd, op, depth=0, follow=None):
    """[(atoms, 'each' | 'append')] for the items of an iterator operand built from chain / once / iter / array literals;
    `follow(call)` (optional) answers for an iterator or array returned by a local helper, in this function's terms"""
    if op.get('k') not in ('copy', 'move') or depth > 8:
        return None
    lit = _array_literal_ops(zf, op)
    if lit is not None:
        return [(set(x for x in fd.read_op(o) if strip(x)[0] == 'p'), 'append') for o in lit]
    pl = op['pl']
    if follow is not None and not pl.get('p'):
        d0 = zf.single_def(pl['l'])
        if d0 is not None and d0[0] == 'call':
            r = follow(d0[2])
            if r is not None:
                return r
    ty = zf.body.local_ty(pl['l']).replace('&mut ', '').lstrip('&').strip()
    if ty.startswith(('[', 'std::vec::Vec<')):
        return [(set(x for x in fd.read_op(op) if strip(x)[0] == 'p'), 'each')]
    if pl.get('p'):
        return None
    d = zf.single_def(pl['l'])
    if d is None:
        return None
    if d[0] == 'assign' and d[2]['rv']['k'] in ('use', 'ref'):
        src = d[2]['rv'].get('pl') or d[2]['rv'].get('op', {}).get('pl')
        return _iter_parts(zf, fd, {'k': 'copy', 'pl': src}, depth + 1, follow) if src is not None else None
    if d[0] != 'call':
        return None
    t = d[2]
    cal = t.get('callee') or ''
    if follow is not None:
        r = follow(t)
        if r is not None:
            return r
    if cal in ('std::iter::Iterator::chain',) and len(t['args']) == 2:
        a, b = _iter_parts(zf, fd, t['args'][0], depth + 1, follow), _iter_parts(zf, fd, t['args'][1], depth + 1, follow)
        return None if a is None or b is None else a + b
    if cal in ('std::iter::once', 'core::iter::once') and t['args']:
        return [(set(x for x in fd.read_op(t['args'][0]) if strip(x)[0] == 'p'), 'append')]
    if cal in ('core::slice::<impl [T]>::iter', 'std::iter::IntoIterator::into_iter', 'std::iter::Iterator::copied', 'std::iter::Iterator::cloned',
               'std::iter::Iterator::by_ref', 'std::ops::Deref::deref', 'std::vec::Vec::<T, A>::as_slice',
               'core::array::<impl [T; N]>::iter', 'core::array::<impl [T; N]>::as_slice') and t['args']:
        return _iter_parts(zf, fd, t['args'][0], depth + 1, follow)
    return None


def _helper_parts(ctx, cfg, fn, _depth=0):
    """follow-function for _iter_parts in fn: the items of an array / iterator returned by a local helper, instantiated at the call"""
    prog, eng, za = ctx.prog(cfg), ctx.eng(cfg), ctx.zone(cfg)
    fd = eng.fndep(fn)

    def follow(t):
        tgt = local_target(eng, t)
        if tgt is None or tgt == fn or tgt not in prog.bodies or _depth > 3:
            return None
        za.summary(tgt)
        sub = _iter_parts(za.zf(tgt), eng.fndep(tgt), {'k': 'copy', 'pl': {'l': 0}}, 0, _helper_parts(ctx, cfg, tgt, _depth + 1))
        if sub is None:
            return None
        out = []
        for sat, kind in sub:
            inst = set()
            for x in sat:
                inst |= {y for y in fd._inst_atom(x, t['args']) if strip(y)[0] == 'p'}
            out.append((inst, kind))
        return out
    return follow


def _append_events(ctx, cfg, fn, root, _depth=0):
    """ordered (atoms, width, kind) appended to the byte buffer held in local `root` of fn; atoms in fn's own parameter terms.
    kind 'append' = once, 'each' = once per element of the container the atoms name.  Forms: extend_from_slice, for_each / extend(flat_map)
    over a container or over an array literal (expanded element by element), and local helpers that take the buffer by `&mut`."""
    prog, eng, za = ctx.prog(cfg), ctx.eng(cfg), ctx.zone(cfg)
    b = prog.bodies[fn]
    fd = eng.fndep(fn)
    za.summary(fn)
    zf = za.zf(fn)
    mf = MustFlow(eng, fd)
    ret_block = b.exits[0] if b.exits else None
    out = []

    def closure_width(cpath):
        cb = prog.bodies.get(cpath)
        if cb is None:
            return '?'
        czf = za.zf(cb.path)
        za.summary(cb.path)
        ws = []
        for bi, ct in cb.calls():
            if (ct.get('callee') or '') == 'std::vec::Vec::<T, A>::extend_from_slice' and ct['args'][1]['k'] in ('copy', 'move'):
                ws.append(czf.len_of_place(ct['args'][1]['pl']))
        if len(ws) == 1 and ws[0] is not None:
            return tfmt(ws[0])
        return '?'

    def per_element(iter_op, width, atoms):
        """events for `width` octets appended per item of iter_op"""
        lit = _array_literal_ops(zf, iter_op)
        if lit is not None:
            for o in lit:
                out.append((set(fd.read_op(o)), width, 'append'))
        else:
            out.append((atoms, width, 'each'))

    for e in mf.ordered_events(root, ret_block):
        if e['kind'] != 'mutarg':
            continue
        t = e['call']
        cal = t.get('callee') or ''
        atoms = {a for a in mf.event_atoms(e) if strip(a)[0] == 'p'}
        if cal == 'std::vec::Vec::<T, A>::extend_from_slice':
            ln = zf.len_of_place(t['args'][1]['pl']) if t['args'][1]['k'] in ('copy', 'move') else None
            w = tfmt(ln) if ln is not None else '?'
            # inside `for x in [a, b, c] { buf.extend_from_slice(enc(x)) }` / `for x in list { .. }`: once per item, in order
            loop_it = None
            for h, blocks in zf.loops:
                if e['b'] in blocks:
                    for bj in blocks:
                        tt = b.blocks[bj]['term']
                        if tt['k'] == 'call' and (tt.get('callee') or '') == 'std::iter::Iterator::next' and tt['args'] and tt['args'][0]['k'] in ('copy', 'move'):
                            src = fd.resolve_place(tt['args'][0]['pl'])[0]
                            loop_it = {'k': 'copy', 'pl': {'l': src}}
            if loop_it is not None:
                lit = _array_literal_ops(zf, loop_it)
                parts = None if lit is not None else _iter_parts(zf, fd, loop_it, 0, _helper_parts(ctx, cfg, fn))
                if lit is not None:
                    for o in lit:
                        out.append((set(x for x in fd.read_op(o) if strip(x)[0] == 'p'), w, 'append'))
                elif parts is not None:
                    # the loop runs over a sequence put together from fields (array of references, chain, once ...): one event per part, in order
                    for at, kind in parts:
                        out.append((at, w, kind))
                else:
                    out.append((atoms, w, 'each'))
            else:
                out.append((atoms, w, 'append'))
        elif cal == 'std::iter::Iterator::for_each':
            ci = None
            for a in t['args']:
                if a['k'] in ('copy', 'move') and not a['pl'].get('p'):
                    ci = fd._closure_info(a['pl']['l']) or ci
            per_element(t['args'][0], closure_width(ci[0]) if ci else '?', atoms)
        elif cal in ('std::iter::Extend::extend', 'std::vec::Vec::<T, A>::extend') and len(t['args']) == 2 and t['args'][1]['k'] in ('copy', 'move'):
            width = '?'
            oc = zf._origin_call(t['args'][1]['pl']['l']) if not t['args'][1]['pl'].get('p') else None
            src = None
            if oc and (oc[1].get('callee') or '') == 'std::iter::Iterator::flat_map' and len(oc[1]['args']) == 2 and oc[1]['args'][1]['k'] in ('copy', 'move'):
                ci = fd._closure_info(oc[1]['args'][1]['pl']['l'])
                if ci and ci[0] in prog.bodies:
                    n = parse_array_len(prog.bodies[ci[0]].local_ty(0))
                    if n is not None:
                        width = n
                src = oc[1]['args'][0]
            if width != '?' and src is not None:
                per_element(src, width, atoms)
            else:
                evs = _byte_iter_events(ctx, cfg, fn, t['args'][1])
                if evs is not None:
                    out.extend(evs)
                else:
                    out.append((atoms, '?', 'extend'))
        elif cal in ('std::vec::Vec::<T, A>::reserve', 'std::vec::Vec::<T, A>::reserve_exact'):
            continue
        else:
            tgt = local_target(eng, t)
            sub = None
            if tgt is not None and tgt != fn and _depth < 3:
                # a local helper that receives the buffer by `&mut`: its own append events, instantiated with this call's arguments
                kbuf = None
                for k, a in enumerate(t['args']):
                    if a['k'] in ('copy', 'move') and fd.resolve_place(a['pl'])[0] == root:
                        kbuf = k
                if kbuf is not None:
                    sub = _append_events(ctx, cfg, tgt, kbuf + 1, _depth + 1)
            if sub is None:
                out.append((atoms, '?', cal.split('::')[-1]))
                continue
            cb = prog.bodies[tgt]
            for (sat, w, kind) in sub:
                pks = {strip(x)[1] for x in sat if strip(x)[0] == 'p'}
                lit = None
                if kind == 'each' and len(pks) == 1:
                    k = next(iter(pks))
                    if 0 < k <= len(t['args']):
                        lit = _array_literal_ops(zf, t['args'][k - 1])
                if lit is not None:
                    for o in lit:
                        out.append((set(fd.read_op(o)), w, 'append'))
                else:
                    inst = set()
                    for x in sat:
                        inst |= {y for y in fd._inst_atom(x, t['args']) if strip(y)[0] == 'p'}
                    out.append((inst, w, kind))
    return out


def writer_layout(ctx, cfg, fn, buf_name='bytes'):
    """ordered list of (fields, width, kind) appended to the output buffer of a to_bytes function.
    fields = names of the fields of `self` the appended octets are computed from; width = octets per append; kind = 'append' | 'each'."""
    prog = ctx.prog(cfg)
    b = prog.bodies.get(fn)
    if b is None:
        raise AnchorMissing(fn)
    roots = [l for l, loc in enumerate(b.locals) if loc.get('name') == buf_name and l > b.arg_count]
    if not roots:
        raise AnchorMissing('%s: no buffer %s' % (fn, buf_name))
    out = []
    for atoms, w, kind in _append_events(ctx, cfg, fn, roots[0]):
        fields = sorted({strip(a)[2][-1] for a in atoms if strip(a)[0] == 'p' and strip(a)[2]})
        out.append((fields, w, kind))
    return out


def rule_proof_length(ctx, cfg='prod-all'):
    fn = 'bbsplus::proof::BBSplusPoKSignature::to_bytes'
    lay = writer_layout(ctx, cfg, fn)
    expected = [(['Abar'], '48', 'append'), (['Bbar'], '48', 'append'), (['D'], '48', 'append'), (['e_cap'], '32', 'append'),
                (['r1_cap'], '32', 'append'), (['r3_cap'], '32', 'append'), (['m_cap'], '32', 'each'), (['challenge'], '32', 'append')]
    fixed = sum(int(w) for f, w, k in lay if k == 'append' and w.isdigit())
    per = [w for f, w, k in lay if k == 'each']
    yield Ob('RF-N', '%s#layout' % fn, lay == expected, 'proof octets = Abar Bbar D e^ r1^ r3^ (m^_j)* c with widths 48/32', fn,
             fact=lay, expected=expected)
    yield Ob('RF-N', '%s#length-formula' % fn, fixed == 272 and per == ['32'], 'proof length is 272 + 32 * len(m_cap)', fn,
             fact={'fixed': fixed, 'per_element': per}, expected={'fixed': 272, 'per_element': ['32']})
    # len(m_cap) == number of undisclosed messages: proof_finalize pushes once per element of undisclosed_messages
    za = ctx.zone(cfg)
    pf = 'bbsplus::proof::proof_finalize'
    s = za.summary(pf)
    got = s['retlen'].get(('m_cap',))
    # (a count the length domain cannot name - e.g. the shorter side of a zip of two lists whose lengths are related only in the callers - is
    # undecided; a definite count that differs is a violation)
    yield Ob('RF-N', '%s#m_cap-count' % pf, None if got is None else got == ('len:undisclosed_messages', 0),
             'the proof carries exactly one response per undisclosed message', pf, fact=tfmt(got), expected='len:undisclosed_messages')
    for fn2, exp2 in (('bbsplus::proof::BBSplusZKPoK::to_bytes', [(['s_cap'], '32', 'append'), (['m_cap'], '32', 'each'), (['challenge'], '32', 'append')]),
                      ('bbsplus::commitment::BBSplusCommitment::to_bytes', None)):
        lay2 = writer_layout(ctx, cfg, fn2)
        if exp2 is None:
            ok = len(lay2) == 2 and lay2[0] == (['commitment'], '48', 'append') and lay2[1][0] == ['proof']
        else:
            ok = lay2 == exp2
        yield Ob('RF-N', '%s#layout' % fn2, ok, 'writer layout of the commitment codec', fn2, fact=lay2, expected=exp2 or 'commitment(48) || proof')


def reader_layout(ctx, cfg, fn, agg_suffix, param='bytes'):
    """{field: (start, end)} for fields filled from constant sub-ranges of the input, plus the chunked tail."""
    prog, eng, za = ctx.prog(cfg), ctx.eng(cfg), ctx.zone(cfg)
    b = prog.bodies.get(fn)
    if b is None:
        raise AnchorMissing(fn)
    za.summary(fn)
    zf = za.zf(fn)
    agg = None
    for bi, s in b.stmts():
        if s['k'] == 'assign' and s['rv']['k'] == 'agg' and s['rv']['name'].endswith(agg_suffix) and s['rv']['ak'] == 'adt':
            agg = s['rv']
    if agg is None:
        return None      # the value is assembled elsewhere (a closure, a helper): this comparison cannot judge it
    k = b.param_index(param)
    out = {}
    for f, o in zip(agg['fields'], agg['ops']):
        rng = None
        if o['k'] in ('copy', 'move') and not o['pl'].get('p'):
            l = o['pl']['l']
            # follow copies / `?` to the decoding call, then to its slice argument
            for _ in range(8):
                d = zf.single_def(l)
                if d is None:
                    break
                if d[0] == 'call':
                    # an infallible decoder called directly on a sub-slice: Integer::from_digits(&bytes[a..b], ..)
                    for a in d[2]['args']:
                        if a['k'] in ('copy', 'move'):
                            o = zf.slice_origin(zf.desc_place(a['pl']))
                            if o is not None and o[0][0] == 'cont' and o[0][1] == k and not o[0][2] and o[1] is not None:
                                rng = (tfmt(o[1]), tfmt(o[2]) if o[2] is not None else None)
                    break
                if d[0] == 'assign' and d[2]['rv']['k'] == 'use' and d[2]['rv']['op']['k'] in ('copy', 'move'):
                    from flow import _tuple_member
                    pl = _tuple_member(zf.fd, d[2]['rv']['op']['pl'])
                    if pl.get('p') and any(p['k'] == 'downcast' for p in pl['p']):
                        oc = zf._origin_call(pl['l'])
                        if oc:
                            call = oc[1]
                            for a in call['args']:
                                if a['k'] in ('copy', 'move'):
                                    dsc = zf.desc_place(a['pl'])
                                    # try_from(&bytes[a..b]) wrappers: look one call deeper
                                    for _ in range(3):
                                        if dsc[0] == 'call' and dsc[2]['args'] and dsc[2]['args'][0]['k'] in ('copy', 'move'):
                                            dsc = zf.desc_place(dsc[2]['args'][0]['pl'])
                                        else:
                                            break
                                    o = zf.slice_origin(dsc)
                                    if o is not None and o[0][0] == 'cont' and o[0][1] == k and not o[0][2] and o[1] is not None and o[2] is not None \
                                            and dsc[0] != 'cont':
                                        rng = (tfmt(o[1]), tfmt(o[2]))
                        break
                    l = pl['l']
                    continue
                break
        out[f] = rng
    return out


def rule_reader_writer(ctx, cfg='prod-all'):
    fn = 'bbsplus::proof::BBSplusPoKSignature::from_bytes'
    rl = reader_layout(ctx, cfg, fn, 'BBSplusPoKSignature')
    exp = {'Abar': ('0', '48'), 'Bbar': ('48', '96'), 'D': ('96', '144'), 'e_cap': ('144', '176'), 'r1_cap': ('176', '208'), 'r3_cap': ('208', '240')}
    got = {k: v for k, v in (rl or {}).items() if k in exp}
    # a field whose source slice cannot be traced (filled through a loop over chunks, a closure ...) makes the comparison undecided,
    # not wrong; only a traced range that differs from the writer's is a violation
    def coarser(g, e):
        # the traced source is a larger slice that contains the expected range (the field is one chunk of it: position not traced)
        try:
            return int(g[0]) <= int(e[0]) and int(e[1]) <= int(g[1]) and g != e
        except (TypeError, ValueError):
            return False
    verdict = None if (rl is None or any(got.get(k) is None or coarser(got[k], exp[k]) for k in exp)) else (got == exp)
    if rl is not None and any(got.get(k) is not None and got[k] != exp[k] and not coarser(got[k], exp[k]) for k in exp):
        verdict = False
    yield Ob('RF-N', '%s#reader-offsets' % fn, verdict, 'the reader takes each fixed field from the offset at which the writer puts it', fn, fact=got, expected=exp)
    wl = writer_layout(ctx, cfg, 'bbsplus::proof::BBSplusPoKSignature::to_bytes')
    off = 0
    wmap = {}
    for f, w, kind in wl:
        if kind == 'append' and w.isdigit() and len(f) == 1:
            wmap[f[0]] = (str(off), str(off + int(w)))
            off += int(w)
        else:
            break
    unknown_prefix = any(kind not in ('append', 'each') or not str(w).isdigit() for f, w, kind in wl[:len(exp)])
    yield Ob('RF-N', 'BBSplusPoKSignature#reader~writer', None if unknown_prefix else all(wmap.get(k) == v for k, v in exp.items()),
             'writer offsets computed from the append order equal the reader ranges', fn, fact=wmap, expected=exp)
    fn2 = 'bbsplus::signature::BBSplusSignature::from_bytes'
    rl2 = reader_layout(ctx, cfg, fn2, 'BBSplusSignature', param='data')
    yield Ob('RF-N', '%s#reader-offsets' % fn2, (rl2 == {'A': ('0', '48'), 'e': ('48', '80')}) if rl2 is not None else None, 'signature octets = A (48) || e (32)', fn2,
             fact=rl2, expected={'A': ('0', '48'), 'e': ('48', '80')})
    fn3 = 'bbsplus::commitment::BBSplusCommitment::from_bytes'
    rl3 = reader_layout(ctx, cfg, fn3, 'BBSplusCommitment')
    yield Ob('RF-N', '%s#reader-offsets' % fn3, (rl3.get('commitment') == ('0', '48')) if rl3 is not None else None, 'commitment point is read from the first 48 octets', fn3, fact=rl3,
             expected={'commitment': ('0', '48')})


# -------------------------------------------------------------------------------- RF-P loop coverage
LOOP_FNS = ['bbsplus::signature::core_sign', 'bbsplus::signature::core_verify', 'bbsplus::proof::proof_init', 'bbsplus::proof::proof_verify_init',
            'bbsplus::proof::proof_finalize', 'bbsplus::blind::calculate_b', 'bbsplus::commitment::core_commit', 'bbsplus::commitment::core_commit_verify']


PARTIAL_ADAPTORS = ('Iterator::take', 'Iterator::skip', 'Iterator::step_by', 'Iterator::take_while', 'Iterator::skip_while', 'Iterator::filter',
                    'Iterator::nth', 'Iterator::last', 'Iterator::find', 'Iterator::position')
ITER_SOURCES = ('core::slice::<impl [T]>::iter', 'std::iter::IntoIterator::into_iter', 'core::slice::<impl [T]>::iter_mut')


def rule_loop_coverage(ctx, cfg='prod-all', fns=LOOP_FNS, follow_prefix=None):
    """every parameter-rooted vector that is folded is visited completely.  Index loops: the loop starts at 0 and its end bound is at
    least the length of the vector (the bounds check gives the other direction).  Iterator forms: the vector is the source of an iterator
    chain without a truncating adaptor; when zipped, the partner is provably at least as long.  Forms the analysis cannot judge (the whole
    vector handed to another function) are reported as undecided, never as a violation."""
    prog, za, eng = ctx.prog(cfg), ctx.zone(cfg), ctx.eng(cfg)
    fns = list(fns)
    if follow_prefix:
        # helpers of the same module that the listed functions call (a fold moved into a shared helper is still judged)
        from flow import walk
        for root in list(fns):
            if root not in prog.bodies:
                raise AnchorMissing(root)
            for fr in walk(eng, root, include_closures=False):
                if fr.path not in fns and fr.path.startswith(follow_prefix) and fr.path in prog.bodies and prog.bodies[fr.path].kind != 'Closure':
                    fns.append(fr.path)
    for fn in fns:
        b = prog.bodies.get(fn)
        if b is None:
            raise AnchorMissing(fn)
        za.summary(fn)
        zf = za.zf(fn)
        fd = zf.fd
        seen = 0
        for h, blocks in zf.loops:
            rng = None
            ivar = None
            for bi in blocks:
                t = b.blocks[bi]['term']
                if t['k'] == 'call' and (t.get('callee') or '') == 'std::iter::Iterator::next' and not t['dst'].get('p'):
                    r = zf._range_of_iter(t['args'][0])
                    if r is not None:
                        rng = r
                        ivar = ('i%d' % t['dst']['l'], 0)
            if rng is None:
                continue
            start, end = rng
            for s in zf.sites:
                if s.kind != 'bounds' or s.block not in blocks or not s.need:
                    continue
                (ix1, ln) = s.need[0]
                if ix1 != tadd(ivar, 1):
                    continue
                if not (ln[0] or '').startswith('len:') or ln[1] != 0:
                    continue      # derived slices (H_points = values[1..]) are covered through their guard, see RF-M
                name = ln[0][4:].split('.')[0]
                if b.param_index(name) is None and not name.startswith('_'):
                    continue
                seen += 1
                cover = start == (None, 0) and zf.prove_le(ln, end, s.block)
                if not cover and b.param_index(name) is None:
                    cover = None      # a local helper vector (not a message vector of the interface): reported, not armed
                if not cover and cover is not None and not b.j.get('pub'):
                    # a parameter of a private function: armed only if it is (part of) a parameter of a public entry point, i.e. a vector
                    # of the interface; a vector its callers build themselves (random masks, scratch lists) is reported, not armed
                    import vecpos
                    tr = vecpos.Tracer(ctx, cfg, ('calculate_random_scalars', 'seeded_random_scalars'))
                    steps = [('f', x) for x in ln[0][4:].split('.')[1:]]
                    tr.trace(fn, b.param_index(name), steps)
                    if tr.terminals and not any(k[0] == 'param' for k in tr.terminals):
                        cover = None
                yield Ob('RF-P', '%s#covers:%s' % (fn, s.desc), cover, 'the loop visits every element of the vector it folds (no message skipped)', b.span,
                         fact={'range': (tfmt(start), tfmt(end)), 'vector_len': tfmt(ln)}, expected='0 .. len')
        # iterator forms over slice / Vec parameters
        starts = []
        for bi, t in b.calls():
            cal = t.get('callee') or ''
            if cal in ITER_SOURCES and t['args'] and t['args'][0]['k'] in ('copy', 'move'):
                root, path = fd.resolve_place(t['args'][0]['pl'])
                if not fd.is_param(root) or 'Range<' in b.local_ty(t['args'][0]['pl']['l']):
                    continue
                d = zf.desc_place(t['args'][0]['pl'])
                if d[0] != 'cont':
                    continue          # a sub-slice: judged by the index rules
                starts.append((b.local_name(root) + ''.join('.' + x for x in path), zf.len_of_desc(d), t, t['dst']['l'], True, 'iterated directly'))
            elif cal in ('std::iter::Iterator::zip', 'std::iter::zip') and len(t['args']) == 2:
                # a parameter vector handed to zip as it is (`points.iter().zip(messages)`): consumed completely iff the other side is at least as long
                for k in (1, 0) if cal.endswith('iter::zip') else (1,):
                    a = t['args'][k]
                    if a['k'] not in ('copy', 'move'):
                        continue
                    aty = b.local_ty(a['pl']['l']).replace('&mut ', '').lstrip('&').strip()
                    if not aty.startswith(('[', 'std::vec::Vec<')):
                        continue
                    root, path = fd.resolve_place(a['pl'])
                    d = zf.desc_place(a['pl'])
                    if not fd.is_param(root) or d[0] != 'cont':
                        continue
                    ln = zf.len_of_desc(d)
                    oln = zf.iter_len(t['args'][1 - k])
                    if ln is not None and oln is not None and zf.prove_le(ln, oln, bi):
                        v, w = True, 'zipped with a partner of length >= len'
                    else:
                        v, w = None, 'zipped with a partner whose length is not provably >= len'
                    starts.append((b.local_name(root) + ''.join('.' + x for x in path), ln, t, t['dst']['l'], v, w))
        for name, ln, t, cur0, verdict, why in starts:
            # follow the chain: who consumes this iterator?
            cur = cur0
            for _ in range(8):
                users = [(bj, u) for bj, u in b.calls() if any(a['k'] in ('copy', 'move') and fd.base(a['pl']['l'])[0] == fd.base(cur)[0] and not a['pl'].get('p') for a in u['args'])]
                users = [(bj, u) for bj, u in users if u is not t]
                nxt = None
                for bj, u in users:
                    ucal = u.get('callee') or ''
                    if ucal.endswith(PARTIAL_ADAPTORS):
                        verdict = False
                        why = 'truncating adaptor %s' % ucal.split('::')[-1]
                    elif ucal in ('std::iter::Iterator::zip', 'std::iter::zip'):
                        # the partner must be at least as long
                        other = [a for a in u['args'] if a['k'] in ('copy', 'move') and fd.base(a['pl']['l'])[0] != fd.base(cur)[0]]
                        oln = None
                        for o in other:
                            od = zf._origin_call(o['pl']['l']) if not o['pl'].get('p') else None
                            if od and (od[1].get('callee') or '') in ITER_SOURCES and od[1]['args'][0]['k'] in ('copy', 'move'):
                                oln = zf.len_of_place(od[1]['args'][0]['pl'])
                            elif not o['pl'].get('p'):
                                oln = zf.len_of_place(o['pl'])
                        if ln is not None and oln is not None and zf.prove_le(ln, oln, bj):
                            why = 'zipped with a partner of length >= len'
                        else:
                            verdict = None if verdict else verdict
                            why = 'zipped with a partner whose length is not provably >= len'
                        nxt = u['dst']['l']
                    elif ucal.startswith('std::iter::Iterator::') or ucal in ITER_SOURCES or ucal == 'std::iter::IntoIterator::into_iter':
                        if ucal.endswith(('::next', '::for_each', '::fold', '::collect', '::sum', '::product', '::count', '::all', '::any')):
                            continue
                        nxt = u['dst']['l']
                if nxt is None:
                    break
                cur = nxt
            seen += 1
            yield Ob('RF-P', '%s#iterates:%s' % (fn, name), verdict, 'the vector is consumed completely by the iterator chain that folds it', b.span,
                     fact={'how': why, 'vector_len': tfmt(ln)}, expected='no truncating adaptor; zip partner at least as long')
        if seen == 0:
            # a vector that is indexed inside a loop of this body which is not a `for i in a..b` / iterator traversal (a hand-advanced cursor, a
            # `while` with several exits): the traversal is here, and that it covers every element is not established (fail closed).  A body
            # without any such loop has handed the vector on (judged where the loop is): undecided.
            loop_blocks = set()
            for h, blocks in zf.loops:
                loop_blocks |= set(blocks)
            odd = sorted({(s_.need[0][1][0] or '')[4:] for s_ in zf.sites
                          if s_.kind == 'bounds' and s_.block in loop_blocks and s_.need and (s_.need[0][1][0] or '').startswith('len:')
                          and b.param_index((s_.need[0][1][0] or '')[4:].split('.')[0]) is not None})
            yield Ob('RF-P', '%s#no-loop' % fn, False if odd else None,
                     'no index loop or iterator that covers a parameter vector was recognised in this function' + (': %s is indexed in a loop of another shape, that every element is folded is not established' % ', '.join(odd) if odd else ' (coverage not judged)'),
                     b.span, fact={'indexed_in_unrecognised_loops': odd}, expected='>=1', nontrivial=bool(odd))


# -------------------------------------------------------------------------------- RF-M generator offsets
def rule_generator_offsets(ctx, cfg='prod-all'):
    """Q1 = values[0], H = values[1..] wherever a generator set is split; the guard len(values) == L + 1 precedes it."""
    prog, za = ctx.prog(cfg), ctx.zone(cfg)
    fns = ['bbsplus::signature::core_sign', 'bbsplus::signature::core_verify', 'bbsplus::proof::proof_init', 'bbsplus::proof::proof_verify_init',
           'bbsplus::blind::calculate_b']
    for fn in fns:
        b = prog.bodies.get(fn)
        if b is None:
            raise AnchorMissing(fn)
        za.summary(fn)
        zf = za.zf(fn)
        descs = sorted(s.desc for s in zf.sites if s.desc.startswith('generators.values['))
        ok = descs == ['generators.values[0]', 'generators.values[1..]']
        yield Ob('RF-M', '%s#split' % fn, ok, 'Q1 = generators.values[0], H = generators.values[1..]', b.span, fact=descs,
                 expected=['generators.values[0]', 'generators.values[1..]'])
        # message i <-> H[i]: the H slice has exactly as many elements as there are messages at the accumulation loop
        hs = [s for s in zf.sites if s.kind == 'bounds' and s.desc.startswith('H_points[') and s.need]
        for s in hs[:1]:
            ln = s.need[0][1]
            msgs = [x for x in zf.sites if x.kind == 'bounds' and x.block != s.block and x.need and x.need[0][0] == s.need[0][0]]
            for m in msgs[:1]:
                eq = zf.prove_le(ln, m.need[0][1], s.block) and zf.prove_le(m.need[0][1], ln, s.block)
                yield Ob('RF-M', '%s#H~messages' % fn, eq, 'len(H) equals the number of messages folded with it (guard len(generators) == L + 1)', b.span,
                         fact={'len_H': tfmt(ln), 'len_msgs': tfmt(m.need[0][1])}, expected='equal')


_STRICT = {('any', 'Ge', (0, 1)), ('any', 'Le', (1, 0)), ('all', 'Lt', (0, 1)), ('all', 'Gt', (1, 0))}


def _strict_test(prog, eng, body, fd, t, root):
    """'any' / 'all' when the call t is `<root>.windows(2).any(|w| w[0] >= w[1])` or one of its `all` / mirrored forms (a test that is false / true
    exactly on strictly ascending lists); None otherwise"""
    cal = t.get('callee') or ''
    q = cal.split('::')[-1]
    if cal not in ('std::iter::Iterator::any', 'std::iter::Iterator::all') or len(t['args']) != 2:
        return None
    # the receiver: windows(2) of the list
    op, ok = t['args'][0], False
    for _ in range(8):
        if op['k'] not in ('copy', 'move'):
            break
        ds = [d for d in fd.defs.get(op['pl']['l'], []) if not d[2].get('dst', {}).get('p')]
        if len(ds) != 1:
            break
        d = ds[0]
        if d[0] == 'assign' and d[2]['rv']['k'] in ('use', 'ref'):
            src = d[2]['rv'].get('pl') or d[2]['rv'].get('op', {}).get('pl')
            if src is None:
                break
            op = {'k': 'copy', 'pl': src}
            continue
        if d[0] == 'call' and (d[2].get('callee') or '').endswith('<impl [T]>::windows') and len(d[2]['args']) == 2:
            a1 = d[2]['args'][1]
            two = a1['k'] == 'const' and a1.get('int') == '2'
            ok = two and d[2]['args'][0]['k'] in ('copy', 'move') and fd.resolve_place(d[2]['args'][0]['pl'])[0] == root
            break
        if d[0] == 'call' and (d[2].get('callee') or '') in ('std::iter::IntoIterator::into_iter', 'std::iter::Iterator::by_ref') and d[2]['args']:
            op = d[2]['args'][0]
            continue
        break
    if not ok or t['args'][1]['k'] not in ('copy', 'move'):
        return None
    ci = fd._closure_info(t['args'][1]['pl']['l'])
    cb = prog.bodies.get(ci[0]) if ci else None
    if cb is None:
        return None
    cfd = eng.fndep(cb.path)
    rds = [d for d in cfd.defs.get(0, []) if not d[2].get('dst', {}).get('p')]
    if len(rds) != 1 or rds[0][0] != 'assign' or rds[0][2]['rv']['k'] != 'binop':
        return None
    rv = rds[0][2]['rv']

    def window_index(o):
        """k for an operand that is a copy of `w[k]` (w = the closure's element parameter, k a literal)"""
        for _ in range(4):
            if o['k'] not in ('copy', 'move'):
                return None
            pl = o['pl']
            idx = [p_ for p_ in pl.get('p', []) if p_['k'] in ('index', 'constindex')]
            if idx:
                r0 = cfd.resolve_place({'l': pl['l']})[0]
                if r0 != 2:
                    return None
                if idx[0]['k'] == 'constindex':
                    return idx[0].get('o')
                ids = [d for d in cfd.defs.get(idx[0]['l'], [])]
                if len(ids) == 1 and ids[0][0] == 'assign' and ids[0][2]['rv']['k'] == 'use' and ids[0][2]['rv']['op']['k'] == 'const':
                    v = ids[0][2]['rv']['op'].get('int')
                    return int(v) if v is not None and v.isdigit() else None
                return None
            ds2 = [d for d in cfd.defs.get(pl['l'], []) if not d[2].get('dst', {}).get('p')]
            if len(ds2) != 1 or ds2[0][0] != 'assign' or ds2[0][2]['rv']['k'] != 'use':
                return None
            o = ds2[0][2]['rv']['op']
        return None
    ka, kb = window_index(rv['a']), window_index(rv['b'])
    if (q, rv['op'], (ka, kb)) not in _STRICT:
        return None
    return q


def _ascending_on_success(prog, eng, cb, k, depth=0):
    """a local function succeeds (returns true / Ok / Some) only if its list parameter k is strictly ascending"""
    from flow import accept_blocks
    cfd = eng.fndep(cb.path)
    if cfd is None or depth > 2:
        return False
    acc = accept_blocks(cfd, True)
    if not acc:
        return False
    for bi, kind, extra in acc:
        if kind == 'tail' and isinstance(extra, dict) and _strict_test(prog, eng, cb, cfd, extra, k) == 'all':
            continue          # `list.windows(2).all(|w| w[0] < w[1])` returned as it is
        if kind == 'boolvar' and extra is not None and not extra.get('p'):
            # `!list.windows(2).any(..)` / the test held in a variable
            l, neg, okv = extra['l'], False, False
            for _ in range(4):
                ds = [d for d in cfd.defs.get(l, []) if not d[2].get('dst', {}).get('p')]
                if len(ds) != 1:
                    break
                d = ds[0]
                if d[0] == 'assign' and d[2]['rv']['k'] == 'unop' and d[2]['rv']['op'] == 'Not' and d[2]['rv']['a']['k'] in ('copy', 'move'):
                    neg, l = not neg, d[2]['rv']['a']['pl']['l']
                    continue
                if d[0] == 'assign' and d[2]['rv']['k'] == 'use' and d[2]['rv']['op']['k'] in ('copy', 'move') and not d[2]['rv']['op']['pl'].get('p'):
                    l = d[2]['rv']['op']['pl']['l']
                    continue
                if d[0] == 'call':
                    q = _strict_test(prog, eng, cb, cfd, d[2], k)
                    okv = (q == 'all' and not neg) or (q == 'any' and neg)
                break
            if okv:
                continue
        if _ascending_validated(prog, eng, cb, cfd, k, bi, depth + 1):
            continue
        return False
    return True


def _ascending_validated(prog, eng, body, fd, root, use_block, depth=0):
    """the list is in canonical form because anything else is refused: `list.windows(2).any(|w| w[0] >= w[1])` (or the `all` / mirrored forms)
    is evaluated on every path to use_block, which is reached only on the outcome "every neighbour pair is strictly ascending".  The test may
    sit in a local predicate (`if !is_strictly_ascending(&list) { return Err }`) or in a local checking function whose success is required
    (`let (..) = layout(list, ..)?`): then the callee succeeds only on such lists (_ascending_on_success)."""
    from flow import GateAnalysis
    ga = GateAnalysis(eng)
    gates = None

    def all_gates():
        """the conditions use_block depends on, with the conditions handed to a local checking function as arguments (`ensure(!bad, msg)?`)"""
        gs = list(ga.block_gates(fd, use_block))
        for g in list(gs):
            if g.kind == 'deleg' and g.dom is True and g.callee in prog.bodies and g.callee != body.path:
                alts = ga._lift_paths(fd, g.callee, g.args, g.dom, (body.path,), want=(g.truth is not False)) or []
                if len(alts) == 1:
                    gs.extend(alts[0])
        return gs
    for bi, t in body.calls():
        q = _strict_test(prog, eng, body, fd, t, root)
        if q is None:
            continue
        # polarity: the use is reached only when the test was evaluated and no pair violates (any -> false, all -> true)
        if gates is None:
            gates = all_gates()
        for g in gates:
            if g.kind == 'call' and g.what == (t.get('callee') or '') and g.args is t['args'] and g.dom is True and g.truth is (q == 'all'):
                return True
    if depth > 2:
        return False
    if gates is None:
        gates = all_gates()
    for g in gates:
        if g.kind != 'deleg' or g.dom is not True or g.truth is False or g.callee not in prog.bodies or g.callee == body.path:
            continue
        cb = prog.bodies[g.callee]
        for k, a in enumerate(g.args or []):
            if a['k'] in ('copy', 'move') and fd.resolve_place(a['pl'])[0] == root and k + 1 <= cb.arg_count:
                if cb.local_ty(0) == 'bool' and g.truth is not True:
                    continue
                if _ascending_on_success(prog, eng, cb, k + 1, depth):
                    return True
    return False


def _returned_member(eng, fd, root):
    """(call, member path) when local `root` holds (a member of) the success payload of a call to a local function, taken through `?` /
    unwrap and tuple patterns"""
    l, path = root, ()
    for _ in range(8):
        ds = [d for d in fd.defs.get(l, []) if not d[2].get('dst', {}).get('p')]
        if len(ds) != 1:
            return None
        kind, bi, x = ds[0]
        if kind == 'assign' and x['rv']['k'] == 'use' and x['rv']['op']['k'] in ('copy', 'move'):
            pl = x['rv']['op']['pl']
            ps = [q for q in pl.get('p', []) if q['k'] != 'deref']
            if any(q['k'] not in ('field', 'downcast') for q in ps):
                return None
            fields = []
            skip = False
            for q in ps:
                if q['k'] == 'downcast':
                    if q['n'] not in ('Ok', 'Some', 'Continue'):
                        return None
                    skip = True
                    continue
                if skip:
                    skip = False       # the payload member `.0` of the variant
                    continue
                fields.append(str(q['n']))
            path = tuple(fields) + path
            l = pl['l']
            continue
        if kind == 'call':
            cal = x.get('callee') or ''
            if local_target(eng, x) is not None and local_target(eng, x) != fd.body.path:
                return (x, path)
            if cal in ('std::ops::Try::branch', 'std::result::Result::<T, E>::unwrap', 'std::result::Result::<T, E>::expect', 'std::option::Option::<T>::unwrap',
                       'std::option::Option::<T>::expect', 'std::result::Result::<T, E>::map_err', 'std::option::Option::<T>::ok_or',
                       'std::option::Option::<T>::ok_or_else') and x['args'] and x['args'][0]['k'] in ('copy', 'move') and not x['args'][0]['pl'].get('p'):
                l = x['args'][0]['pl']['l']
                continue
        return None
    return None


def _ascending_by_construction(prog, eng, tgt):
    """a local function returns a list that is strictly ascending because of how it is filled: created empty and grown by one `push` site
    that pushes the position the enclosing loop is at (the variable of `for i in a..b`, or the index of `.enumerate()`)"""
    b = prog.bodies.get(tgt)
    if b is None or not b.local_ty(0).startswith('std::vec::Vec<usize'):
        return False
    fd = eng.fndep(tgt)
    rds = [d for d in fd.defs.get(0, []) if not d[2].get('dst', {}).get('p')]
    if len(rds) != 1 or rds[0][0] != 'assign' or rds[0][2]['rv']['k'] != 'use' or rds[0][2]['rv']['op']['k'] not in ('copy', 'move'):
        return False
    root = fd.resolve_place(rds[0][2]['rv']['op']['pl'])[0]
    cr = fd.defs.get(root, [])
    if len(cr) != 1 or cr[0][0] != 'call' or not (cr[0][2].get('callee') or '').endswith(('Vec::<T>::new', 'Vec::<T>::with_capacity')):
        return False
    pushes = []
    for bi, t in b.calls():
        for ai, a in enumerate(t['args']):
            if a['k'] in ('copy', 'move') and b.local_ty(a['pl']['l']).startswith('&mut ') and fd.resolve_place(a['pl'])[0] == root:
                if (t.get('callee') or '') == 'std::vec::Vec::<T, A>::push' and ai == 0:
                    pushes.append((bi, t))
                else:
                    return False
    if len(pushes) != 1:
        return False
    bi, t = pushes[0]
    loops = [(h, blocks) for h, blocks in b.natural_loops() if bi in blocks]
    if not loops:
        return False
    # the pushed value: a copy of the item (or of member 0 of the item) handed out by the `next()` of that loop
    o = t['args'][1]
    for _ in range(6):
        if o.get('k') not in ('copy', 'move'):
            return False
        pl = o['pl']
        ds = [d for d in fd.defs.get(pl['l'], []) if not d[2].get('dst', {}).get('p')]
        fields = [q for q in pl.get('p', []) if q['k'] == 'field' and not str(q.get('adt', '')).startswith(('std::option', 'core::option'))]
        if len(ds) == 1 and ds[0][0] == 'call' and (ds[0][2].get('callee') or '') == 'std::iter::Iterator::next' and ds[0][1] in loops[0][1]:
            it = ds[0][2]['args'][0]
            # what is iterated: a Range (the item is the position) or an Enumerate (member 0 is)
            l_ = it['pl']['l']
            for _j in range(6):
                dd = [d for d in fd.defs.get(l_, []) if not d[2].get('dst', {}).get('p')]
                if len(dd) != 1:
                    return False
                d0 = dd[0]
                if d0[0] == 'assign' and d0[2]['rv']['k'] in ('use', 'ref'):
                    src = d0[2]['rv'].get('pl') or d0[2]['rv'].get('op', {}).get('pl')
                    if src is None:
                        return False
                    l_ = src['l']
                    continue
                if d0[0] == 'call' and (d0[2].get('callee') or '') in ('std::iter::IntoIterator::into_iter', 'std::iter::Iterator::by_ref') and d0[2]['args'] \
                        and d0[2]['args'][0]['k'] in ('copy', 'move'):
                    l_ = d0[2]['args'][0]['pl']['l']
                    continue
                if d0[0] == 'call' and (d0[2].get('callee') or '') == 'std::iter::Iterator::enumerate':
                    return len(fields) == 1 and str(fields[0]['n']) == '0'
                if d0[0] == 'assign' and d0[2]['rv']['k'] == 'agg' and d0[2]['rv'].get('name') in ('std::ops::Range', 'std::ops::RangeInclusive'):
                    return not fields
                return False
            return False
        if len(ds) == 1 and ds[0][0] == 'assign' and ds[0][2]['rv']['k'] == 'use' and not fields:
            o = ds[0][2]['rv']['op']
            continue
        if len(ds) == 1 and ds[0][0] == 'assign' and ds[0][2]['rv']['k'] == 'use' and fields:
            # `i = (item.0)`: carry the member over to the source place
            src = ds[0][2]['rv']['op']
            if src.get('k') in ('copy', 'move'):
                o = {'k': 'copy', 'pl': {'l': src['pl']['l'], 'p': list(src['pl'].get('p', [])) + [q for q in pl.get('p', []) if q['k'] == 'field']}}
                continue
        return False
    return False


def _normalised_before(prog, eng, body, fd, root, use_block, depth=0, path=()):
    """is the index list held in local `root` sorted and de-duplicated on every path to use_block?  Either both calls are made on it in this
    body and dominate the use, or it is the result of a local helper that returns a list on which both calls dominate the return."""
    sorts, dedups = [], []
    for bi, t in body.calls():
        cal = t.get('callee') or ''
        if not t['args'] or t['args'][0]['k'] not in ('copy', 'move'):
            continue
        if fd.resolve_place(t['args'][0]['pl'])[0] != root:
            continue
        if cal.endswith(('::sort', '::sort_unstable')):
            sorts.append(bi)
        elif cal.endswith('::dedup'):
            dedups.append(bi)
    if any(body.dominates(s, use_block) for s in sorts) and any(body.dominates(d, use_block) for d in dedups):
        return True, 'sort and dedup in %s' % body.path.split('::')[-1]
    if _ascending_validated(prog, eng, body, fd, root, use_block):
        return True, 'refused unless strictly ascending in %s' % body.path.split('::')[-1]
    ds = fd.defs.get(root, [])
    # built on several paths, each in its own way (`if already_ascending { Cow::Borrowed(list) } else { sorted copy }`): every path normalises
    wds = [d for d in ds if not d[2].get('dst', {}).get('p')]
    if depth < 3 and len(wds) > 1 and all(d[0] == 'assign' for d in wds):
        whys = []
        for kind_, dbi, x in wds:
            rv = x['rv']
            o = None
            if rv['k'] == 'agg' and rv.get('ak') == 'adt' and len(rv.get('ops', [])) == 1:
                o = rv['ops'][0]
            elif rv['k'] in ('use', 'cast'):
                o = rv['op']
            elif rv['k'] == 'ref':
                o = {'k': 'copy', 'pl': rv['pl']}
            if o is None or o.get('k') not in ('copy', 'move'):
                whys = None
                break
            ok_, why_ = _normalised_before(prog, eng, body, fd, fd.resolve_place(o['pl'])[0], dbi, depth + 1)
            if not ok_:
                whys = None
                break
            whys.append(why_)
        if whys:
            return True, 'on every path: ' + '; '.join(sorted(set(whys)))[:200]
    if depth < 3 and len(ds) == 1 and ds[0][0] == 'call':
        tgt = local_target(eng, ds[0][2])
        if tgt and tgt in prog.bodies and tgt != body.path and _ascending_by_construction(prog, eng, tgt):
            return True, 'ascending by construction in %s (positions pushed in loop order)' % tgt.split('::')[-1]
        if tgt and tgt in prog.bodies and tgt != body.path:
            cb, cfd = prog.bodies[tgt], eng.fndep(tgt)
            rds = [d for d in cfd.defs.get(0, []) if not d[2].get('dst', {}).get('p')]
            if len(rds) == 1 and rds[0][0] == 'assign' and rds[0][2]['rv']['k'] == 'use' and rds[0][2]['rv']['op']['k'] in ('copy', 'move'):
                r2 = cfd.resolve_place(rds[0][2]['rv']['op']['pl'])[0]
                ok, why = _normalised_before(prog, eng, cb, cfd, r2, rds[0][1], depth + 1)
                if ok:
                    return True, why
    # a member of what a local checking function hands back on success (`let (M, indexes) = layout(..)?`): the pieces it is built from there
    rc = _returned_member(eng, fd, root) if depth < 3 else None
    if depth < 3 and path and len(ds) == 1 and ds[0][0] == 'call' and local_target(eng, ds[0][2]) not in (None, body.path):
        rc = (ds[0][2], tuple(str(x) for x in path))      # (the value was followed through its aliases to the call itself)
    if rc is not None:
        t, path = rc
        tgt = local_target(eng, t)
        cb, cfd = prog.bodies[tgt], eng.fndep(tgt)
        oks = [(bi, st['rv']) for bi, st in cb.stmts() if st['k'] == 'assign' and st['dst']['l'] == 0 and not st['dst'].get('p')
               and st['rv']['k'] == 'agg' and st['rv'].get('variant') in ('Ok', 'Some')]
        if len(oks) == 1 and oks[0][1]['ops']:
            bi, rv = oks[0]
            o = rv['ops'][0]
            for nm in path:
                dd = [d for d in cfd.defs.get(o['pl']['l'], []) if not d[2].get('dst', {}).get('p')] if o['k'] in ('copy', 'move') and not o['pl'].get('p') else []
                if len(dd) == 1 and dd[0][0] == 'assign' and dd[0][2]['rv']['k'] == 'agg' and dd[0][2]['rv'].get('ak') == 'tuple' and nm.isdigit() \
                        and int(nm) < len(dd[0][2]['rv']['ops']):
                    o = dd[0][2]['rv']['ops'][int(nm)]
                else:
                    o = None
                    break
            if o is not None and o['k'] in ('copy', 'move'):
                r2 = cfd.resolve_place(o['pl'])[0]
                whys = []
                for r in _list_sources(cb, cfd, r2):
                    ok, why = _normalised_before(prog, eng, cb, cfd, r, bi, depth + 1)
                    if not ok:
                        return False, why
                    whys.append(why)
                return True, '; '.join(sorted(set(whys)))[:200]
    # a plain copy of a normalised list
    if depth < 3 and len(ds) == 1 and ds[0][0] == 'assign' and ds[0][2]['rv']['k'] in ('use', 'ref'):
        src = ds[0][2]['rv'].get('pl') or ds[0][2]['rv'].get('op', {}).get('pl')
        if src is not None:
            return _normalised_before(prog, eng, body, fd, fd.resolve_place(src)[0], ds[0][1], depth + 1)
    # a parameter of a private function: every caller must hand in a normalised list (the normalisation was hoisted into the entry points)
    if depth < 3 and fd.is_param(root) and not body.j.get('pub') and body.kind != 'Closure':
        sites = []
        for cb in prog.bodies.values():
            for cbi, ct in cb.calls():
                if local_target(eng, ct) == body.path:
                    sites.append((cb, cbi, ct))
        if sites:
            whys = []
            for cb, cbi, ct in sites:
                if root - 1 >= len(ct['args']) or ct['args'][root - 1]['k'] not in ('copy', 'move'):
                    return False, 'argument of %s not followed' % cb.path.split('::')[-1]
                cfd = eng.fndep(cb.path)
                aroot = cfd.resolve_place(ct['args'][root - 1]['pl'])[0]
                for r in _list_sources(cb, cfd, aroot):
                    ok, why = _normalised_before(prog, eng, cb, cfd, r, cbi, depth + 1)
                    if not ok:
                        return False, '%s hands an index list to %s without a dominating sort + dedup' % (cb.path.split('::')[-1], body.path.split('::')[-1])
                    whys.append(why)
            return True, 'by every caller: ' + '; '.join(sorted(set(whys)))[:200]
    return False, 'no dominating sort + dedup'


PAIRED_LISTS = [('disclosed_indexes', 'disclosed_messages'), ('disclosed_commitment_indexes', 'disclosed_committed_messages')]
REORDERING = ('::sort', '::sort_unstable', '::sort_by', '::sort_by_key', '::sort_unstable_by', '::sort_unstable_by_key', '::sort_by_cached_key', '::dedup',
              '::dedup_by', '::dedup_by_key', '::reverse', '::retain', '::retain_mut', '::swap', '::swap_remove', '::rotate_left', '::rotate_right',
              'Vec::<T, A>::remove', 'Vec::<T, A>::insert', 'Vec::<T, A>::drain', 'Iterator::rev', '::select_nth_unstable')


def rule_paired_lists_keep_their_order(ctx, cfg='prod-all', scope=('bbsplus::',)):
    """On the verifier side the i-th disclosed message is the one claimed for the i-th index: the two lists are a list of pairs.  Putting one of
    them (or a copy) into another order - sorting, removing duplicates, reversing, filtering - without the other changes which message is
    claimed for which position: `proof_verify(msgs = [m0, m2], idx = [2, 0])` then verifies the claim (0, m0), (2, m2) the caller never made.
    Decided per function that has both lists as parameters: no order-changing call has a receiver whose elements come from one list of a pair
    and not from the other - unless the list is known to be strictly ascending there (refused otherwise), where such a call does nothing."""
    prog, eng = ctx.prog(cfg), ctx.eng(cfg)
    n = 0
    for p, b in sorted(prog.bodies.items()):
        if b.from_expansion or b.kind == 'Closure' or not p.startswith(scope):
            continue
        pairs = [(b.param_index(i), b.param_index(m)) for i, m in PAIRED_LISTS]
        pairs = [(i, m) for i, m in pairs if i is not None and m is not None]
        if not pairs:
            continue
        n += 1
        fd = eng.fndep(p)
        for ki, km in pairs:
            bad = []
            for bi, t in b.calls():
                cal = t.get('callee') or ''
                if not cal.endswith(REORDERING) or not t['args'] or t['args'][0]['k'] not in ('copy', 'move'):
                    continue
                at = {strip(a) for a in fd.read_op(t['args'][0]) if a[0] not in ('len', 'narrow')}
                from_i = any(a[0] == 'p' and a[1] == ki for a in at)
                from_m = any(a[0] == 'p' and a[1] == km for a in at)
                if from_i == from_m:
                    continue          # neither list, or a list of (index, message) pairs handled together
                root = fd.resolve_place(t['args'][0]['pl'])[0]
                if from_i and _ascending_validated(prog, eng, b, fd, root, bi):
                    continue          # already strictly ascending: sorting / de-duplicating changes nothing
                bad.append('L%s %s on %s' % (t.get('line'), cal.split('::')[-1], b.local_name(ki if from_i else km)))
            yield Ob('RF-M', '%s#paired-order:%s' % (p, b.local_name(ki)), not bad,
                     'the index list and the message list it is paired with position by position are never re-ordered one without the other',
                     b.span, fact={'one_sided_reordering': bad[:4]}, expected='none')
    yield Ob('RF-M', 'crate#paired-lists-examined', n >= 5, 'functions that take an index list together with its message list', '', fact=n, expected='>= 5', nontrivial=False)


def rule_index_normalisation(ctx, cfg='prod-all'):
    """the disclosed index lists are sorted and de-duplicated before their first use, on the prover and on the verifier side (the two sides
    must agree on the canonical form: the challenge hashes the list).  Judged per list argument handed to the consuming functions; the
    normalisation may sit in the same function or in a helper that returns the list."""
    prog, eng = ctx.prog(cfg), ctx.eng(cfg)
    specs = [('bbsplus::proof::core_proof_gen', ['proof_init', 'get_remaining_indexes', 'proof_challenge_calculate']),
             (T.POK + 'proof_verify', ['core_proof_verify']),
             (T.POK + 'blind_proof_verify', ['core_proof_verify'])]
    for suffix, users in specs:
        b = resolve_fn(prog, suffix)
        fd = eng.fndep(b.path)
        n = 0
        oks, facts = [], []
        for bi, t in b.calls():
            tgt = local_target(eng, t) or ''
            if not any(tgt.endswith(u) for u in users):
                continue
            cb = prog.bodies[tgt]
            for k, a in enumerate(t['args']):
                if k + 1 > cb.arg_count or 'usize]' not in cb.local_ty(k + 1) or a['k'] not in ('copy', 'move'):
                    continue
                if 'index' not in (cb.local_name(k + 1) or ''):
                    continue
                root, rpath = fd.resolve_place(a['pl'])
                at = fd.read(root, ())
                derived = any(x[0] == 'p' and 'index' in (b.local_name(x[1]) or '') for x in at)      # its elements (not just its length) come from an index list
                if not derived:
                    continue      # e.g. the list of undisclosed positions computed here
                # lists merged from normalised pieces (blind interface): every piece must be normalised
                roots = _list_sources(b, fd, root)
                res = [_normalised_before(prog, eng, b, fd, r, bi, path=(rpath if r == root else ())) for r in roots]
                n += 1
                oks.append(all(r[0] for r in res))
                facts.append({'user': tgt.split('::')[-1], 'arg': cb.local_name(k + 1), 'pieces': [r[1] for r in res]})
        yield Ob('RF-B', '%s#index-normalisation' % b.path, n > 0 and all(oks), 'sort + dedup of the disclosed indexes dominate their use', b.span,
                 fact=facts[:6], expected='every index list handed on is sorted and de-duplicated')


def _value_list_origins(body, fd, op):
    """roots of the lists of integers a value is taken or computed from (an element handed out by an iteration, a copy of a list, an element
    plus an offset ...); None when the value has a source that cannot be followed"""
    def is_list(l):
        ty = body.local_ty(l).replace('&mut ', '').lstrip('&').strip()
        return ty.startswith(('[usize', 'std::vec::Vec<usize', '[u64', 'std::vec::Vec<u64', '[u32', 'std::vec::Vec<u32'))
    if op['k'] not in ('copy', 'move'):
        return []
    out, seen, st = set(), set(), [op['pl']['l']]
    while st:
        l = st.pop()
        if l in seen:
            continue
        seen.add(l)
        if len(seen) > 64:
            return None
        if is_list(l):
            out.add(fd.resolve_place({'l': l})[0])
            continue
        if fd.is_param(l):
            continue
        for kind, bi, x in fd.defs.get(l, []):
            if kind == 'assign':
                rv = x['rv']
                for o in [rv.get('op'), rv.get('a'), rv.get('b')] + list(rv.get('ops') or []):
                    if isinstance(o, dict) and o.get('k') in ('copy', 'move'):
                        st.append(o['pl']['l'])
                if rv.get('pl'):
                    st.append(rv['pl']['l'])
            elif kind == 'call':
                if local_target(fd.eng, x) is not None:
                    return None
                for a in x['args']:
                    if a['k'] in ('copy', 'move') and fd._closure_info(a['pl']['l']) is None:
                        st.append(a['pl']['l'])
    return sorted(out)


def _list_sources(body, fd, root, depth=0):
    """locals holding caller-given index lists that a derived list (chain / collect / extend) is built from"""
    ds = fd.defs.get(root, [])
    if depth > 4 or len(ds) != 1:
        return [root]
    if _returned_member(fd.eng, fd, root) is not None:
        return [root]      # handed back by a local function: judged there (_normalised_before)
    kind, bi, x = ds[0]
    if kind == 'call' and (x.get('callee') or '').endswith(('Vec::<T>::new', 'Vec::<T>::with_capacity', 'Vec::<T, A>::with_capacity_in')):
        # a list filled step by step (`extend_from_slice(a)`, `for j in b { out.push(f(j)) }`): the lists its elements are taken or computed from
        out = []
        for cbi, ct in body.calls():
            cal = ct.get('callee') or ''
            if not cal.endswith(('Vec::<T, A>::extend_from_slice', 'Vec::<T, A>::push', 'Vec::<T, A>::extend', 'Vec::<T, A>::append', 'Vec::<T, A>::insert')) \
                    or len(ct['args']) < 2 or ct['args'][0]['k'] not in ('copy', 'move') or fd.resolve_place(ct['args'][0]['pl'])[0] != root:
                continue
            srcs = _value_list_origins(body, fd, ct['args'][-1])
            if srcs is None:
                return [root]
            for r in srcs:
                out += _list_sources(body, fd, r, depth + 1)
        return sorted(set(out)) or [root]
    if kind == 'call' and (x.get('callee') or '') in ('std::iter::Iterator::collect', 'std::ops::Try::branch', 'std::option::Option::<T>::ok_or_else',
                                                       'std::option::Option::<T>::ok_or', 'std::iter::Iterator::chain', 'std::iter::Iterator::map',
                                                       'std::iter::Iterator::copied', 'std::iter::Iterator::cloned', 'core::slice::<impl [T]>::iter',
                                                       'std::iter::IntoIterator::into_iter', 'std::ops::Deref::deref'):
        out = []
        for a in x['args']:
            if a['k'] in ('copy', 'move') and fd._closure_info(a['pl']['l']) is None:
                out += _list_sources(body, fd, fd.resolve_place(a['pl'])[0], depth + 1)
        return out or [root]
    if kind == 'assign' and x['rv']['k'] in ('use', 'ref') and not x['dst'].get('p'):
        src = x['rv'].get('pl') or x['rv'].get('op', {}).get('pl')
        if src is not None and fd.resolve_place(src)[0] != root:
            return _list_sources(body, fd, fd.resolve_place(src)[0], depth + 1)
    return [root]


from zone import linear_form as _linear


def closure_addend(pzf, czf):
    """for a closure `|j| j + X` / `|j| j.checked_add(X)`: X as a linear form in the terms of the creating body (None if the closure is not
    of that shape)"""
    body = czf.body
    ctx = czf.closure_ctx()
    if ctx is None:
        return None
    caps = ctx[2]
    d = czf.single_def(0)
    lin = None
    for _ in range(4):
        if d is None:
            return None
        if d[0] == 'call' and (d[2].get('callee') or '').endswith(('::checked_add', '::wrapping_add', '::saturating_add')) and len(d[2]['args']) == 2:
            la, lb = _linear(czf, czf.term_op(d[2]['args'][0])), _linear(czf, czf.term_op(d[2]['args'][1]))
            if la is None or lb is None:
                return None
            lin = (dict(la[0]), la[1] + lb[1])
            for k, v in lb[0].items():
                lin[0][k] = lin[0].get(k, 0) + v
            break
        if d[0] == 'assign' and d[2]['rv']['k'] == 'use' and d[2]['rv']['op']['k'] in ('copy', 'move'):
            t = czf.term_op(d[2]['rv']['op'])
            if t is not None:
                lin = _linear(czf, t)
                break
            d = czf.single_def(d[2]['rv']['op']['pl']['l']) if not d[2]['rv']['op']['pl'].get('p') else None
            continue
        if d[0] == 'assign' and d[2]['rv']['k'] == 'binop':
            lin = _linear(czf, czf._binop_term(0, d[2]['rv'], d[1]))
            break
        return None
    if lin is None:
        return None
    syms, const = lin
    if syms.get('p2') != 1:
        return None
    out, oc = {}, const
    for sy, k in syms.items():
        if sy == 'p2':
            continue
        if sy.startswith('cap') and sy[3:].isdigit() and int(sy[3:]) < len(caps):
            lp = _linear(pzf, pzf.term_op(caps[int(sy[3:])]))
            if lp is None:
                return None
            for s2, k2 in lp[0].items():
                out[s2] = out.get(s2, 0) + k * k2
            oc += k * lp[1]
        else:
            return None
    return (out, oc)


def rule_index_translation(ctx, cfg='prod-all'):
    """prover and verifier place committed-message index j at j + L + 1 (after the L signer messages and the blind factor), and L + 1 is also
    the signer generator count handed to prepare_parameters.  Decided on terms: the closure mapped over the commitment index list computes
    `element + X`; X and the generator count are the same linear form `L + 1`, where L is the length of the signer message list (prover) or
    the caller-supplied count (verifier)."""
    from rf_consts import _trace_identity
    prog, eng, za = ctx.prog(cfg), ctx.eng(cfg), ctx.zone(cfg)
    for suffix, lparam, is_len in ((T.POK + 'blind_proof_gen', 'messages', True), (T.POK + 'blind_proof_verify', 'L', False)):
        b = resolve_fn(prog, suffix)
        za.summary(b.path)
        zf = za.zf(b.path)
        fd = zf.fd
        kl = b.param_index(lparam)
        kc = b.param_index('disclosed_commitment_indexes')
        if kl is None or kc is None:
            raise AnchorMissing('%s: parameters %s / disclosed_commitment_indexes' % (b.path, lparam))
        # the generator count
        gcount = None
        for bi, t in b.calls():
            if (local_target(eng, t) or '').endswith('prepare_parameters') and len(t['args']) >= 3:
                gcount = _linear(zf, zf.term_op(t['args'][2]))
        # the shift closure: mapped over an iterator of the commitment index list
        def find_addend(b, zf, fd, kc):
            addend, which = None, None
            for cb in prog.closures_of(b.path):
                czf = za.zf(cb.path)
                cctx = czf.closure_ctx()
                if cctx is None or cctx[0] is not zf or cctx[3] is None:
                    continue
                bi, t = cctx[3]
                if (t.get('callee') or '') not in ('std::iter::Iterator::map', 'std::iter::Iterator::filter_map') or not t['args']:
                    continue
                cont = zf.iter_container(t['args'][0])
                root = None
                for _ in range(6):
                    if cont is None:
                        break
                    if cont[0] in ('cont', 'call', 'callfield'):
                        root = cont[1]
                        break
                    if cont[0] == 'same':
                        root = cont[2]
                        break
                    if cont[0] == 'sub':
                        cont = cont[1]
                        continue
                    break
                if root is None:
                    continue
                par, _c, _w = _trace_identity(fd, b, {'k': 'copy', 'pl': {'l': root}})
                if par != kc:
                    # normalised through a helper: derived from this index-list parameter and from no other one
                    ps = {strip(x)[1] for x in fd.read(root, ()) if strip(x)[0] == 'p' and 'usize]' in b.local_ty(strip(x)[1])}
                    if ps != {kc}:
                        continue
                addend = closure_addend(zf, czf)
                which = cb.path.split('::')[-1]
            if addend is None:
                # loop form: `for j in &commitment_indexes { out.push(j.checked_add(X)?) }` - an element of the list plus X, in this body
                def from_list(es):
                    nm = es[5:]
                    if nm == b.local_name(kc):
                        return True
                    if nm.startswith('_') and nm[1:].isdigit():
                        l0 = int(nm[1:])
                        if _trace_identity(fd, b, {'k': 'copy', 'pl': {'l': l0}})[0] == kc:
                            return True
                        ps = {strip(x)[1] for x in fd.read(l0, ()) if strip(x)[0] == 'p' and 'usize]' in b.local_ty(strip(x)[1])}
                        return ps == {kc}
                    return False
                for bi, t in b.calls():
                    if not (t.get('callee') or '').endswith(('::checked_add', '::wrapping_add', '::saturating_add')) or len(t['args']) != 2:
                        continue
                    ta, tb = zf.term_op(t['args'][0]), zf.term_op(t['args'][1])
                    for x, y in ((ta, tb), (tb, ta)):
                        if x is not None and x[0] is not None and x[1] == 0 and x[0] in zf.elem_of and from_list(zf.elem_of[x[0]]):
                            addend = _linear(zf, y)
                            which = 'loop L%s' % t.get('line')
            return addend, which
        addend, which = find_addend(b, zf, fd, kc)
        if addend is None:
            # the translation sits in a local function that is handed the commitment index list: its addend there, in the terms of this call
            for bi, t in b.calls():
                tgt = local_target(eng, t)
                if tgt is None or tgt == b.path or tgt not in prog.bodies:
                    continue
                hb = prog.bodies[tgt]
                ks = [k + 1 for k, a in enumerate(t['args']) if a['k'] in ('copy', 'move') and k + 1 <= hb.arg_count and 'usize]' in hb.local_ty(k + 1)
                      and _trace_identity(fd, b, a)[0] == kc]
                if len(ks) != 1:
                    continue
                za.summary(tgt)
                hzf = za.zf(tgt)
                ha, hw = find_addend(hb, hzf, hzf.fd, ks[0])
                if ha is None:
                    continue
                out, oc, ok = {}, ha[1], True
                for sy, k in ha[0].items():
                    tt = za.subst(zf, t, (sy, 0), tgt)
                    lt = _linear(zf, tt) if tt is not None else None
                    if lt is None:
                        ok = False
                        break
                    for s3, k3 in lt[0].items():
                        out[s3] = out.get(s3, 0) + k * k3
                    oc += k * lt[1]
                if ok:
                    addend, which = ({k_: v_ for k_, v_ in out.items() if v_ != 0}, oc), '%s in %s' % (hw, tgt.split('::')[-1])
        # what L is in this function
        def is_L(sym):
            if is_len:
                if not sym.startswith('len:'):
                    return False
                nm = sym[4:]
                if nm == lparam:
                    return True
                if nm.startswith('_') and nm[1:].isdigit():
                    return _trace_identity(fd, b, {'k': 'copy', 'pl': {'l': int(nm[1:])}})[0] == kl
                return False
            if sym.startswith('v') and sym[1:].isdigit():
                return _trace_identity(fd, b, {'k': 'copy', 'pl': {'l': int(sym[1:])}})[0] == kl
            return sym == 'p%d' % kl

        def is_L_plus_1(lin):
            return lin is not None and lin[1] == 1 and len(lin[0]) == 1 and list(lin[0].values()) == [1] and is_L(list(lin[0].keys())[0])
        yield Ob('RF-B', '%s#index-shift' % b.path, is_L_plus_1(addend), 'committed index j is translated to j + L + 1', b.span,
                 fact={'closure': which, 'adds': addend}, expected='L + 1')
        yield Ob('RF-B', '%s#generator-count' % b.path, is_L_plus_1(gcount), 'the signer generator count handed to prepare_parameters is L + 1 (the same offset as the index shift)',
                 b.span, fact={'count': gcount}, expected='L + 1')

        # the blind generator count: one per committed message plus one.  The prover knows the committed messages (M = their number); the verifier
        # has to arrive at the same number from what it is given: (L + 1) + (M + 1) = R1 + R2 + U + 1 (disclosed signer / committed positions, hidden
        # responses).  Decided on the linear forms of the two counts.
        def origin(sym):
            """('len', parameter, field suffix) for the length of (a part of) a parameter, else the symbol"""
            if not sym.startswith('len:'):
                return sym
            nm = sym[4:]
            head, _, rest = nm.partition('.')
            if head.startswith('_') and head[1:].isdigit():
                k = _trace_identity(fd, b, {'k': 'copy', 'pl': {'l': int(head[1:])}})[0]
                if k is not None:
                    return ('len', b.local_name(k), rest)
                r0, p0 = fd.base(int(head[1:]))        # through an accessor (`self.to_bbsplus_proof()`): the part of the parameter it returns
                if fd.is_param(r0):
                    return ('len', b.local_name(r0), rest)
                return sym
            k = b.param_index(head)
            return ('len', head, rest) if k is not None else sym
        bcount = None
        for bi, t in b.calls():
            if (local_target(eng, t) or '').endswith('prepare_parameters') and len(t['args']) >= 4:
                bcount = _linear(zf, zf.term_op(t['args'][3]))
        if is_len:
            got = None if bcount is None else ({origin(k): v for k, v in bcount[0].items()}, bcount[1])
            want = ({('len', 'committed_messages', ''): 1}, 1)
        else:
            got = None
            if bcount is not None and gcount is not None:
                tot = dict(gcount[0])
                for k, v in bcount[0].items():
                    tot[k] = tot.get(k, 0) + v
                got = ({origin(k): v for k, v in tot.items() if v != 0}, gcount[1] + bcount[1])
            want = ({('len', 'disclosed_indexes', ''): 1, ('len', 'disclosed_commitment_indexes', ''): 1, ('len', 'self', 'm_cap'): 1}, 1)
        yield Ob('RF-B', '%s#blind-generator-count' % b.path, got == want,
                 'one blind generator per committed message plus one: the prover asks for M + 1, the verifier for as many as make (L + 1) + (M + 1) = R1 + R2 + U + 1',
                 b.span, fact={'count': str(bcount), 'as': str(got)}, expected=str(want))


# ------------------------------------------------------------------ serde writer / reader agreement (derived impls, after macro expansion)
def _str_consts(t):
    return [a.get('disp', '').strip('"') for a in t['args'] if a['k'] == 'const' and 'str' in a.get('ty', '')]


def rule_placeholder_variants_not_deserialisable(ctx, cfg='prod-all', scope=('schemes::generics::',)):
    """The scheme enums have a placeholder variant (`_Unreachable(PhantomData<S>)`) that exists for the type system only; every accessor
    panics on it ("Cannot happen!").  It must not be constructible from serialised data: the variant names the Deserialize impl of each enum
    recognises do not contain it."""
    prog = ctx.prog(cfg)
    n = 0
    for ty, adt in sorted(prog.adts.items()):
        if not ty.startswith(scope) or adt['kind'] != 'Enum':
            continue
        ph = [v['name'] for v in adt['variants'] if v['name'].startswith('_')]
        if not ph:
            continue
        marker = "Deserialize<'de> for %s" % ty
        names = set()
        found = False
        for bj in prog.j['bodies']:
            if marker not in bj['path']:
                continue
            found = True
            for blk in bj['blocks']:
                for st in blk['stmts']:
                    if st['k'] == 'assign':
                        rv = st['rv']
                        for o in [rv.get('op'), rv.get('a'), rv.get('b')] + list(rv.get('ops') or []):
                            if isinstance(o, dict) and o.get('k') == 'const' and 'str' in str(o.get('ty', '')):
                                names.add(str(o.get('disp', '')).strip('"'))
                t = blk['term']
                if t['k'] == 'call':
                    for o in t['args']:
                        if o.get('k') == 'const' and 'str' in str(o.get('ty', '')):
                            names.add(str(o.get('disp', '')).strip('"'))
            for pr in bj.get('promoted', []):
                for c in pr.get('consts', []):
                    if 'str' in str(c.get('ty', '')):
                        names.add(str(c.get('disp', '')).strip('"'))
        if not found:
            continue
        n += 1
        hit = sorted(x for x in names if any(x == v or x.strip('b"') == v for v in ph))
        yield Ob('RF-N', '%s#placeholder-not-deserialisable' % ty, not hit,
                 'the placeholder variant of the enum is not among the variant names its Deserialize impl recognises', adt['span'],
                 fact={'placeholder_variants': ph, 'recognised': hit, 'names_seen': len(names)}, expected='not recognised')
    yield Ob('RF-N', 'crate#placeholder-variants', n >= 3, 'enums with a placeholder variant and a Deserialize impl', '', fact=n, expected='>= 3', nontrivial=False)


SERDE_CHECKED = {
    # type: {kind: how many of its fields the octet decoder refuses a value of (identity point / zero scalar)}
    'bbsplus::keys::BBSplusPublicKey': {'G2Projective': 1},
    'bbsplus::keys::BBSplusSecretKey': {'Scalar': 1},
    'bbsplus::signature::BBSplusSignature': {'G1Projective': 1, 'Scalar': 1},
    'bbsplus::proof::BBSplusPoKSignature': {'G1Projective': 3, 'Scalar': 4, 'Vec<Scalar>': 1},
}


def rule_serde_checked_decoders(ctx, cfg='prod-all'):
    """The serde form of a key, a signature or a proof is a decoder like `from_bytes`: what the octet decoder refuses (the identity as public key,
    signature point or proof point, a zero signature exponent, a zero secret key) the Deserialize impl must refuse as well.  Decided on the derive
    output: in every visitor method that builds the type (`visit_seq`, `visit_map`, `visit_newtype_struct`), at least as many fields of each kind
    are read through a local helper whose success is gated by the identity / zero test as the table lists.  (Which helper reads which field is
    not decided: the count per kind is.)"""
    from mir import Body
    from rf_gates import eval_requirement, gate_is_comparison
    prog, eng, ga = ctx.prog(cfg), ctx.eng(cfg), ctx.gates(cfg)
    checked = {}

    def helper_kind(path):
        """'G1Projective' / 'G2Projective' / 'Scalar' when `path` is a local function returning Result<that type, _> whose every success
        return is dominated by an identity / zero test of the value it returns"""
        if path in checked:
            return checked[path]
        checked[path] = None
        b = prog.bodies.get(path)
        if b is None or b.from_expansion or b.kind == 'Closure':
            return None
        rty = b.local_ty(0)
        kind = None
        first = rty[len('std::result::Result<'):].split(', <')[0].split(', D::')[0].strip() if rty.startswith('std::result::Result<') else ''
        for k in ('G1Projective', 'G2Projective', 'Scalar'):
            if first.endswith(k):
                kind = k
            if first.startswith('std::vec::Vec<') and first.rstrip('>').endswith(k):
                kind = 'Vec<%s>' % k
        if kind is None:
            return None
        aps = ga.accept_paths(path)
        ok = bool(aps)
        for ap in aps:
            hit = False
            for g in ap['gates']:
                if g.dom is not True:
                    continue
                w = g.what or ''
                # what the test says about the value (about *every* element, for a test under a quantifier) on the way to the success return:
                # `any(P)` that came out false and `all(P)` that came out true speak for each element; `all(P)` false says one element fails P
                tv = g.truth
                if g.quant:
                    q = g.quant.split('::')[-1]
                    tv = g.truth if (q == 'any' and g.truth is False) or (q == 'all' and g.truth is True) else None
                names_refused = any(str(a[1]).split('::')[-1] in ('IDENTITY', 'ZERO') for a in g.all_atoms() if a[0] in ('a', 'c'))
                if g.kind == 'call' and (w.endswith('::is_identity') or w.endswith('::is_zero')) and tv is False:
                    hit = True
                if g.kind == 'call' and 'PartialEq' in w and names_refused and ((w.endswith('::eq') and tv is False) or (w.endswith('::ne') and tv is True)):
                    hit = True
                if g.kind == 'cmp' and names_refused and ((w == 'Eq' and tv is False) or (w == 'Ne' and tv is True)):
                    hit = True
                # `list.contains(&ZERO)` came out false: no element is the refused value
                if g.kind == 'call' and w.endswith('<impl [T]>::contains') and g.truth is False \
                        and any(str(a[1]).split('::')[-1] in ('IDENTITY', 'ZERO') for a in g.all_atoms() if a[0] in ('a', 'c')):
                    hit = True
            ok = ok and hit
        checked[path] = kind if ok else None
        return checked[path]

    n = 0
    for ty, need in sorted(SERDE_CHECKED.items()):
        if ty not in prog.adts:
            raise AnchorMissing(ty)
        marker = "Deserialize<'de> for %s>" % ty
        per_method = {}
        for bj in prog.j['bodies']:
            p = bj['path']
            if marker not in p:
                continue
            meth = None
            for m in ('visit_seq', 'visit_map', 'visit_newtype_struct'):
                if '::%s' % m in p:
                    meth = m
            if meth is None:
                continue
            b = Body(bj, prog)
            cnt = per_method.setdefault(meth, {})
            for bi, t in b.calls():
                tg = local_target(eng, t)
                k = helper_kind(tg) if tg else None
                if k:
                    cnt[k] = cnt.get(k, 0) + 1
        if not per_method:
            yield Ob('RF-D', '%s#serde-decoder' % ty, False, 'no Deserialize visitor found for the type', prog.adts[ty]['span'], fact=0, expected='derive output')
            continue
        for kind, k in sorted(need.items()):
            n += 1
            short = {m: c.get(kind, 0) for m, c in sorted(per_method.items())}
            ok = all(v >= k for v in short.values())
            yield Ob('RF-D', '%s#serde-checked:%s' % (ty, kind), ok,
                     'the serde decoder reads every %s field the octet decoder restricts through a helper gated by the same identity / zero test' % kind,
                     prog.adts[ty]['span'], fact={'fields_read_through_a_checked_helper': short, 'required': k}, expected='>= %d in every visitor method' % k)
    yield Ob('RF-D', 'crate#serde-checked-decoders', n >= 5, 'restricted field kinds examined', '', fact=n, expected='>= 5', nontrivial=False)


def rule_serde_symmetry(ctx, cfg='prod-all', scope=('bbsplus::keys::', 'bbsplus::signature::', 'bbsplus::proof::', 'bbsplus::commitment::', 'bbsplus::blind::',
                                                     'keys::pair::', 'schemes::generics::', 'utils::message::bbsplus_message'), min_types=12):
    """for every type whose Serialize and Deserialize impls are compiled into the crate (derive output is analysed after expansion, so
    #[serde(...)] attributes are seen as the code they generate): (1) every field of the type is written unconditionally - the
    serialize_field call dominates SerializeStruct::end, no skip_field; (2) every name written is a name the reader's field visitor
    recognises; (3) every field the reader refuses to do without (missing_field) is one the writer always writes; (4) enum variant names
    written are variant names read.  Breaking any of these makes serialize -> deserialize lose or reject a value for some input."""
    prog = ctx.prog(cfg)
    n = 0
    for p, b in sorted(prog.bodies.items()):
        tr = b.j.get('impl_trait') or ''
        st = b.j.get('impl_self') or ''
        if not (tr.endswith('::Serialize') and p.endswith('::serialize')):
            continue
        if not st.startswith(scope):
            continue
        adt_path = st.split('<')[0]
        adt = prog.adts.get(adt_path)
        de_prefix = "Deserialize<'de> for %s>::deserialize" % st
        de = {q: bb for q, bb in prog.bodies.items() if de_prefix in q}
        kinds = [(t.get('callee') or '').split('::')[-1] for bi, t in b.calls()]
        if 'serialize_struct' in kinds:
            end_blocks = [bi for bi, t in b.calls() if (t.get('callee') or '').endswith('SerializeStruct::end')]
            w_all, w_unc, skips = [], [], []
            for bi, t in b.calls():
                cal = (t.get('callee') or '')
                if cal.endswith('SerializeStruct::serialize_field'):
                    nm = (_str_consts(t) or ['?'])[0]
                    w_all.append(nm)
                    if end_blocks and all(b.dominates(bi, e) for e in end_blocks):
                        w_unc.append(nm)
                elif cal.endswith('SerializeStruct::skip_field'):
                    skips.append((_str_consts(t) or ['?'])[0])
            fields = [f['name'] for v in (adt or {}).get('variants', []) for f in v['fields']] if adt else None
            n += 1
            key = '%s#serde' % adt_path
            yield Ob('RF-N', key + ':every-field-always-written', fields is not None and len(w_unc) == len(fields) and not skips and len(end_blocks) >= 1,
                     'every field of the type is written on every path of the Serialize impl', b.span,
                     fact={'fields': fields, 'always_written': w_unc, 'conditionally_written': [x for x in w_all if x not in w_unc], 'skipped': skips},
                     expected='one unconditional serialize_field per field')
            if not de:
                if b.from_expansion:
                    yield Ob('RF-N', key + ':reader', False, 'derived Serialize without a Deserialize impl in the crate', b.span, fact=None, expected='Deserialize impl')
                continue
            known, required = set(), set()
            custom = True
            for q, bb in de.items():
                if '__FieldVisitor' in q and q.endswith('::visit_str'):
                    custom = False
                    for bi, t in bb.calls():
                        if (t.get('callee') or '').endswith('::eq'):
                            known |= set(_str_consts(t))
                if '__Visitor' in q and q.endswith('::visit_map'):
                    for bi, t in bb.calls():
                        if (t.get('callee') or '').endswith('::missing_field'):
                            required |= set(_str_consts(t))
            if custom:
                continue      # hand-written reader: decided by the byte-layout rules, not here
            yield Ob('RF-N', key + ':names-written-are-read', set(w_all) <= known, 'every field name written is recognised by the reader', b.span,
                     fact={'written': w_all, 'recognised': sorted(known)}, expected='written ⊆ recognised')
            yield Ob('RF-N', key + ':required-are-always-written', required <= set(w_unc), 'every field the reader requires is always written', b.span,
                     fact={'required': sorted(required), 'always_written': w_unc}, expected='required ⊆ always written')
        elif any(k.endswith('_variant') for k in kinds):
            written = set()
            for bi, t in b.calls():
                if (t.get('callee') or '').split('::')[-1].endswith('_variant'):
                    cs = _str_consts(t)
                    if len(cs) >= 2:
                        written.add(cs[1])
            known = set()
            for q, bb in de.items():
                if '__FieldVisitor' in q and q.endswith('::visit_str'):
                    for bi, t in bb.calls():
                        if (t.get('callee') or '').endswith('::eq'):
                            known |= set(_str_consts(t))
            if not de:
                continue
            n += 1
            yield Ob('RF-N', '%s#serde:variants-written-are-read' % adt_path, written <= known and bool(written), 'every variant name written is recognised by the reader',
                     b.span, fact={'written': sorted(written), 'recognised': sorted(known)}, expected='written ⊆ recognised')
    yield Ob('RF-N', 'crate#serde-type-census', n >= min_types, 'types with compiled Serialize impls examined', '', fact=n, expected='>= %d' % min_types, nontrivial=False)


# -------------------------------------------------------------------------------- RF-M (semantic): which generator meets which scalar
def _elem_origin(zf, op, depth=0):
    """where a value was read from: ('idx', container desc, index term, index is an element of an index list) for c[i] / c.get(i) / &c[i],
    ('it', container desc, iteration id) for the loop variable / closure argument of an iteration (component of a zip),
    ('call', callee, call) for the result of a call, None if unknown.  Field projections (`.value`), derefs, copies, clones and `?` are skipped."""
    if depth > 16 or op is None or op.get('k') not in ('copy', 'move'):
        return None
    body, fd = zf.body, zf.fd
    pl = op['pl']
    ps = pl.get('p', [])
    l = pl['l']
    idx = [p for p in ps if p['k'] == 'index']
    if idx:
        it = zf.term_op({'k': 'copy', 'pl': {'l': idx[0]['l']}})
        via_list = it is not None and it[0] is not None and it[0] in zf.elem_of
        if not via_list and it is not None and it[0] and body.kind == 'Closure':
            # the index is the closure's item (or a component of it): an element of the iterated index list
            via_list = zf.closure_elem_sym(it[0]) is not None
        return ('idx', zf.desc_local(l), it, via_list)
    cidx = [p for p in ps if p['k'] == 'cindex']
    if cidx:
        return ('idx', zf.desc_local(l), (None, int(cidx[0].get('off', cidx[0].get('i', 0)))), False)
    downcast = any(p['k'] == 'downcast' for p in ps)
    fields = [p for p in ps if p['k'] == 'field']
    if fd.is_param(l) and body.kind == 'Closure' and l >= 2:
        # closure argument (or a component of a tuple argument)
        ctx = zf.closure_ctx()
        if ctx is not None and ctx[3] is not None:
            pzf, cb, caps, (bi, t) = ctx
            comps = pzf.iter_components(t['args'][0]) if t['args'] else None
            comp = [f for f in fields if f['n'].isdigit() and not f.get('adt')]
            if comps:
                n = int(comp[0]['n']) if (comp and len(comps) > 1) else 0
                if n < len(comps) and comps[n] is not None:
                    return ('it', comps[n], ('closure', body.path), pzf)
        return None
    if downcast:
        o = zf._origin_call(l)
        if o and (o[1].get('callee') or '') == 'std::iter::Iterator::next' and o[1]['args']:
            comps = zf.iter_components(o[1]['args'][0])
            comp = [f for f in fields if f['n'].isdigit() and not str(f.get('adt', '')).startswith(('std::option', 'core::option'))]
            if comps:
                n = int(comp[0]['n']) if (comp and len(comps) > 1) else 0
                if n < len(comps) and comps[n] is not None:
                    return ('it', comps[n], ('loop', o[0]), zf)
            return None
        if o and (o[1].get('callee') or '') in ('core::slice::<impl [T]>::get', 'core::slice::<impl [T]>::get_mut', 'std::ops::Index::index') \
                and len(o[1]['args']) == 2 and o[1]['args'][0]['k'] in ('copy', 'move'):
            it = zf.term_op(o[1]['args'][1])
            return ('idx', zf.desc_place(o[1]['args'][0]['pl']), it, it is not None and it[0] is not None and it[0] in zf.elem_of)
        if o and (o[1].get('callee') or '') in ('core::slice::<impl [T]>::split_first', 'core::slice::<impl [T]>::first') and o[1]['args'][0]['k'] in ('copy', 'move'):
            comp = [f for f in fields if f['n'].isdigit() and not str(f.get('adt', '')).startswith(('std::option', 'core::option'))]
            if not comp or comp[0]['n'] == '0':
                return ('idx', zf.desc_place(o[1]['args'][0]['pl']), (None, 0), False)
        if o:
            tgt = local_target(zf.za.eng, o[1])
            return ('call', tgt or (o[1].get('callee') or ''), o[1], zf)
        return None
    d = zf.single_def(l)
    if d is None:
        return None
    kind, bi, x = d
    if kind == 'assign' and not x['dst'].get('p'):
        rv = x['rv']
        if rv['k'] in ('use', 'cast') and rv['op']['k'] in ('copy', 'move'):
            return _elem_origin(zf, rv['op'], depth + 1)
        if rv['k'] in ('ref', 'rawptr'):
            return _elem_origin(zf, {'k': 'copy', 'pl': rv['pl']}, depth + 1)
        return None
    if kind == 'call':
        cal = x.get('callee') or ''
        if cal in ('std::ops::Index::index', 'std::ops::IndexMut::index_mut', 'core::slice::<impl [T]>::get', 'core::slice::<impl [T]>::get_unchecked') \
                and len(x['args']) == 2 and x['args'][0]['k'] in ('copy', 'move'):
            it = zf.term_op(x['args'][1])
            via_list = it is not None and it[0] is not None and it[0] in zf.elem_of
            return ('idx', zf.desc_place(x['args'][0]['pl']), it, via_list)
        if cal in ('std::ops::Deref::deref', 'std::clone::Clone::clone', 'std::ops::Try::branch', 'std::option::Option::<T>::ok_or', 'std::option::Option::<T>::ok_or_else',
                   'std::option::Option::<T>::unwrap', 'std::option::Option::<T>::expect', 'std::result::Result::<T, E>::map_err', 'std::ops::Neg::neg',
                   'std::option::Option::<&T>::copied', 'std::option::Option::<&T>::cloned') and x['args']:
            return _elem_origin(zf, x['args'][0], depth + 1)
        tgt = local_target(zf.za.eng, x)
        return ('call', tgt or cal, x, zf)
    return None


def _is_generator_values(zf, root):
    """root container descriptor is the `values` of a Generators parameter / local"""
    if root is None:
        return False
    if root[0] == 'callfield':      # `.values` of a generator set built in this function (Generators::create(..))
        return bool(root[3]) and root[3][-1] == 'values' and 'Generators' in zf.body.local_ty(root[1])
    if root[0] != 'cont':
        return False
    return bool(root[2]) and root[2][-1] == 'values' and 'Generators' in zf.body.local_ty(root[1])


def generator_pairings(ctx, cfg, fn):
    """every `point * scalar` in fn (and in the closures it creates) whose point is an element of a generator list:
    dict(kind='domain'|'message'|'indexed'|'other', start=offset of the point's slice in generators.values (or None if the slice is a parameter),
    gpos / mpos position terms, same_iteration, where)"""
    prog, za = ctx.prog(cfg), ctx.zone(cfg)
    out = []
    bodies = [fn] + [cb.path for cb in prog.closures_of(fn)]
    for path in bodies:
        b = prog.bodies[path]
        if b.kind != 'Closure':
            za.summary(path)
        zf = za.zf(path)
        for bi, t in b.calls():
            cal = t.get('callee') or ''
            if cal not in ('std::ops::Mul::mul',) or len(t['args']) != 2:
                continue
            tys = [b.local_ty(a['pl']['l']) if a['k'] in ('copy', 'move') else a.get('ty', '') for a in t['args']]
            if not any('G1Projective' in x for x in tys):
                continue
            pi = 0 if 'G1Projective' in tys[0] else 1
            po, so = _elem_origin(zf, t['args'][pi]), _elem_origin(zf, t['args'][1 - pi])
            if po is None or po[0] not in ('idx', 'it'):
                continue
            ozf = po[3] if po[0] == 'it' else zf
            if po[0] == 'it' and po[1] is not None and po[1][0] == 'iterparam':
                # the points are the items of an iterator parameter (`points: impl IntoIterator<Item = &G1Projective>`)
                root, gs, ge = ('cont', po[1][1], (), ''), (None, 0), None
                is_gen, is_param_slice = False, True
            else:
                org = ozf.slice_origin(po[1])
                if org is None:
                    continue
                root, gs, ge = org
                # a slice captured by the closure: continue in the body that created the closure
                if root[0] == 'cont' and root[1] == 1 and ozf.body.kind == 'Closure' and len(root[2]) == 1 and str(root[2][0]).isdigit():
                    cctx = ozf.closure_ctx()
                    if cctx is not None and int(root[2][0]) < len(cctx[2]) and cctx[2][int(root[2][0])]['k'] in ('copy', 'move'):
                        pzf0 = cctx[0]
                        porg = pzf0.slice_origin(pzf0.desc_place(cctx[2][int(root[2][0])]['pl']))
                        if porg is not None and gs is not None and porg[1] is not None:
                            root, gs, ge = porg[0], ZoneSum(porg[1], gs), None
                            ozf = pzf0
                is_gen = _is_generator_values(ozf, root)
                is_param_slice = root[0] == 'cont' and ozf.fd.is_param(root[1]) and not root[2] and 'G1Projective' in ozf.body.local_ty(root[1])
                if not (is_gen or is_param_slice):
                    continue
            rec = {'where': '%s L%s' % (b.file(), t['line']), 'start': gs if is_gen else None, 'helper_param': root[1] if is_param_slice else None,
                   'gpos': po[2] if po[0] == 'idx' else None, 'indexed_by_list': po[0] == 'idx' and po[3], 'kind': 'other', 'mpos': None, 'same_iteration': None,
                   'mstart': None, 'fn': path}
            # the index itself is an item of an iterator parameter, drawn in the same iteration as the scalar (`indexes.zip(scalars)`)
            if po[0] == 'idx' and po[2] is not None and po[2][0] and zf.body.kind == 'Closure':
                es = zf.closure_elem_sym(po[2][0])
                cctx = zf.closure_ctx()
                if es and es.startswith('elem:') and cctx is not None:
                    pb = cctx[0].body
                    k = pb.param_index(es[5:].split('.')[0])
                    if k is not None and not pb.local_ty(k).replace('&mut ', '').lstrip('&').strip().startswith(('[', 'std::vec::Vec<')):
                        rec['index_param'] = k
            if so is not None and so[0] == 'call' and str(so[1]).endswith('calculate_domain'):
                rec['kind'] = 'domain'
            elif so is not None and so[0] == 'it' and so[1] is not None and so[1][0] == 'iterparam':
                # the scalars are the items of an iterator the caller hands in: which list they come from is decided at the call
                rec['kind'] = 'helper-scalars'
                rec['scalar_param'] = so[1][1]
                rec['same_iteration'] = (po[0] == 'it' and po[2] == so[2])
            elif so is not None and so[0] in ('idx', 'it'):
                szf = so[3] if so[0] == 'it' else zf
                sorg = szf.slice_origin(so[1])
                sty = szf.body.local_ty(sorg[0][1]) if sorg and sorg[0][0] == 'cont' else ''
                if sorg and 'BBSplusMessage' in sty:
                    rec['kind'] = 'message'
                    rec['mstart'] = sorg[1]
                    rec['mpos'] = so[2] if so[0] == 'idx' else None
                    if po[0] == 'it' and so[0] == 'it':
                        rec['same_iteration'] = po[2] == so[2]
                    elif po[0] == 'idx' and so[0] == 'idx':
                        rec['same_iteration'] = None
                    else:
                        rec['same_iteration'] = False
            out.append(rec)
    return out


def rule_generator_pairing(ctx, cfg='prod-all', fns=None):
    """B, T2 and Bv are sums of generator * scalar products in which message i meets H_i = generators.values[i + 1] and the domain meets
    Q_1 = generators.values[0].  Decided on every product whose point is an element of a generator list: the slice the point is taken from
    starts at offset 1 of `values` (through any nesting of [1..], split_first, get(..)), its position equals the position of the message it is
    multiplied with (same index term, or the two sides of one zip), and the point multiplied with the domain sits at offset 0.  When the
    products live in a helper that receives the H slice as a parameter, the helper is judged on positions and its callers on the offset."""
    prog, eng, za = ctx.prog(cfg), ctx.eng(cfg), ctx.zone(cfg)
    fns = fns or ['bbsplus::signature::core_sign', 'bbsplus::signature::core_verify', 'bbsplus::proof::proof_init', 'bbsplus::proof::proof_verify_init',
                  'bbsplus::blind::calculate_b']
    n_msg = 0
    per_fn = {}
    for fn in fns:
        if fn not in prog.bodies:
            raise AnchorMissing(fn)
        if per_fn:
            last = list(per_fn)[-1]
            per_fn[last] = n_msg - per_fn[last]
        per_fn[fn] = n_msg
        todo = [(fn, None)]
        # helpers that receive a slice of generator points
        for bi, t in prog.bodies[fn].calls():
            tgt = local_target(eng, t)
            if tgt and tgt in prog.bodies and tgt != fn and prog.bodies[tgt].kind != 'Closure' and tgt.startswith(('bbsplus::', 'utils::')) \
                    and any(r['helper_param'] is not None for r in generator_pairings(ctx, cfg, tgt)):
                todo.append((tgt, (fn, t)))
        for (f, via) in todo:
            recs = generator_pairings(ctx, cfg, f)
            for k, r in enumerate(recs):
                key = '%s#pairing[%d]' % (f if via is None else '%s>%s' % (fn, f.split('::')[-1]), k)
                start = r['start']
                if r['helper_param'] is not None:
                    if via is None:
                        continue          # a slice parameter of the listed function itself: nothing to anchor the offset to
                    czf = za.zf(fn)
                    arg = via[1]['args'][r['helper_param'] - 1]
                    cont = _position_container(czf, arg) if arg['k'] in ('copy', 'move') else None
                    org = czf.slice_origin(cont) if cont is not None else None
                    start = org[1] if (org and _is_generator_values(czf, org[0])) else None
                    if start is None and r['kind'] == 'helper-scalars':
                        continue          # the helper is used here on a list that is not the generator list (blind generators, masks): not an H-offset question
                if r['kind'] == 'helper-scalars' and via is not None:
                    # helper(base, points, scalars): points[k] meets the k-th item of `scalars`; at this call the items are the values of a message list
                    czf = za.zf(fn)
                    sarg = via[1]['args'][r['scalar_param'] - 1]
                    cont = _position_container(czf, sarg)
                    sorg = czf.slice_origin(cont) if cont is not None else None
                    sty = czf.body.local_ty(sorg[0][1]) if sorg and sorg[0][0] == 'cont' else ''
                    same = r['same_iteration']
                    how = 'one zip'
                    if r.get('index_param') is not None:
                        # helper(base, H, indexes, scalars): the k-th scalar meets H[k-th index]; with `0..L` as indexes that is H[k]
                        iarg = via[1]['args'][r['index_param'] - 1]
                        rng = None
                        if iarg['k'] in ('copy', 'move') and not iarg['pl'].get('p'):
                            d0 = czf.single_def(iarg['pl']['l'])
                            if d0 and d0[0] == 'assign' and d0[2]['rv']['k'] == 'agg' and d0[2]['rv'].get('name') == 'std::ops::Range':
                                rng = (czf.term_op(d0[2]['rv']['ops'][0]), czf.term_op(d0[2]['rv']['ops'][1]))
                        if rng is not None:
                            same = rng[0] == (None, 0)
                            how = 'index range %s..%s zipped with the scalars' % (tfmt(rng[0]), tfmt(rng[1]))
                        else:
                            # an index list: every index addresses H (offset judged here, positions by the index-list rules RF-L)
                            if start is not None:
                                yield Ob('RF-M', key + ':H-offset', start == (None, 1), 'generators addressed by message position are taken from generators.values[1..]',
                                         r['where'], fact={'generator_slice_start': tfmt(start), 'through': f.split('::')[-1]}, expected='1')
                            continue
                    if sorg and 'BBSplusMessage' in sty:
                        n_msg += 1
                        yield Ob('RF-M', key + ':H-offset', start == (None, 1) and sorg[1] == (None, 0),
                                 'the generators multiplied with messages are taken from generators.values[1..] (H_i = values[i + 1])', r['where'],
                                 fact={'generator_slice_start': tfmt(start), 'message_slice_start': tfmt(sorg[1]), 'through': f.split('::')[-1]}, expected='1 / 0')
                        yield Ob('RF-M', key + ':position', same is True,
                                 'message i is multiplied with the generator at the same position of the H slice', r['where'],
                                 fact={'same_iteration': same, 'how': how, 'through': f.split('::')[-1]}, expected='one zip')
                    continue
                if r['kind'] == 'domain':
                    pos = ZoneSum(start, r['gpos'])
                    yield Ob('RF-M', key + ':Q1', pos == (None, 0), 'the domain scalar multiplies generators.values[0]', r['where'],
                             fact={'slice_start': tfmt(start), 'index': tfmt(r['gpos'])}, expected='values[0]')
                elif r['kind'] == 'message':
                    n_msg += 1
                    ok_off = start == (None, 1) and r['mstart'] == (None, 0)
                    if r['indexed_by_list']:
                        ok_pos = True          # H[i_k] * m_k with i_k the k-th element of an index list: positions are the business of the index-list rules
                    elif r['gpos'] is not None and r['mpos'] is not None:
                        ok_pos = r['gpos'] == r['mpos']
                    else:
                        ok_pos = r['same_iteration'] is True
                    yield Ob('RF-M', key + ':H-offset', ok_off, 'the generators multiplied with messages are taken from generators.values[1..] (H_i = values[i + 1])', r['where'],
                             fact={'generator_slice_start': tfmt(start), 'message_slice_start': tfmt(r['mstart'])}, expected='1 / 0')
                    yield Ob('RF-M', key + ':position', ok_pos, 'message i is multiplied with the generator at the same position of the H slice', r['where'],
                             fact={'generator_index': tfmt(r['gpos']), 'message_index': tfmt(r['mpos']), 'same_iteration': r['same_iteration'],
                                   'generator_index_is_element_of_index_list': bool(r['indexed_by_list'])}, expected='equal positions')
                elif r['indexed_by_list'] or r['kind'] == 'other':
                    if start is not None:
                        yield Ob('RF-M', key + ':H-offset', start == (None, 1) or (start == (None, 0) and r['gpos'] is not None and r['gpos'][0] is None),
                                 'generators addressed by message position are taken from generators.values[1..]', r['where'],
                                 fact={'generator_slice_start': tfmt(start), 'index': tfmt(r['gpos'])}, expected='1')
    if per_fn:
        last = list(per_fn)[-1]
        per_fn[last] = n_msg - per_fn[last]
    # every listed function folds its message list with the H generators: a body in which no such product can be recognised is not "fine", the
    # pairing in it is simply not established (fail closed)
    for fn, k in per_fn.items():
        if k >= 1:
            yield Ob('RF-M', '%s#pairing-recognised' % fn, True, 'a product of a message scalar with an element of the generator list is recognised in this function (or in a helper it hands the H slice to)',
                     prog.bodies[fn].span, fact={'message_products': k}, expected='>= 1', nontrivial=False)
            continue
        # nothing recognised: a violation when the generator list is indexed inside a loop of this very body (the products are here, in a form
        # that establishes no pairing), undecided when the body has handed the list on
        b = prog.bodies[fn]
        za.summary(fn)
        zf = za.zf(fn)
        loop_blocks = set()
        for h, blocks in zf.loops:
            loop_blocks |= set(blocks)
        here = any(s_.kind == 'bounds' and s_.block in loop_blocks for s_ in zf.sites)
        yield Ob('RF-M', '%s#pairing-recognised' % fn, False if here else None,
                 'no product of a message scalar with the generator of its position is recognised' + (' although lists are indexed in a loop of this function' if here else ' (handed on: not judged here)'),
                 b.span, fact={'message_products': 0, 'indexing_in_loops_here': here}, expected='>= 1', nontrivial=here)
    yield Ob('RF-M', 'crate#message-pairings', n_msg >= 3, 'generator / message products examined', '', fact=n_msg, expected='>= 3', nontrivial=False)


def _position_container(zf, op, depth=0):
    """the container whose k-th element becomes the k-th item of an iterator operand, through adaptors that keep positions
    (iter / into_iter / map / copied / cloned / by_ref / inspect)"""
    if op is None or op.get('k') not in ('copy', 'move') or depth > 10:
        return None
    pl = op['pl']
    if any(q['k'] != 'deref' for q in pl.get('p', [])):
        return None
    ty = zf.body.local_ty(pl['l']).replace('&mut ', '').lstrip('&').strip()
    if ty.startswith(('[', 'std::vec::Vec<')):
        return zf.desc_place(pl)
    d = zf.single_def(pl['l'])
    if d is None:
        return None
    kind, bi, x = d
    if kind == 'assign' and not x['dst'].get('p'):
        rv = x['rv']
        if rv['k'] == 'use' and rv['op']['k'] in ('copy', 'move'):
            return _position_container(zf, rv['op'], depth + 1)
        if rv['k'] in ('ref', 'rawptr'):
            return _position_container(zf, {'k': 'copy', 'pl': rv['pl']}, depth + 1)
        return None
    if kind == 'call' and x['args'] and (x.get('callee') or '') in (
            'core::slice::<impl [T]>::iter', 'std::iter::IntoIterator::into_iter', 'std::iter::Iterator::map', 'std::iter::Iterator::copied',
            'std::iter::Iterator::cloned', 'std::iter::Iterator::by_ref', 'std::iter::Iterator::inspect', 'std::ops::Deref::deref', 'std::vec::Vec::<T, A>::as_slice'):
        return _position_container(zf, x['args'][0], depth + 1)
    return None


def ZoneSum(a, b):
    if a is None or b is None:
        return None
    if a[0] is None:
        return (b[0], a[1] + b[1])
    if b[0] is None:
        return (a[0], a[1] + b[1])
    return None


def rule_cl03_signature_codec(ctx, cfg='prod-all'):
    """CL03 signature octets: the reader takes e, s and v from the offsets at which the writer puts them (e: le octets, s: ls octets, v: the rest)."""
    prog = ctx.prog(cfg)
    w = [p for p in prog.bodies if p.startswith('cl03::signature::') and p.endswith('>::to_bytes')]
    r = [p for p in prog.bodies if p.startswith('cl03::signature::') and p.endswith('>::from_bytes')]
    if len(w) != 1 or len(r) != 1:
        raise AnchorMissing('CL03 signature codec functions')
    wl = writer_layout(ctx, cfg, w[0])
    rl = reader_layout(ctx, cfg, r[0], 'CL03Signature') or {}

    def parse(sx):
        if sx is None:
            return None
        if sx.lstrip('-').isdigit():
            return (None, int(sx))
        if '+' in sx and sx.rsplit('+', 1)[1].isdigit():
            return (sx.rsplit('+', 1)[0], int(sx.rsplit('+', 1)[1]))
        return (sx, 0)
    off = (None, 0)
    exp = {}
    for f, width, kind in wl:
        if kind != 'append' or len(f) != 1 or off is None:
            off = None
            break
        wt = parse(width)
        end = ZoneSum(off, wt) if wt is not None else None
        exp[f[0]] = (tfmt(off), tfmt(end) if end is not None else None)
        off = end
    got = {k: v for k, v in rl.items()}
    if any(kind != 'append' for f, width, kind in wl):
        # the writer is not a plain sequence of appends (e.g. it fills pre-sized slots in place): this comparison cannot judge it
        yield Ob('RF-N', 'cl03::signature#reader~writer', None, 'the reader takes e, s and v from the offsets at which the writer puts them', r[0],
                 fact={'writer_events': [(f, kind) for f, width, kind in wl], 'reader': got}, expected='equal offsets')
        return
    ok = bool(exp) and all(got.get(f) is not None and got[f][0] == exp[f][0] for f in exp) and set(exp) == {'e', 's', 'v'}
    # the last field takes the rest of the input; the fixed ones must also end where the writer ends them
    ok = ok and all(got[f][1] == exp[f][1] for f in ('e', 's') if f in got and got[f] is not None)
    yield Ob('RF-N', 'cl03::signature#reader~writer', ok, 'the reader takes e, s and v from the offsets at which the writer puts them', r[0],
             fact={'writer': exp, 'reader': got}, expected='equal offsets')



def rule_cl03_key_codecs(ctx, cfg='prod-all'):
    """CL03PublicKey / CL03SecretKey octets: `from_bytes` reads every field from the octets at which `to_bytes` puts it.  Both sides are written in
    the ciphersuite constants (`ln`, `SECPARAM / 8 + 1`); the widths of the writer's buffers, in the order in which they are appended, and the
    bounds of the reader's slices are evaluated as functions of those constants (two assignments) and compared field by field."""
    import rf_senses
    prog, eng = ctx.prog(cfg), ctx.eng(cfg)
    n = 0
    for ty in ('cl03::keys::CL03PublicKey', 'cl03::keys::CL03SecretKey'):
        w, r = prog.bodies.get(ty + '::to_bytes'), prog.bodies.get(ty + '::from_bytes')
        if w is None or r is None:
            raise AnchorMissing(ty + ' codec functions')
        wfd, rfd = eng.fndep(w.path), eng.fndep(r.path)
        fields = [f['name'] for v in prog.adts[ty]['variants'] for f in v['fields']]
        per_env = []
        for val in rf_senses._envs():
            # writer: buffers `vec![0u8; width]` in program order (one per field, appended in the order of the fields)
            widths = [rf_senses._const_eval(wfd, t['args'][1], val) for bi, t in w.calls() if (t.get('callee') or '').endswith('from_elem') and len(t['args']) == 2]
            appends = sum(1 for bi, t in w.calls() if (t.get('callee') or '').endswith('extend_from_slice'))
            # reader: the slice each field is decoded from
            got = {}
            for bi, st in r.stmts():
                rv = st.get('rv') or {}
                if st['k'] == 'assign' and rv.get('k') == 'agg' and rv.get('ak') == 'adt' and str(rv.get('name', '')).endswith(ty.split('::')[-1]):
                    for fname, o in zip(rv.get('fields') or [], rv.get('ops') or []):
                        got[fname] = _slice_bounds(r, rfd, o, val)
            per_env.append((widths, appends, got))
        ok = True
        detail = {}
        for widths, appends, got in per_env:
            if len(widths) != len(fields) or appends != len(fields) or any(x is None for x in widths):
                # the writer is not one zero-filled buffer per field, appended in order (it fills one buffer in place, say): this comparison
                # cannot judge it - undecided, not a violation
                ok = None
                detail['writer_not_in_the_known_form'] = {'buffers': widths, 'appends': appends, 'fields': fields}
                break
            off = 0
            for f, wd in zip(fields, widths):
                exp = (off, off + wd)
                if got.get(f) is None:
                    ok = None if ok is not False else ok      # the reader's slice could not be followed
                    detail[f] = {'reader': 'not followed'}
                elif got.get(f) != exp:
                    ok = False
                    detail[f] = {'writer_puts_it_at': exp, 'reader_takes': got.get(f)}
                off += wd
        n += 1
        yield Ob('RF-N', '%s#reader~writer' % ty, ok, 'every field is read from the octets it was written to (offsets evaluated in the ciphersuite constants)', r.span,
                 fact=detail or {'fields': fields, 'agree_at': 'two assignments of the constants'}, expected='equal offsets')
    yield Ob('RF-N', 'cl03::keys#codecs', n == 2, 'key codecs examined', '', fact=n, expected='2', nontrivial=False)


def _slice_bounds(b, fd, op, val, depth=0):
    """(start, end) of the sub-slice `bytes[a..b]` an operand was decoded from (through `from_digits`, borrows, conversions); an inclusive range
    ends one later"""
    import rf_senses
    if op is None or op.get('k') not in ('copy', 'move') or depth > 10:
        return None
    ds = [d for d in fd.defs.get(op['pl']['l'], []) if not d[2].get('dst', {}).get('p')]
    if len(ds) != 1:
        return None
    kind, _bi, x = ds[0]
    if kind == 'assign':
        rv = x['rv']
        if rv['k'] in ('use', 'cast'):
            return _slice_bounds(b, fd, rv['op'], val, depth + 1)
        if rv['k'] == 'ref':
            return _slice_bounds(b, fd, {'k': 'copy', 'pl': {'l': rv['pl']['l']}}, val, depth + 1)
        if rv['k'] == 'agg' and str(rv.get('name', '')).endswith(('ops::Range', 'range::Range')) and len(rv.get('ops') or []) == 2:
            a, e = (rf_senses._const_eval(fd, o, val) for o in rv['ops'])
            return (a, e) if a is not None and e is not None else None
        return None
    cal = x.get('callee') or ''
    args = x.get('args') or []
    if cal.endswith('RangeInclusive::<Idx>::new') and len(args) == 2:
        a, e = (rf_senses._const_eval(fd, o, val) for o in args)
        return (a, e + 1) if a is not None and e is not None else None
    if cal.endswith(('Index::index', 'from_digits', 'From::from', 'Deref::deref', 'Integer::from_digits')) and args:
        # Index::index(bytes, range): the range is the second operand
        if cal.endswith('Index::index') and len(args) == 2:
            return _slice_bounds(b, fd, args[1], val, depth + 1)
        return _slice_bounds(b, fd, args[0], val, depth + 1)
    return None



def rule_domain_term_on_every_path(ctx, cfg='prod-all'):
    """B = P1 + Q_1 * domain + sum H_i * m_i: the signer, the verifier, the blind signer and both proof functions compute `domain` and add
    `Q_1 * domain` - for *every* number of messages, the empty list included.  In every function that calls `calculate_domain`: a product with the
    domain as one factor is formed in the function's own body, in a block that dominates every success return.  (Folded into the closure of
    `msg_terms.map_or(IDENTITY, |sum| Q1 * domain + sum)` the term is dropped exactly when there is no message: signing and verifying then
    disagree for L = 0, which no fixture visits.)"""
    from flow import accept_blocks
    prog, eng = ctx.prog(cfg), ctx.eng(cfg)
    n = 0
    for p, b in sorted(prog.bodies.items()):
        if not p.startswith('bbsplus::') or b.from_expansion or b.kind == 'Closure':
            continue
        fd = eng.fndep(p)
        doms = [(bi, t) for bi, t in b.calls() if (local_target(eng, t) or '').endswith('::calculate_domain')]
        if not doms:
            continue
        n += 1
        acc = [bi for bi, kind, extra in accept_blocks(fd)] or list(b.exits)
        # the local(s) holding the domain: the payload of the call's Result, through `?` and copies
        holders = set()
        work = [t['dst']['l'] for bi, t in doms]
        for _ in range(40):
            if not work:
                break
            l = work.pop()
            if l in holders:
                continue
            holders.add(l)
            for l2, ds in fd.defs.items():
                for kind, bi2, x in ds:
                    ops = []
                    if kind == 'assign':
                        rv = x['rv']
                        ops = [rv.get('op')] if rv.get('k') in ('use', 'cast') else []
                    elif kind == 'call' and (x.get('callee') or '').endswith(('Try::branch', 'From::from', 'Clone::clone', 'Into::into')):
                        ops = x['args'][:1]
                    if any(isinstance(o, dict) and o.get('k') in ('copy', 'move') and o['pl']['l'] == l for o in ops):
                        work.append(l2)
        prods = [bi for bi, t in b.calls() if (t.get('callee') or '').endswith(('Mul::mul', 'MulAssign::mul_assign'))
                 and any(a.get('k') in ('copy', 'move') and a['pl']['l'] in holders for a in t['args'])]
        # the domain put into a list of scalars for a multi-scalar multiplication (`scalars[0] = domain`), or handed to one
        for bi, st in b.stmts():
            rv = st.get('rv') or {}
            if st['k'] == 'assign' and st['dst'].get('p') and rv.get('k') == 'use' and rv['op'].get('k') in ('copy', 'move') and rv['op']['pl']['l'] in holders:
                prods.append(bi)
            if st['k'] == 'assign' and rv.get('k') == 'agg' and rv.get('ak') in ('array', 'tuple') and any(o.get('k') in ('copy', 'move') and o['pl']['l'] in holders for o in rv.get('ops') or []):
                prods.append(bi)
        ok = bool(prods) and any(all(b.dominates(pb, a) for a in acc) for pb in prods)
        if not ok:
            # the domain handed to a function of the crate that forms the product (a shared `compute_b(.., domain, ..)`): judged there
            for bi, t in b.calls():
                tg = local_target(eng, t)
                if tg is None or tg not in prog.bodies or not all(b.dominates(bi, a) for a in acc):
                    continue
                for k, a_ in enumerate(t['args']):
                    if a_.get('k') in ('copy', 'move') and a_['pl']['l'] in holders and k + 1 <= prog.bodies[tg].arg_count:
                        cb = prog.bodies[tg]
                        cfd = eng.fndep(tg)
                        cacc = [x for x, kd, ex in accept_blocks(cfd)] or list(cb.exits)
                        cpr = [cbi for cbi, ct in cb.calls() if (ct.get('callee') or '').endswith(('Mul::mul', 'MulAssign::mul_assign'))
                               and any(o.get('k') in ('copy', 'move') and cfd.resolve_place(o['pl'])[0] == k + 1 for o in ct['args'])]
                        stores = [cbi for cbi, st_ in cb.stmts() if st_['k'] == 'assign' and st_['dst'].get('p') and (st_.get('rv') or {}).get('k') == 'use'
                                  and st_['rv']['op'].get('k') in ('copy', 'move') and cfd.resolve_place(st_['rv']['op']['pl'])[0] == k + 1]
                        if (cpr + stores) and any(all(cb.dominates(pb, a2) for a2 in cacc) for pb in cpr + stores) and cb.kind != 'Closure':
                            ok = True
        yield Ob('RF-P', '%s#domain-term' % p, ok, 'Q_1 * domain is formed in the function itself, on every path to a success return', b.span,
                 fact={'products_with_the_domain': len(prods), 'success_returns': len(acc)}, expected='a product that dominates every success return')
    yield Ob('RF-P', 'bbsplus#domain-terms', n >= 3, 'functions that compute the domain', '', fact=n, expected='>= 3', nontrivial=False)
