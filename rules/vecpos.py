"""Where inside a vector does a value come from?

`positions(ctx, cfg, fn, local)` follows a local backwards - through copies, references, struct fields, slice patterns,
`Index::index`, `?`/`unwrap`-like pass-throughs, helper functions that build a struct from a slice, and up through the
parameters of `fn` into every caller - until it reaches the call that produced the vector (a `root` callee suffix).
The answer is a set of positions relative to that vector:

    ('idx', k)            element k
    ('rng', a, b)         elements a .. b   (terms of the zone domain in the function where the range was taken;
                                            b is None for "to the end")
    None (in the set)     some path could not be followed

Only the *shape* of the access path is analysed; no code is run.
"""
from flow import local_target

ITER_VIEWS = ('core::slice::<impl [T]>::iter', 'std::iter::IntoIterator::into_iter', 'std::iter::Iterator::by_ref', 'std::iter::Iterator::collect',
              'std::iter::Iterator::copied', 'std::iter::Iterator::cloned', 'std::iter::Iterator::rev')
WRAPPERS = ('std::option', 'core::option', 'std::result', 'core::result', 'std::ops::ControlFlow', 'core::ops::ControlFlow')
PASS = ('std::ops::Try::branch', 'std::ops::FromResidual::from_residual', 'std::option::Option::<T>::ok_or', 'std::option::Option::<T>::ok_or_else',
        'std::result::Result::<T, E>::map_err', 'std::option::Option::<T>::unwrap', 'std::result::Result::<T, E>::unwrap',
        'std::option::Option::<T>::expect', 'std::result::Result::<T, E>::expect', 'std::ops::Deref::deref', 'std::clone::Clone::clone',
        'std::convert::AsRef::as_ref', 'std::vec::Vec::<T, A>::as_slice', 'std::borrow::Borrow::borrow', 'std::option::Option::<T>::copied',
        'std::option::Option::<T>::cloned', 'std::convert::Into::into', 'std::convert::From::from')


def _norm(ps):
    """drop derefs, downcasts and the payload fields of Option / Result / ControlFlow."""
    out = []
    for p in ps:
        if p['k'] in ('deref', 'downcast'):
            continue
        if p['k'] == 'field' and str(p.get('adt', '')).startswith(WRAPPERS):
            continue
        out.append(p)
    return out


class Tracer:
    def __init__(self, ctx, cfg, roots):
        self.ctx, self.cfg = ctx, cfg
        self.prog, self.eng, self.za = ctx.prog(cfg), ctx.eng(cfg), ctx.zone(cfg)
        self.roots = roots
        self._callers = None
        self.visited_fns = set()
        self.terminals = set()      # where the backward walk ended: ('param', fn, name) at a function nobody calls, ('call', callee) at an opaque call

    def callers(self, fn):
        if self._callers is None:
            self._callers = {}
            for b in self.prog.bodies.values():
                for bi, t in b.calls():
                    tgt = local_target(self.eng, t)
                    if tgt:
                        self._callers.setdefault(tgt, []).append((b.path, t))
        return self._callers.get(fn, [])

    def zf(self, fn):
        self.za.summary(fn)
        self.visited_fns.add(fn)
        return self.za.zf(fn)

    # pending: list of steps applied to the value of the local, outermost first:
    #   ('f', name) struct field, ('idx', k), ('rng', a, b)
    def _steps(self, zf, ps):
        out = []
        for p in _norm(ps):
            if p['k'] == 'field':
                out.append(('f', p['n']))
            elif p['k'] == 'cindex':
                out.append(('idx', p['off']) if not p['from_end'] else ('idx_end', p['off']))
            elif p['k'] == 'subslice':
                out.append(('rng', (None, p['from']), None if (p['from_end'] and p['to'] == 0) else (('end-', p['to']) if p['from_end'] else (None, p['to']))))
            elif p['k'] == 'index':
                t = zf.term_local(p['l'])
                out.append(self._index_step(zf, t))
            else:
                out.append(('?', p['k']))
        return out

    def _index_step(self, zf, t):
        """the step for `v[t]`: a constant position, or - inside a closure mapped over `a..b` whose argument is the index variable - the
        positions a + c .. b + c, one per item of the mapped range (`(0..M).map(|i| T { m: v[i + 2], .. })`)"""
        if t is not None and t[0] is None:
            return ('idx', t[1])
        if t is not None and t[0] == 'p2' and zf.body.kind == 'Closure':
            cc = zf.closure_ctx()
            if cc is not None and cc[3] is not None:
                pzf, _cb, _caps, (cbi, call) = cc
                if (call.get('callee') or '') in ('std::iter::Iterator::map', 'std::iter::Iterator::for_each', 'std::iter::Iterator::filter_map') and call['args']:
                    cont = pzf.iter_container(call['args'][0])
                    if cont is not None and cont[0] == 'rangeiter' and cont[2] is not None and cont[3] is not None:
                        a, b = cont[2], cont[3]
                        return ('rng', (a[0], a[1] + t[1]), (b[0], b[1] + t[1]))
        return ('idx?', None)

    def trace_op(self, fn, op, pending, depth=0):
        if op['k'] not in ('copy', 'move'):
            return {None}
        zf = self.zf(fn)
        return self.trace(fn, op['pl']['l'], self._steps(zf, op['pl'].get('p', [])) + pending, depth)

    def trace(self, fn, l, pending, depth=0):
        if depth > 40:
            return {None}
        zf = self.zf(fn)
        body, fd = zf.body, zf.fd
        if fd.is_param(l):
            return self._up(fn, l, pending, depth)
        ds = fd.defs.get(l, [])
        ds = [d for d in ds if not any(q['k'] == 'deref' for q in (d[2].get('dst', {}).get('p') or []))]
        out = set()
        n_real = 0
        for d in ds:
            if d[2].get('dst', {}).get('p'):
                # partial write `l.f = ..`: relevant only when the pending path starts with that field
                dp = self._steps(zf, d[2]['dst']['p'])
                if pending[:len(dp)] != dp:
                    continue
                rest = pending[len(dp):]
            else:
                rest = pending
            if d[0] == 'assign':
                rv = d[2]['rv']
                if rv['k'] in ('use', 'cast') and rv['op']['k'] in ('copy', 'move'):
                    out |= self.trace(fn, rv['op']['pl']['l'], self._steps(zf, rv['op']['pl'].get('p', [])) + rest, depth + 1)
                elif rv['k'] == 'ref':
                    out |= self.trace(fn, rv['pl']['l'], self._steps(zf, rv['pl'].get('p', [])) + rest, depth + 1)
                elif rv['k'] == 'agg' and rv.get('ak') == 'adt' and rv['name'].split('::')[-1] in ('Result', 'Option', 'ControlFlow'):
                    if rv.get('variant') in ('Err', 'None', 'Break'):
                        continue            # the failing arm carries no element
                    out |= self.trace_op(fn, rv['ops'][0], rest, depth + 1) if rv['ops'] else {None}
                elif rv['k'] == 'agg' and rv.get('ak') in ('adt', 'tuple') and rest and rest[0][0] == 'f' and rest[0][1] in [str(f) for f in rv['fields']]:
                    o = rv['ops'][[str(f) for f in rv['fields']].index(rest[0][1])]
                    out |= self.trace_op(fn, o, rest[1:], depth + 1)
                else:
                    out.add(None)
                n_real += 1
            elif d[0] == 'call':
                t = d[2]
                cal = t.get('callee') or ''
                tgt = local_target(self.eng, t)
                n_real += 1
                if any(tgt and tgt.endswith(r) or cal.endswith(r) for r in self.roots):
                    self._terminal(('root', tgt or cal))
                    out.add(self._position(rest))
                elif cal == 'std::ops::Index::index' and len(t['args']) == 2:
                    r = zf._range_arg(t['args'][1])
                    if r is not None:
                        step = {'range': ('rng', r[1], r[2]), 'from': ('rng', r[1], None), 'to': ('rng', (None, 0), r[2]), 'full': ('rng', (None, 0), None)}.get(r[0])
                        out |= self.trace_op(fn, t['args'][0], [step] + rest, depth + 1) if step else {None}
                    else:
                        kt = zf.term_op(t['args'][1])
                        out |= self.trace_op(fn, t['args'][0], [self._index_step(zf, kt)] + rest, depth + 1)
                elif cal in ('core::slice::<impl [T]>::split_at', 'core::slice::<impl [T]>::split_first', 'core::slice::<impl [T]>::split_at_checked') and rest and rest[0][0] == 'f':
                    which = rest[0][1]
                    if cal.endswith('split_first'):
                        step = ('idx', 0) if which == '0' else ('rng', (None, 1), None)
                    else:
                        k = zf.term_op(t['args'][1])
                        step = ('rng', (None, 0), k) if which == '0' else ('rng', k, None)
                    out |= self.trace_op(fn, t['args'][0], [step] + rest[1:], depth + 1)
                elif cal in ('core::slice::<impl [T]>::get', 'core::slice::<impl [T]>::get_unchecked') and len(t['args']) == 2:
                    r = zf._range_arg(t['args'][1])
                    if r is not None and r[0] in ('range', 'from', 'to'):
                        step = ('rng', r[1] if r[1] is not None else (None, 0), r[2])
                    else:
                        kt = zf.term_op(t['args'][1])
                        step = ('idx', kt[1]) if kt is not None and kt[0] is None else ('idx?', None)
                    out |= self.trace_op(fn, t['args'][0], [step] + rest, depth + 1)
                elif cal in PASS and t['args']:
                    out |= self.trace_op(fn, t['args'][0], rest, depth + 1)
                elif cal == 'std::iter::Iterator::next' and t['args']:
                    # one item of an iteration: some element of what is iterated
                    out |= self.trace_op(fn, t['args'][0], [('each',)] + rest, depth + 1)
                elif cal in ITER_VIEWS and t['args']:
                    out |= self.trace_op(fn, t['args'][0], rest, depth + 1)
                elif cal in ('std::iter::Iterator::map',) and len(t['args']) == 2 and rest and rest[0] == ('each',) and t['args'][1]['k'] in ('copy', 'move'):
                    # an item of `iter.map(closure)`: what the closure returns
                    ci = fd._closure_info(t['args'][1]['pl']['l'])
                    if ci is not None and ci[0] in self.prog.bodies:
                        sub = Tracer(self.ctx, self.cfg, self.roots)
                        sub._outer = self
                        sub._closure_of = (fn, ci[1])
                        for r in sub.trace(ci[0], 0, rest[1:], depth + 1):
                            out.add(r)
                        self.visited_fns |= sub.visited_fns
                    else:
                        out.add(None)
                elif tgt is not None and tgt in self.prog.bodies:
                    # a helper: follow its return value; parameters reached inside come back as this call's arguments
                    out |= self._through(fn, t, tgt, rest, depth + 1)
                else:
                    self._terminal(('call', cal))
                    out.add(None)
        if n_real == 0:
            out.add(None)
        return out

    def _terminal(self, t):
        tr = self
        while tr is not None:
            tr.terminals.add(t)
            tr = getattr(tr, '_outer', None)

    def _through(self, fn, call, tgt, pending, depth):
        sub = Tracer(self.ctx, self.cfg, self.roots)
        sub._callers = {tgt: [(fn, call)]}      # parameters of the helper resolve to this call site only
        sub._outer = self
        res = set()
        for r in sub.trace(tgt, 0, pending, depth):
            res.add(r)
        self.visited_fns |= sub.visited_fns
        return res

    def _up(self, fn, l, pending, depth):
        outer = getattr(self, '_outer', None)
        co = getattr(self, '_closure_of', None)
        if co is not None and self.prog.bodies[fn].kind == 'Closure' and l == 1 and pending and pending[0][0] == 'f' and str(pending[0][1]).isdigit() \
                and outer is not None and int(pending[0][1]) < len(co[1]):
            # a captured variable: the operand the closure was built with, in the function that built it
            return outer.trace_op(co[0], co[1][int(pending[0][1])], pending[1:], depth + 1)
        sites = self.callers(fn)
        if not sites:
            self._terminal(('param', fn, self.prog.bodies[fn].local_name(l)))
            return {None}
        out = set()
        for cfn, t in sites:
            k = l - 1
            body = self.prog.bodies[fn]
            if body.kind == 'Closure':
                return {None}
            if k >= len(t['args']):
                out.add(None)
                continue
            tr = outer if (outer is not None) else self
            out |= tr.trace_op(cfn, t['args'][k], pending, depth + 1)
        return out

    def _position(self, pending):
        """collapse the pending steps (applied to the whole vector) to one position."""
        lo = (None, 0)
        hi = None
        for k, st in enumerate(pending):
            if st[0] == 'each':
                continue      # (some element of a range of positions: the range is what the role covers)
            if st[0] == 'idx':
                if lo[0] is not None and st[1] != 0:
                    return None
                return ('idx', lo[1] + st[1]) if lo[0] is None else ('idx@', lo, st[1])
            if st[0] == 'rng':
                a, b = st[1], st[2]
                if a is None:
                    return None
                if lo[0] is None:
                    nlo = (a[0], a[1] + lo[1])
                    nhi = None if b is None else ((b[0], b[1] + lo[1]) if b[0] != 'end-' else b)
                elif a == (None, 0):
                    nlo, nhi = lo, hi if b is None else ('?', 0)
                else:
                    return None
                lo, hi = nlo, nhi
                continue
            return None
        return ('rng', lo, hi)


def positions(ctx, cfg, fn, local, roots):
    tr = Tracer(ctx, cfg, roots)
    res = tr.trace(fn, local, [])
    return res, tr.visited_fns


def named_positions(ctx, cfg, fn, names, roots):
    """{name: set of positions} for user variables of fn (first local carrying each name)."""
    body = ctx.prog(cfg).bodies[fn]
    out = {}
    visited = set()
    for l, loc in enumerate(body.locals):
        nm = loc.get('name')
        if nm in names and nm not in out:
            res, v = positions(ctx, cfg, fn, l, roots)
            out[nm] = res
            visited |= v
    return out, visited
