"""RF-F panic-site census with discharge, on top of zone.py.  Per function: every panic-capable site is
either proven safe from the facts at its block, turned into a precondition over the function's parameters
(re-checked at every call site, up to the entry points), or left `unknown` (reported unless audited)."""
import re
from zone import *
from flow import local_target, callee_matches
from mir import fmt_op, fmt_place


class ZoneAnalysis:
    def __init__(self, eng):
        self.eng = eng
        self.prog = eng.prog
        self._zf = {}
        self._summ = {}
        self._inprog = set()
        self.sums = {}
        self.diffs = {}      # (function, symbol) -> (a, b): the symbol stands for a - b (checked_sub payloads, `a - b` kept opaque)
        self.retexpr = {}    # (function, symbol) -> (callee, call, callee term): the symbol is an integer a local callee returned (see _retrel)
        self._consts = None

    def closure_creator(self, cpath):
        """(creating body path, block, aggregate rvalue) of a closure body"""
        if getattr(self, '_creators', None) is None:
            self._creators = {}
            for p, b in self.prog.bodies.items():
                for bi, st in b.stmts():
                    if st['k'] == 'assign' and st['rv']['k'] == 'agg' and st['rv'].get('ak') == 'closure':
                        self._creators[st['rv']['name']] = (p, bi, st['rv'])
        return self._creators.get(cpath)

    def zf(self, path):
        # closures of a function that is being analysed for one instantiation of its const generics share that instantiation
        ctx = getattr(self, '_cg_ctx', None)
        if ctx and path.startswith(ctx[0] + '::{closure'):
            return self.zf_spec(path, ctx[1])
        if path not in self._zf:
            self._zf[path] = ZoneFn(self, self.prog.bodies[path])
        return self._zf[path]

    # ------------------------------------------------------------ const generics: one analysis per instantiation
    def cg_names(self, path):
        """names of the const generic parameters a body computes with (constant operands that are neither literals nor named constants)"""
        if not hasattr(self, '_cgn'):
            self._cgn = {}
        if path not in self._cgn:
            b = self.prog.bodies[path]
            names = set()
            def look(o):
                if isinstance(o, dict) and o.get('k') == 'const' and o.get('ty') in ('usize', 'u64', 'u32') and 'int' not in o and 'uneval' not in o \
                        and 'promoted' not in o and str(o.get('disp', '')).isidentifier():
                    names.add(o['disp'])
            for blk in b.blocks:
                for st in blk['stmts']:
                    if st['k'] == 'assign':
                        rv = st['rv']
                        for o in [rv.get('op'), rv.get('a'), rv.get('b')] + list(rv.get('ops') or []):
                            look(o)
                if blk['term']['k'] == 'call':
                    for o in blk['term']['args']:
                        look(o)
            # a function that only hands its parameter on (`helper::<N>` calling `i2osp::<N>`) is generic in it too
            for bi, t in b.calls():
                for c in (t.get('cargs') or []):
                    if str(c).isidentifier():
                        names.add(c)
            self._cgn[path] = names
        return self._cgn[path]

    def resolve_cargs(self, zf, t, tgt):
        """{const generic name of the callee: value} for this call, when the callee has one const generic and the call instantiates it with a
        literal (or with a const generic of the caller whose value is known in this analysis)"""
        names = sorted(self.cg_names(tgt))
        cargs = t.get('cargs') or []
        if len(names) != 1 or len(cargs) != 1:
            return None
        c = str(cargs[0])
        if c.isdigit():
            return {names[0]: int(c)}
        if c in zf.cg:
            return {names[0]: zf.cg[c]}
        return None

    def zf_spec(self, path, cg):
        key = (path, tuple(sorted(cg.items())))
        if not hasattr(self, '_spec'):
            self._spec = {}
        if key not in self._spec:
            self._spec[key] = ZoneFn(self, self.prog.bodies[path], cg=dict(cg))
        return self._spec[key]

    def instances(self, path, depth=0):
        """every instantiation {name: value} of a const-generic local function that some call site of the crate makes; None if one cannot be
        resolved to literals"""
        names = sorted(self.cg_names(path))
        if len(names) != 1 or depth > 3:
            return None
        out = []
        found = False
        for p, b in self.prog.bodies.items():
            for bi, t in b.calls():
                if local_target(self.eng, t) != path:
                    continue
                found = True
                cargs = t.get('cargs') or []
                if len(cargs) != 1:
                    return None
                c = str(cargs[0])
                if c.isdigit():
                    inst = {names[0]: int(c)}
                    if inst not in out:
                        out.append(inst)
                else:
                    owner = p if b.kind != 'Closure' else b.j.get('parent_fn', p)
                    sub = self.instances(owner, depth + 1)
                    if sub is None:
                        return None
                    for si in sub:
                        if c in si:
                            inst = {names[0]: si[c]}
                            if inst not in out:
                                out.append(inst)
                        else:
                            return None
        return out if found else None

    def summary_spec(self, path, cg):
        key = (path, tuple(sorted(cg.items())))
        if not hasattr(self, '_summ_spec'):
            self._summ_spec = {}
        if key in self._summ_spec:
            return self._summ_spec[key]
        if key in self._inprog:
            return None
        self._inprog.add(key)
        prev = getattr(self, '_cg_ctx', None)
        self._cg_ctx = (path, dict(cg))
        try:
            zf = self.zf_spec(path, cg)
            self.analyse_sites(zf)
            summ = {'retlen': self._retlen(zf), 'pre': [s for s in zf.sites if s.status == 'pre'], 'post': self._post_ok(zf), 'retlen_lb': self._retlen_lb(zf),
                    'retelem': self._retelem(zf), 'post_true': self._post_true_params(zf), 'retval': self._retval(zf), 'post_none': self._post_none(zf), 'retslice': self._retslice(zf), 'retrel': self._retrel(zf), 'post_lin': self._post_lin(zf),
                    'unknown': [s for s in zf.sites if s.status == 'unknown']}
        finally:
            self._cg_ctx = prev
            self._inprog.discard(key)
        self._summ_spec[key] = summ
        return summ

    def _feasible_blocks(self, zf, reach):
        """blocks reachable when branches on comparisons of two constants are taken the only way they can go (one instantiation of a generic
        function, one call site of a closure: `if N >= 8 {..} else {..}` has one live arm)"""
        body = zf.body
        OPS = {'Eq': lambda a, b: a == b, 'Ne': lambda a, b: a != b, 'Lt': lambda a, b: a < b, 'Le': lambda a, b: a <= b,
               'Gt': lambda a, b: a > b, 'Ge': lambda a, b: a >= b}

        def const_bool(l, depth=0):
            d = zf.single_def(l)
            if not d or depth > 4 or d[0] != 'assign':
                return None
            rv = d[2]['rv']
            if rv['k'] == 'binop' and rv['op'] in OPS:
                a, b = zf.term_op(rv['a']), zf.term_op(rv['b'])
                if a is not None and b is not None and a[0] is None and b[0] is None:
                    return OPS[rv['op']](a[1], b[1])
            if rv['k'] == 'unop' and rv['op'] == 'Not' and rv['a']['k'] in ('copy', 'move') and not rv['a']['pl'].get('p'):
                v = const_bool(rv['a']['pl']['l'], depth + 1)
                return None if v is None else (not v)
            if rv['k'] == 'use' and rv['op']['k'] in ('copy', 'move') and not rv['op']['pl'].get('p'):
                return const_bool(rv['op']['pl']['l'], depth + 1)
            return None

        seen, st = set(), [0]
        while st:
            b = st.pop()
            if b in seen or b not in reach:
                continue
            seen.add(b)
            t = body.blocks[b]['term']
            succ = list(body.succ[b])
            if t['k'] == 'switch' and t['discr']['k'] in ('copy', 'move') and not t['discr']['pl'].get('p'):
                l = t['discr']['pl']['l']
                v = const_bool(l) if body.local_ty(l) == 'bool' else None
                if v is None and body.local_ty(l) in ('usize', 'u64', 'u32', 'u8', 'isize', 'i8', 'i32'):
                    tt = zf.term_local(l)
                    if tt is not None and tt[0] is None:
                        v = tt[1]
                if v is not None:
                    val = str(int(v))
                    hit = [x for vv, x in t['targets'] if vv == val]
                    succ = hit if hit else ([t['otherwise']] if t.get('otherwise') is not None else succ)
            st.extend(succ)
        return seen

    def _judge_generic_sites(self, zf):
        """sites of a const-generic function that the generic analysis leaves open: decided per instantiation the crate makes (preconditions of
        an instantiation are checked at the call sites that make it)"""
        path = zf.body.path
        if zf.cg or not any(s.status == 'unknown' for s in zf.sites):
            return
        closure = zf.body.kind == 'Closure'
        owner = zf.body.j.get('parent_fn', path) if closure else path
        if owner not in self.prog.bodies or not (self.cg_names(owner) | self.cg_names(path)):
            return
        # a closure of a const-generic function (`core::array::from_fn(|k| .. N ..)`) is judged under the instantiations of that function
        insts = self.instances(owner)
        if not insts:
            return
        per = []
        for cg in insts:
            if not closure:
                summ = self.summary_spec(path, cg)
                if summ is None:
                    return
            spec = self.zf_spec(path, cg)
            if closure and not getattr(spec, '_analysed_as_instance', False):
                prev = getattr(self, '_cg_ctx', None)
                self._cg_ctx = (owner, dict(cg))
                try:
                    self.analyse_sites(spec)
                finally:
                    self._cg_ctx = prev
                spec._analysed_as_instance = True
            m = {}
            for x in spec.sites:
                m.setdefault((x.kind, x.block), []).append(x.status)
            per.append(m)
        for s in zf.sites:
            if s.status != 'unknown':
                continue
            # the sites of the same kind at the same program point in each instantiation (none left = proven or dead there)
            sts = [m.get((s.kind, s.block), []) for m in per]
            if all(all(st.startswith('safe') or st == 'pre' for st in lst) for lst in sts):
                s.status = 'pre'
                s.pre = []
                s.per_instance = ['%s: %s' % (sorted(cg.items()), lst or 'no site') for cg, lst in zip(insts, sts)]

    # ------------------------------------------------------------ constants
    def named_const(self, op):
        """value of a named integer constant operand (evaluated by the driver), if any."""
        if 'int' in op:
            return int(op['int'])
        if 'uneval' in op and 'promoted' not in op:
            if self._consts is None:
                self._consts = {}
                for trait in ('BbsCiphersuite', 'CLCiphersuite'):
                    for ty, cs in self.prog.impl_consts(trait).items():
                        for n, c in cs.items():
                            if c.get('int') is not None:
                                self._consts.setdefault((trait, n), set()).add(int(c['int']))
            parts = op['uneval'].split('::')
            if len(parts) >= 2:
                vals = self._consts.get((parts[-2], parts[-1]))
                if vals and len(vals) == 1:
                    return next(iter(vals))   # every ciphersuite agrees on this constant
        return None

    # ------------------------------------------------------------ Vec built by a counting loop
    def vec_fixed_len(self, zf, root):
        """length of a local Vec at function exit when it is created empty and receives exactly one push per
        iteration of a single counting loop (and nothing else mutates it)."""
        fd, body = zf.fd, zf.body
        ds = fd.defs.get(root, [])
        creators = [d for d in ds if d[0] == 'call' and (d[2].get('callee') or '').endswith(('Vec::<T>::new', 'Vec::<T>::with_capacity', 'vec::from_elem'))]
        if len(ds) != 1 or len(creators) != 1:
            return None
        initial = None
        if (creators[0][2].get('callee') or '').endswith('vec::from_elem'):
            # vec![x; n]: n elements from the start
            initial = zf.term_op(creators[0][2]['args'][1]) if len(creators[0][2]['args']) == 2 else None
            if initial is None:
                return None
        pushes = []
        for bi, t in body.calls():
            cal = t.get('callee') or ''
            for ai, a in enumerate(t['args']):
                if a['k'] in ('copy', 'move') and body.local_ty(a['pl']['l']).startswith('&mut ') and fd.resolve_place(a['pl'])[0] == root:
                    if cal == 'std::vec::Vec::<T, A>::push' and ai == 0:
                        pushes.append(bi)
                    elif cal in MUTATORS_LEN_PRESERVING or cal in DEREF_CALLS or cal in INDEX_CALLS:
                        pass
                    else:
                        return None
            for a in t['args']:
                if a['k'] in ('copy', 'move') and not a['pl'].get('p'):
                    ci = fd._closure_info(a['pl']['l'])
                    if ci:
                        for c in ci[1]:
                            if c['k'] in ('copy', 'move') and body.local_ty(c['pl']['l']).startswith('&mut ') and fd.resolve_place(c['pl'])[0] == root:
                                return None
        if initial is not None:
            return initial if not pushes else None
        if not pushes:
            return (None, 0)
        in_loop = [pb for pb in pushes if any(pb in blocks for h, blocks in zf.loops)]
        if not in_loop:
            # straight-line pushes: each must execute on every path to the normal exits
            exits = body.exits
            ok_exits = [e for e in exits if any(s['k'] == 'assign' and s['dst']['l'] == 0 and s['rv']['k'] == 'agg' and s['rv'].get('variant') in ('Ok', 'Some')
                                                for s in body.blocks[e]['stmts'])] or exits
            accept = [bi for bi, blk in enumerate(body.blocks) if not blk['cleanup'] and any(
                s['k'] == 'assign' and s['dst']['l'] == 0 and ((s['rv']['k'] == 'agg' and s['rv'].get('variant') in ('Ok', 'Some')) or
                                                              (s['rv']['k'] == 'use' and s['rv']['op']['k'] in ('copy', 'move')))
                for s in blk['stmts'])]
            if accept and all(all(body.dominates(pb, a) for a in accept) for pb in pushes):
                return (None, len(pushes))
            return None
        if len(pushes) != 1:
            return None
        pb = pushes[0]
        inner = [(h, blocks) for h, blocks in zf.loops if pb in blocks]
        if len(inner) != 1:
            return None
        h, blocks = inner[0]
        latches = [x for x in blocks if h in body.succ[x]]
        if not all(body.dominates(pb, x) for x in latches):
            return None
        # the loop's `next` call
        for bi in blocks:
            t = body.blocks[bi]['term']
            if t['k'] == 'call' and (t.get('callee') or '') == 'std::iter::Iterator::next':
                rng = zf._range_of_iter(t['args'][0])
                if rng is not None and rng[0] is not None and rng[1] is not None:
                    return tsub(rng[1], rng[0])
                sl = self._slice_of_iter(zf, t['args'][0])
                if sl is not None:
                    return sl
        return None

    def _slice_of_iter(self, zf, arg):
        """`for x in slice` / `slice.iter()` loops: trip count = len(slice)."""
        fd = zf.fd
        if arg['k'] not in ('copy', 'move'):
            return None
        r, p = fd.resolve_place(arg['pl'])
        ds = fd.defs.get(r, [])
        call = None
        for kind, bi, x in ds:
            if kind == 'assign' and x['rv']['k'] == 'use' and x['rv']['op']['k'] in ('copy', 'move'):
                d = zf.single_def(x['rv']['op']['pl']['l'])
                if d and d[0] == 'call':
                    call = d[2]
            elif kind == 'call':
                call = x
        if call is None:
            return None
        cal = call.get('callee') or ''
        if cal == 'std::iter::IntoIterator::into_iter' and call['args'][0]['k'] in ('copy', 'move'):
            a0 = call['args'][0]['pl']
            ty = zf.body.local_ty(a0['l'])
            if ty.startswith('&[') or ty.startswith('&std::vec::Vec'):
                return zf.len_of_place(a0)
            d = zf.single_def(a0['l'])
            if d and d[0] == 'call' and (d[2].get('callee') or '') == 'core::slice::<impl [T]>::iter':
                return zf.len_of_place(d[2]['args'][0]['pl'])
        return None

    # ------------------------------------------------------------ summaries
    def summary(self, path):
        if path in self._summ:
            return self._summ[path]
        if path in self._inprog:
            return None
        self._inprog.add(path)
        zf = self.zf(path)
        self.analyse_sites(zf)
        retlen = self._retlen(zf)
        pre = []
        for s in zf.sites:
            if s.status == 'pre':
                pre.append(s)
        summ = {'retlen': retlen, 'pre': pre, 'post': self._post_ok(zf), 'retlen_lb': self._retlen_lb(zf), 'retelem': self._retelem(zf),
                'post_true': self._post_true_params(zf), 'retval': self._retval(zf), 'post_none': self._post_none(zf), 'retslice': self._retslice(zf), 'retrel': self._retrel(zf), 'post_lin': self._post_lin(zf)}
        self._inprog.discard(path)
        self._summ[path] = summ
        return summ

    def _post_ok(self, zf):
        """facts over parameter symbols that hold at every Ok-returning block."""
        body = zf.body
        accept = []
        for bi, blk in enumerate(body.blocks):
            if blk['cleanup']:
                continue
            for s in blk['stmts']:
                if s['k'] == 'assign' and s['dst']['l'] == 0 and not s['dst'].get('p') and s['rv']['k'] == 'agg' \
                        and s['rv'].get('variant') in ('Ok', 'Some'):
                    accept.append(bi)
                elif s['k'] == 'assign' and s['dst']['l'] == 0 and not s['dst'].get('p') and s['rv']['k'] == 'use' and s['rv']['op']['k'] in ('copy', 'move'):
                    accept.append(bi)      # `let r = f(..); r`: what holds here holds for the Ok among the values returned
            t = blk['term']
            if t['k'] == 'call' and t['dst']['l'] == 0 and not t['dst'].get('p') and 'from_residual' not in (t.get('callee') or '') and t.get('t') is not None:
                accept.append(t['t'])      # tail call (`iter.try_fold(..)`): what dominates the return holds for every value returned, Ok included
        if not accept or not body.local_ty(0).startswith(('std::result::Result', 'std::option::Option')):
            return []
        common = None
        for a in accept:
            fs = set((t1, t2) for (t1, t2) in zf.facts_at(a) if self._param_term_ok(zf, t1) and self._param_term_ok(zf, t2)
                     and not (t1[0] is None and t2[0] is None))
            common = fs if common is None else (common & fs)
        common = set(common or [])
        # what the facts entail about an integer parameter through values that are not parameters: a constant upper bound
        # (`let M = (a.len() + b.len() + U).checked_sub(1)?.checked_sub(L)?` bounds L although the sum is no parameter term)
        for k in range(1, body.arg_count + 1):
            if body.local_ty(k).lstrip('&').strip() not in ('usize', 'u64', 'u32') or k in zf.overrides:
                continue
            t = ('p%d' % k, 0)
            ub = max(zf.upper_bound(t, a) for a in accept)
            if ub < UMAX and ub < zf.sym_ub(t[0]):
                common.add((t, (None, ub)))
        return sorted(common, key=str)

    def _retslice(self, zf):
        """{component path of the return value: (parameter, field path, start, end)} for returned references to a sub-slice of a parameter's
        container (through Ok / Some and tuples): `Ok((*Q1, H_points))` with `(Q1, H_points) = self.values.split_first()?`"""
        body, fd = zf.body, zf.fd
        out = {}

        def comp(path, o):
            if o['k'] not in ('copy', 'move'):
                return
            ty = body.local_ty(o['pl']['l']).replace('&mut ', '').lstrip('&').strip()
            if not o['pl'].get('p') and not ty.startswith(('[', 'std::vec::Vec<')):
                # maybe an aggregate built just before: descend
                d = zf.single_def(o['pl']['l'])
                if d and d[0] == 'assign' and d[2]['rv']['k'] == 'agg' and d[2]['rv'].get('ak') in ('tuple', 'adt') and len(path) < 3:
                    rv = d[2]['rv']
                    names = [str(i) for i in range(len(rv['ops']))] if rv['ak'] == 'tuple' else [str(f) for f in rv['fields']]
                    wrapper = rv['ak'] == 'adt' and rv['name'].split('::')[-1] in ('Result', 'Option')
                    for nm, o2 in zip(names, rv['ops']):
                        comp(path if wrapper else path + (nm,), o2)
                return
            so = zf.slice_origin(zf.desc_place(o['pl']))
            if so is None:
                return
            root, st, en = so
            if root[0] == 'cont' and fd.is_param(root[1]) and st is not None and self._param_term_ok(zf, st):
                prev = out.get(path)
                cur = (root[1], tuple(root[2]), st, en if (en is not None and self._param_term_ok(zf, en)) else None)
                out[path] = cur if prev is None or prev == cur else False

        for kind, bi, x in fd.defs.get(0, []):
            if kind == 'assign' and not x['dst'].get('p') and x['rv']['k'] == 'agg':
                rv = x['rv']
                if rv.get('variant') in ('Err', 'None'):
                    continue
                names = [str(i) for i in range(len(rv['ops']))] if rv.get('ak') == 'tuple' else [str(f) for f in (rv.get('fields') or [])]
                wrapper = rv.get('ak') == 'adt' and rv['name'].split('::')[-1] in ('Result', 'Option')
                for nm, o in zip(names, rv['ops']):
                    comp(() if wrapper else (nm,), o)
        return {k: v for k, v in out.items() if v}

    def _post_none(self, zf):
        """facts over parameter symbols that hold whenever an Option-returning function returns None: a search helper
        (`indexes.iter().copied().find(|&i| i >= count)`, or the loop form with `return Some(..)`) that found nothing"""
        body = zf.body
        if not body.local_ty(0).startswith('std::option::Option<'):
            return []
        sets = []
        ds = [d for d in zf.fd.defs.get(0, []) if not d[2].get('dst', {}).get('p')]
        for kind, bi, x in ds:
            if kind == 'assign' and x['rv']['k'] == 'agg' and x['rv'].get('variant') == 'None':
                sets.append(set(zf.facts_at(bi)))
            elif kind == 'assign' and x['rv']['k'] == 'agg' and x['rv'].get('variant') == 'Some':
                continue
            elif kind == 'call':
                l, call = None, x
                # through copied() / cloned() / map(..) of the search result
                for _ in range(3):
                    if (call.get('callee') or '').endswith(('::copied', '::cloned', 'Option::<T>::map')) and call['args'] and call['args'][0]['k'] in ('copy', 'move'):
                        o = zf._origin_call(call['args'][0]['pl']['l'])
                        if o:
                            call = o[1]
                            continue
                    break
                if (call.get('callee') or '') in ('std::iter::Iterator::find', 'std::iter::Iterator::position') and len(call['args']) == 2 \
                        and call['args'][1]['k'] in ('copy', 'move') and not call['args'][1]['pl'].get('p'):
                    es = zf.elem_sym_of_iter(call['args'][0])
                    ci = zf.fd._closure_info(call['args'][1]['pl']['l'])
                    pf = zf.closure_predicate_facts(ci[0], ci[1], es) if (es is not None and ci is not None) else None
                    if pf is None:
                        return []
                    sets.append(set(pf[1]) | set(zf.facts_at(bi)))
                else:
                    return []
            else:
                return []
        if not sets:
            return []
        common = set.intersection(*sets)
        return sorted([(a, b) for (a, b) in common if self._param_term_ok(zf, a) and self._param_term_ok(zf, b) and not (a[0] is None and b[0] is None)], key=str)

    def _retval(self, zf):
        """parameter terms T with `returned integer <= T` at every return that yields one (plain usize, or the payload of Ok / Some)"""
        body = zf.body
        rty = body.local_ty(0)
        INTS = ('usize', 'u64', 'u32')
        wrapped = rty.startswith(('std::result::Result<usize', 'std::result::Result<u64', 'std::result::Result<u32',
                                  'std::option::Option<usize', 'std::option::Option<u64', 'std::option::Option<u32'))
        if rty not in INTS and not wrapped:
            return []
        rets = []
        for bi, blk in enumerate(body.blocks):
            if blk['cleanup']:
                continue
            for st in blk['stmts']:
                if st['k'] == 'assign' and st['dst']['l'] == 0 and not st['dst'].get('p'):
                    rv = st['rv']
                    if wrapped:
                        if rv['k'] == 'agg' and rv.get('variant') in ('Ok', 'Some') and rv['ops']:
                            rets.append((bi, zf.term_op(rv['ops'][0])))
                        elif rv['k'] == 'agg' and rv.get('variant') in ('Err', 'None'):
                            continue
                        else:
                            return []
                    elif rv['k'] == 'use':
                        rets.append((bi, zf.term_op(rv['op'])))
                    elif rv['k'] == 'binop':
                        rets.append((bi, zf._binop_term(0, rv, bi)))
                    else:
                        return []
            t = blk['term']
            if t['k'] == 'call' and t['dst']['l'] == 0:
                if wrapped and (t.get('callee') or '').endswith('FromResidual::from_residual'):
                    continue
                # `opt.ok_or(e)` / `res.map_err(f)` returned as it is: the integer inside is the payload of `opt`
                if wrapped and (t.get('callee') or '') in ('std::option::Option::<T>::ok_or', 'std::option::Option::<T>::ok_or_else', 'std::result::Result::<T, E>::map_err') \
                        and t['args'] and t['args'][0]['k'] in ('copy', 'move') and not t['args'][0]['pl'].get('p'):
                    pt = zf._payload_term({'l': t['args'][0]['pl']['l'], 'p': [{'k': 'downcast', 'v': 1, 'n': 'Some'}, {'k': 'field', 'n': '0', 'adt': 'std::option::Option::Some'}]})
                    if pt is not None:
                        rets.append((bi, pt))
                        continue
                return []
        if not rets or any(tt is None for _, tt in rets):
            return []
        cands = []
        for k in range(1, body.arg_count + 1):
            ty = body.local_ty(k).lstrip('&').strip()
            if ty in INTS:
                cands.append(('p%d' % k, 0))
            elif ty.startswith(('[', 'std::vec::Vec<')) and not body.local_ty(k).startswith('&mut'):
                cands.append(('len:%s' % body.local_name(k), 0))
        out = [T for T in cands if all(zf.prove_le(tt, T, bi) for bi, tt in rets)]
        return out

    def _post_true_params(self, zf):
        """indexes of `bool` parameters that are true at every Ok / Some return (`fn ensure(cond: bool, ..) -> Result<(), E>`)"""
        body, fd = zf.body, zf.fd
        if not body.local_ty(0).startswith(('std::result::Result', 'std::option::Option')):
            return []
        accept = [bi for bi, blk in enumerate(body.blocks) if not blk['cleanup'] and any(
            s['k'] == 'assign' and s['dst']['l'] == 0 and not s['dst'].get('p') and s['rv']['k'] == 'agg' and s['rv'].get('variant') in ('Ok', 'Some') for s in blk['stmts'])]
        if not accept:
            return []
        out = []
        for k in range(1, body.arg_count + 1):
            if body.local_ty(k) != 'bool':
                continue
            ok = True
            for a in accept:
                dominated = False
                for sb, blk in enumerate(body.blocks):
                    t = blk['term']
                    if blk['cleanup'] or t['k'] != 'switch' or t['discr']['k'] not in ('copy', 'move') or t['discr']['pl'].get('p'):
                        continue
                    dl = t['discr']['pl']['l']
                    for _ in range(3):
                        if dl == k:
                            break
                        d = zf.single_def(dl)
                        if d and d[0] == 'assign' and d[2]['rv']['k'] == 'use' and d[2]['rv']['op']['k'] in ('copy', 'move') and not d[2]['rv']['op']['pl'].get('p'):
                            dl = d[2]['rv']['op']['pl']['l']
                        else:
                            break
                    if dl != k:
                        continue
                    zero_t = [x for v, x in t['targets'] if v == '0']
                    true_edge = t['otherwise'] if zero_t and len(t['targets']) == 1 else None
                    if true_edge is not None and zf._edge_dominates(sb, true_edge, a):
                        dominated = True
                ok = ok and dominated
            if ok:
                out.append(k)
        return out

    def _retelem(self, zf):
        """[(k, T)]: every element e of the returned Vec<usize> satisfies e + k <= T (T over parameter symbols).  The vector must be a local
        created empty whose only mutation is `push`; each pushed value must be bounded at its push site."""
        body, fd = zf.body, zf.fd
        if not body.local_ty(0).startswith('std::vec::Vec<usize'):
            return []
        ds = [d for d in fd.defs.get(0, []) if not d[2].get('dst', {}).get('p')]
        if len(ds) == 1 and ds[0][0] == 'call' and (ds[0][2].get('callee') or '') == 'std::iter::Iterator::collect' and ds[0][2]['args']:
            return self._retelem_of_chain(zf, ds[0][2]['args'][0])
        if len(ds) != 1 or ds[0][0] != 'assign' or ds[0][2]['rv']['k'] != 'use' or ds[0][2]['rv']['op']['k'] not in ('copy', 'move') \
                or ds[0][2]['rv']['op']['pl'].get('p'):
            return []
        root = fd.resolve_place(ds[0][2]['rv']['op']['pl'])[0]
        cr = fd.defs.get(root, [])
        if len(cr) == 1 and cr[0][0] == 'call' and (cr[0][2].get('callee') or '') == 'std::iter::Iterator::collect':
            return self._retelem_of_chain(zf, cr[0][2]['args'][0])
        if len(cr) != 1 or cr[0][0] != 'call' or not (cr[0][2].get('callee') or '').endswith(('Vec::<T>::new', 'Vec::<T>::with_capacity')):
            return []
        pushes = []
        extends = []
        for bi, t in body.calls():
            cal = t.get('callee') or ''
            for ai, a in enumerate(t['args']):
                if a['k'] in ('copy', 'move') and body.local_ty(a['pl']['l']).startswith('&mut ') and fd.resolve_place(a['pl'])[0] == root:
                    if cal == 'std::vec::Vec::<T, A>::push' and ai == 0:
                        pushes.append((bi, t))
                    elif cal in ('std::iter::Extend::extend', 'std::vec::Vec::<T, A>::extend') and ai == 0 and len(t['args']) == 2:
                        extends.append((bi, t))
                    else:
                        return []
        if extends and not pushes:
            # filled from selected elements of a range: all below its end
            sets = [set(self._retelem_of_chain(zf, t['args'][1])) for bi, t in extends]
            common = set.intersection(*sets) if sets else set()
            return sorted(common, key=str)
        if not pushes or extends:
            return []
        cands = set()
        for k in range(1, body.arg_count + 1):
            if body.local_ty(k) in ('usize', 'u64', 'u32'):
                cands.add(('p%d' % k, 0))
        for (bi, t) in pushes:
            for (a, b) in zf.facts_at(bi):
                if self._param_term_ok(zf, b) and b[0] is not None:
                    cands.add(b)
        out = []
        for T in sorted(cands, key=str):
            ok = True
            for (bi, t) in pushes:
                tv = zf.term_op(t['args'][1])
                if tv is None or not zf.prove_le(tadd(tv, 1), T, bi):
                    ok = False
                    break
            if ok:
                out.append((1, T))
        return out

    def _retelem_of_chain(self, zf, op, depth=0):
        """elements collected from `(a..b)` through adaptors that only select or reorder (filter, rev, take, skip ...) are all below b"""
        if op['k'] not in ('copy', 'move') or depth > 10 or op['pl'].get('p'):
            return []
        d = zf.single_def(op['pl']['l'])
        if d is None:
            return []
        kind, bi, x = d
        if kind == 'assign' and not x['dst'].get('p'):
            rv = x['rv']
            if rv['k'] == 'use' and rv['op']['k'] in ('copy', 'move'):
                return self._retelem_of_chain(zf, rv['op'], depth + 1)
            if rv['k'] == 'agg' and rv.get('name') == 'std::ops::Range' and len(rv.get('ops', [])) == 2:
                e = zf.term_op(rv['ops'][1])
                if e is not None and self._param_term_ok(zf, e) and zf.body.local_ty(0).startswith('std::vec::Vec<usize'):
                    return [(1, e)]
            return []
        if kind == 'call' and x['args']:
            cal = x.get('callee') or ''
            if cal in ('std::iter::Iterator::filter', 'std::iter::Iterator::rev', 'std::iter::Iterator::take', 'std::iter::Iterator::skip',
                       'std::iter::Iterator::take_while', 'std::iter::Iterator::skip_while', 'std::iter::IntoIterator::into_iter',
                       'std::iter::Iterator::step_by', 'std::iter::Iterator::peekable', 'std::iter::Iterator::by_ref'):
                return self._retelem_of_chain(zf, x['args'][0], depth + 1)
        return []

    def _retlen_lb(self, zf):
        """lower bound of the length of a returned Vec (field) that is only ever grown inside the function."""
        body, fd = zf.body, zf.fd
        out = {}
        GROW = ('std::vec::Vec::<T, A>::push', 'std::iter::Extend::extend', 'std::vec::Vec::<T, A>::append', 'std::vec::Vec::<T, A>::extend_from_slice')
        # candidate: `_0` is (a move of) a parameter / local whose field is grown
        ds = fd.defs.get(0, [])
        if len(ds) != 1 or ds[0][0] != 'assign' or ds[0][2]['rv']['k'] != 'use' or ds[0][2]['rv']['op']['k'] not in ('copy', 'move'):
            return out
        src = ds[0][2]['rv']['op']['pl']
        root, path = fd.resolve_place(src)
        if not fd.is_param(root) or path:
            return out
        grown = {}
        for bi, t in body.calls():
            cal = t.get('callee') or ''
            for ai, a in enumerate(t['args']):
                if a['k'] in ('copy', 'move') and body.local_ty(a['pl']['l']).startswith('&mut '):
                    r, p = fd.resolve_place(a['pl'])
                    if r == root:
                        if cal in GROW and ai == 0:
                            grown.setdefault(p, True)
                        elif cal in MUTATORS_LEN_PRESERVING or cal in DEREF_CALLS or cal in INDEX_CALLS:
                            pass
                        else:
                            grown[p] = False
        for p, ok in grown.items():
            if ok:
                out[p] = ('len:%s%s' % (body.local_name(root), ''.join('.' + x for x in p)), 0)
        return out

    def call_retlen_lb(self, zf, call, path):
        tgt = local_target(self.eng, call)
        if tgt is None:
            return None
        s = self.summary(tgt)
        if s is None:
            return None
        path = tuple(path)
        t = s['retlen_lb'].get(path)
        if t is not None:
            return self.subst(zf, call, t)
        # the callee may itself return (a tuple/struct containing) the result of another call
        cb = self.prog.bodies[tgt]
        czf = self.zf(tgt)
        for kind, bi, x in czf.fd.defs.get(0, []):
            if kind == 'assign' and x['rv']['k'] == 'agg':
                rv = x['rv']
                ops = rv['ops']
                if rv['ak'] == 'adt' and rv['name'].startswith(('std::result::Result', 'std::option::Option')) and ops and ops[0]['k'] in ('copy', 'move') \
                        and not ops[0]['pl'].get('p'):
                    d = czf.single_def(ops[0]['pl']['l'])
                    if d and d[0] == 'assign' and d[2]['rv']['k'] == 'agg':
                        rv = d[2]['rv']
                        ops = rv['ops']
                    else:
                        continue
                names = [str(i) for i in range(len(ops))] if rv['ak'] == 'tuple' else rv.get('fields', [])
                for nm, o in zip(names, ops):
                    if path and nm == path[0] and o['k'] in ('copy', 'move') and not o['pl'].get('p'):
                        d = czf.single_def(o['pl']['l'])
                        if d and d[0] == 'call':
                            inner = self.call_retlen_lb(czf, d[2], path[1:])
                            if inner is None:
                                inner = self.call_retlen(czf, d[2], path[1:])
                            if inner is not None and self._param_term_ok(czf, inner):
                                return self.subst(zf, call, inner)
        return None

    def _retrel(self, zf):
        """Relational postcondition of a function that hands back integers inside Ok / Some (alone or as members of a tuple):
        {member path: {'term': the member as a term of this body, 'facts': [(t1, t2)]}} where the facts (t1 <= t2) hold at the one place the
        success value is built and mention only parameter symbols and `ret:<path>` (the members).  They are the difference bounds the facts
        at that place entail between those symbols (e.g. `elem:list + 1 <= ret:0` after `if list.iter().any(|&j| j >= M) { return Err }`)."""
        body = zf.body
        if not body.local_ty(0).startswith(('std::result::Result<', 'std::option::Option<')):
            return {}
        oks = [(bi, st['rv']) for bi, st in body.stmts() if st['k'] == 'assign' and st['dst']['l'] == 0 and not st['dst'].get('p')
               and st['rv']['k'] == 'agg' and st['rv'].get('variant') in ('Ok', 'Some')]
        if len(oks) != 1 or not oks[0][1]['ops']:
            return {}
        bi, rv = oks[0]
        comps = {}

        def comp(path, o, depth=0):
            if o['k'] == 'const':
                return
            if o['pl'].get('p'):
                return
            l = o['pl']['l']
            ty = body.local_ty(l)
            if ty.lstrip('&').strip() in ('usize', 'u64', 'u32'):
                comps[path] = zf.term_op(o)
                return
            d = zf.single_def(l)
            if d and d[0] == 'assign' and d[2]['rv']['k'] == 'agg' and d[2]['rv'].get('ak') == 'tuple' and depth < 2:
                for i, o2 in enumerate(d[2]['rv']['ops']):
                    comp(path + (str(i),), o2, depth + 1)
        comp((), rv['ops'][0])
        comps = {k: v for k, v in comps.items() if v is not None and not zf.unstable(v)}
        if not comps:
            return {}
        facts = list(zf.facts_at(bi))
        name = {}
        for path, t in comps.items():
            if t[0] is not None and not self._param_term_ok(zf, t):
                name.setdefault(t[0], 'ret:' + '.'.join(path))
        syms, cons, idx = dbm_build(facts, zf.sym_ub)
        for sy in name:
            idx(sy)
        d = dbm_closure(syms, cons, zf.sym_ub)
        if any(d[k][k] < 0 for k in range(len(syms))):
            return {}
        keep = [sy for sy in syms if sy is not None and (sy in name or self._param_term_ok(zf, (sy, 0)))]
        out_facts = []
        INF = float('inf')
        for a in keep:
            for b in keep + [None]:
                if a == b or (a not in name and b not in name):
                    continue
                for x, y in ((a, b), (b, a)):
                    c = d[syms[x]][syms[y]]
                    if c == INF or abs(c) > 2 ** 40:
                        continue
                    # x - y <= c
                    if x is None and c >= 0:
                        continue      # 0 <= y + c: nothing
                    if y is None and (c >= UMAX or x not in name):
                        continue
                    out_facts.append(((name.get(x, x), 0), (name.get(y, y), c)))
        out = {}
        for path, t in comps.items():
            out[path] = {'term': t, 'sym': name.get(t[0]) if t[0] is not None else None, 'facts': sorted(set(out_facts), key=str), 'block': bi}
        return out

    def _post_lin(self, zf):
        """[(parameter term, ({parameter symbol: coefficient}, constant))]: at every place the success value is built the integer parameter is at
        most that sum of parameter terms (positive coefficients).  From difference bounds against a value that is a sum of parameter terms:
        `(a.len() + b.len() + U).checked_sub(1)?.checked_sub(L)?` succeeded, so L <= len(a) + len(b) + U - 1."""
        body = zf.body
        if not body.local_ty(0).startswith(('std::result::Result', 'std::option::Option')):
            return []
        accept = [bi for bi, st in body.stmts() if st['k'] == 'assign' and st['dst']['l'] == 0 and not st['dst'].get('p') and st['rv']['k'] == 'agg'
                  and st['rv'].get('variant') in ('Ok', 'Some')]
        if len(accept) != 1:
            return []
        sums = [l for (pth, l) in self.sums if pth == body.path]
        if not sums:
            return []
        facts = list(zf.facts_at(accept[0]))
        syms, cons, idx = dbm_build(facts, zf.sym_ub)
        for l in sums:
            idx('v%d' % l)
        d = dbm_closure(syms, cons, zf.sym_ub)
        if any(d[k][k] < 0 for k in range(len(syms))):
            return []
        out = []
        for k in range(1, body.arg_count + 1):
            if body.local_ty(k).lstrip('&').strip() not in ('usize', 'u64', 'u32') or ('p%d' % k) not in syms:
                continue
            for l in sums:
                c = d[syms['p%d' % k]][syms['v%d' % l]]
                if c == float('inf') or abs(c) > 2 ** 40:
                    continue
                lf = linear_form(zf, ('v%d' % l, 0))
                if lf is None or not lf[0] or any(v <= 0 or not self._param_term_ok(zf, (sy, 0)) for sy, v in lf[0].items()) or ('p%d' % k) in lf[0]:
                    continue
                out.append((('p%d' % k, 0), (dict(lf[0]), lf[1] + c)))
        return out

    def _param_term_ok(self, zf, t):
        if t is None:
            return False
        s = t[0]
        if s is None:
            return True
        if s.startswith('p') and s[1:].isdigit():
            return True
        if s.startswith('len:'):
            name = s[4:].split('.')[0]
            return zf.body.param_index(name) is not None
        if s.startswith('elem:'):
            name = s[5:].split('.')[0]
            return zf.body.param_index(name) is not None
        if s.startswith('N:'):
            return True
        return False

    def _retlen(self, zf):
        """length of the returned container (and of its fields) in parameter symbols."""
        body, fd = zf.body, zf.fd
        out = {}
        ds = fd.defs.get(0, [])
        cands = {}
        for kind, bi, x in ds:
            if kind == 'assign' and not x['dst'].get('p'):
                rv = x['rv']
                if rv['k'] == 'use' and rv['op']['k'] in ('copy', 'move'):
                    t = zf.len_of_place(rv['op']['pl'])
                    cands.setdefault((), []).append(t)
                elif rv['k'] == 'agg' and rv['ak'] == 'adt':
                    nm = rv['name']
                    ops = rv['ops']
                    if nm.startswith(('std::result::Result', 'std::option::Option')):
                        if rv['variant'] in ('Ok', 'Some') and ops and ops[0]['k'] in ('copy', 'move'):
                            inner = ops[0]['pl']
                            # Ok(local): local may be an aggregate with fields
                            self._agg_lens(zf, inner, cands)
                    else:
                        for f, o in zip(rv['fields'], ops):
                            if o['k'] in ('copy', 'move'):
                                cands.setdefault((f,), []).append(zf.len_of_place(o['pl']))
                elif rv['k'] == 'agg' and rv['ak'] == 'tuple':
                    for i, o in enumerate(rv['ops']):
                        if o['k'] in ('copy', 'move'):
                            self._agg_lens(zf, o['pl'], cands, prefix=(str(i),))
            elif kind == 'call':
                cal = x.get('callee') or ''
                if 'from_residual' in cal:
                    continue
                rl = self.call_retlen(zf, x, ())
                if rl is None and cal == 'std::iter::Iterator::collect' and x['args']:
                    rl = zf.iter_len(x['args'][0])
                cands.setdefault((), []).append(rl)
                # tail call of a local function returning a struct: the lengths of its fields carry over
                tgt = local_target(self.eng, x)
                if tgt and tgt != body.path:
                    s2 = self.summary(tgt)
                    for p2, t2 in ((s2 or {}).get('retlen') or {}).items():
                        if p2 != ():
                            cands.setdefault(p2, []).append(self.subst(zf, x, t2))
        for path, ts in cands.items():
            ts2 = [t for t in ts]
            if ts2 and all(t is not None and t == ts2[0] for t in ts2) and self._param_term_ok(zf, ts2[0]):
                t0 = ts2[0]
                if t0[0] and t0[0].startswith('len:') and t0[1] == 0:
                    # `len:x` of something that is not a container is meaningless: keep only parameters typed as slices / Vecs
                    nm = t0[0][4:].split('.')
                    k = zf.body.param_index(nm[0])
                    if k is not None and len(nm) == 1 and not zf.body.local_ty(k).lstrip('&').lstrip('mut ').startswith(('[', 'std::vec::Vec<')):
                        continue
                out[path] = t0
        return out

    def _agg_lens(self, zf, pl, cands, prefix=()):
        t = zf.len_of_place(pl)
        cands.setdefault(prefix, []).append(t)
        if pl.get('p'):
            return
        d = zf.single_def(pl['l'])
        if d and d[0] == 'assign' and d[2]['rv']['k'] == 'agg' and d[2]['rv']['ak'] == 'adt':
            rv = d[2]['rv']
            for f, o in zip(rv['fields'], rv['ops']):
                if o['k'] in ('copy', 'move'):
                    cands.setdefault(prefix + (f,), []).append(zf.len_of_place(o['pl']))
        elif d and d[0] == 'call':
            tgt = local_target(self.eng, d[2])
            if tgt:
                s = self.summary(tgt)
                if s:
                    for p, t in s['retlen'].items():
                        cands.setdefault(prefix + p, []).append(self.subst(zf, d[2], t))

    def subst(self, zf, call, t, tgt=None, args=None):
        """callee term (parameter symbols) -> caller term at this call site."""
        if t is None:
            return None
        s, c = t
        if s is None:
            return t
        if tgt is None:
            tgt = local_target(self.eng, call)
        cbody = self.prog.bodies[tgt]
        if args is None:
            args = call['args']
        if s.startswith('elem:'):
            parts = s[5:].split('.')
            k = cbody.param_index(parts[0])
            if k is None or k - 1 >= len(args) or args[k - 1]['k'] not in ('copy', 'move'):
                return None
            pty = cbody.local_ty(k).replace('&mut ', '').lstrip('&').strip()
            if not pty.startswith(('[', 'std::vec::Vec<')):
                # items of an iterator parameter: the elements of the container(s) the caller's iterator runs over
                comps = zf.iter_components(args[k - 1])
                if comps is None:
                    return None
                j = int(parts[1]) if len(parts) == 2 and parts[1].isdigit() else (0 if len(parts) == 1 and len(comps) == 1 else None)
                if j is None or j >= len(comps) or comps[j] is None or len(parts) > 2:
                    return None
                es = zf.elem_sym_of_desc(comps[j])
                return (es, c) if es is not None else None
            if len(parts) > 1:
                return None
            es = zf.elem_sym_of_desc(zf.desc_place(args[k - 1]['pl']))
            return (es, c) if es is not None else None
        if s.startswith('p') and s[1:].isdigit():
            k = int(s[1:])
            if k - 1 < len(args):
                return tadd(zf.term_op(args[k - 1]), c)
            return None
        if s.startswith('len:'):
            parts = s[4:].split('.')
            k = cbody.param_index(parts[0])
            if k is None or k - 1 >= len(args) or args[k - 1]['k'] not in ('copy', 'move'):
                return None
            d = zf.desc_place(args[k - 1]['pl'])
            path = tuple(parts[1:])
            if path:
                fty = self._field_ty(cbody, k, path)
                if d[0] == 'cont':
                    d = ('cont', d[1], d[2] + path, fty)
                elif d[0] == 'call':
                    d = ('callfield', d[1], d[2], path, fty)
                elif d[0] == 'callfield':
                    d = ('callfield', d[1], d[2], d[3] + path, fty)
                else:
                    return None
            return tadd(zf.len_of_desc(d), c)
        if s.startswith('N:'):
            # const generic of the callee: look at the call's const args
            ca = call.get('cargs') or []
            if len(ca) == 1 and ca[0].isdigit():
                return (None, int(ca[0]) + c)
            return None
        return None

    def _field_ty(self, cbody, k, path):
        return 'std::vec::Vec<?>'

    def call_retlen(self, zf, call, path):
        tgt = local_target(self.eng, call)
        if tgt is None:
            return None
        s = self.summary(tgt)
        if s is None:
            return None
        t = s['retlen'].get(tuple(path))
        return self.subst(zf, call, t)

    # ------------------------------------------------------------ sites
    def analyse_sites(self, zf):
        if zf.sites:
            return
        body, fd = zf.body, zf.fd
        reach = body.reachable()
        counter = {}
        zf.prime()
        if zf.cg or zf.overrides:
            reach = self._feasible_blocks(zf, reach)

        def add(site):
            k = (site.kind, site.desc)
            n = counter.get(k, 0)
            counter[k] = n + 1
            if n:
                site.desc = '%s~%d' % (site.desc, n)
            if site.block in body.debug_assert_blocks():
                site.debug_only = True      # part of evaluating a `debug_assert!`
            zf.sites.append(site)

        def opname(o):
            if o['k'] == 'const':
                return str(o.get('int', o.get('disp', 'c')))
            pl = o['pl']
            n = body.local_name(pl['l'])
            if n.startswith('_'):
                # temp: describe by its definition
                d = zf.single_def(pl['l'])
                if d and d[0] == 'assign' and d[2]['rv']['k'] == 'use' and d[2]['rv']['op']['k'] in ('copy', 'move'):
                    return opname(d[2]['rv']['op'])
                if d and d[0] == 'assign' and d[2]['rv']['k'] == 'unop' and d[2]['rv']['op'] == 'PtrMetadata':
                    return 'len(%s)' % opname(d[2]['rv']['a'])
                if d and d[0] == 'call' and (d[2].get('callee') or '') in LEN_CALLS:
                    return 'len(%s)' % opname(d[2]['args'][0])
                if d and d[0] == 'assign' and d[2]['rv']['k'] in ('ref',):
                    return placename(d[2]['rv']['pl'])
                if d and d[0] == 'assign' and d[2]['rv']['k'] == 'binop':
                    return '(%s %s %s)' % (opname(d[2]['rv']['a']), d[2]['rv']['op'].replace('WithOverflow', ''), opname(d[2]['rv']['b']))
                if d and d[0] == 'call':
                    return '%s(..)' % (d[2].get('callee') or '?').split('::')[-1]
                return 'tmp'
            return placename(pl)

        def placename(pl):
            n = body.local_name(pl['l'])
            if n.startswith('_'):
                r, p = fd.resolve_place(pl)
                n = body.local_name(r) + ''.join('.' + x for x in p)
                if n.startswith('_'):
                    d = zf.single_def(pl['l'])
                    if d and d[0] == 'assign' and d[2]['rv']['k'] in ('use',) and d[2]['rv']['op']['k'] in ('copy', 'move'):
                        return placename(d[2]['rv']['op']['pl'])
                    if d and d[0] == 'assign' and d[2]['rv']['k'] in ('ref',):
                        return placename(d[2]['rv']['pl'])
                    n = 'tmp'
                return n
            for p in pl.get('p', []):
                if p['k'] == 'field':
                    n += '.' + p['n']
            return n

        for bi, blk in enumerate(body.blocks):
            if blk['cleanup'] or bi not in reach:
                continue
            t = blk['term']
            if t['k'] == 'assert':
                msg = t['msg']
                ops = t['ops']
                if msg == 'BoundsCheck':
                    ln, ix = zf.term_op(ops[0]), zf.term_op(ops[1])
                    # find the indexed place name: the statement in target block using Index(_ix)
                    add(Site(body.path, bi, 'bounds', '%s[%s]' % (self._indexed_name(zf, t, placename), opname(ops[1])),
                             [(tadd(ix, 1), ln)] if ix is not None and ln is not None else None, t['line'], t.get('span')))
                elif msg.startswith('Overflow(Add') or msg.startswith('Overflow(Mul'):
                    add(Site(body.path, bi, 'overflow', '%s%s%s' % (opname(ops[0]), '+' if 'Add' in msg else '*', opname(ops[1])),
                             None, t['line'], t.get('span'), detail=('arith', msg, ops)))
                elif msg.startswith('Overflow(Sub'):
                    a, b = zf.term_op(ops[0]), zf.term_op(ops[1])
                    add(Site(body.path, bi, 'overflow', '%s-%s' % (opname(ops[0]), opname(ops[1])),
                             [(b, a)] if a is not None and b is not None else None, t['line'], t.get('span')))
                elif msg.startswith('Overflow(Sh'):
                    b = zf.term_op(ops[1])
                    add(Site(body.path, bi, 'overflow', '%s>>%s' % (opname(ops[0]), opname(ops[1])),
                             [(b, (None, 63))] if b is not None else None, t['line'], t.get('span')))
                elif msg in ('DivisionByZero', 'RemainderByZero'):
                    # the operand recorded with the assertion is the dividend; the divisor is what the asserted condition compares with 0
                    d = None
                    c = t.get('cond')
                    if c and c.get('k') in ('copy', 'move') and not c['pl'].get('p'):
                        dc = zf.single_def(c['pl']['l'])
                        if dc and dc[0] == 'assign' and dc[2]['rv']['k'] == 'binop' and dc[2]['rv']['op'] == 'Eq':
                            a_, b_ = dc[2]['rv']['a'], dc[2]['rv']['b']
                            if b_['k'] == 'const' and b_.get('int') == '0':
                                d = zf.term_op(a_)
                            elif a_['k'] == 'const' and a_.get('int') == '0':
                                d = zf.term_op(b_)
                    add(Site(body.path, bi, 'div', '%s/%s' % (msg, opname(ops[0]) if ops else '?'),
                             [((None, 1), d)] if d is not None else None, t['line'], t.get('span')))
                else:
                    add(Site(body.path, bi, 'assert', msg, None, t['line'], t.get('span')))
            elif t['k'] == 'call':
                cal = t.get('callee') or ''
                args = t['args']
                if cal in PANIC_FNS or cal.startswith('core::panicking::'):
                    st_ = Site(body.path, bi, 'panic', self._panic_desc(zf, bi), self._assert_need(zf, bi), t['line'], t.get('span'))
                    # a `debug_assert!`: compiled only into builds with debug assertions
                    st_.debug_only = any(str(m).startswith('debug_assert') for m in (t.get('mac') or []))
                    add(st_)
                elif cal in INDEX_CALLS and len(args) == 2 and args[0]['k'] in ('copy', 'move'):
                    cont = zf.desc_place(args[0]['pl'])
                    ln = zf.len_of_desc(cont)
                    rng = zf._range_arg(args[1])
                    cname = placename(args[0]['pl'])
                    if rng is not None:
                        rk, s, e, rops = rng
                        need = None
                        if rk == 'range':
                            need = [(s, e), (e, ln)] if None not in (s, e, ln) else None
                            d = '%s[%s..%s]' % (cname, opname(rops[0]), opname(rops[1]))
                        elif rk == 'from':
                            need = [(s, ln)] if None not in (s, ln) else None
                            d = '%s[%s..]' % (cname, opname(rops[0]))
                        elif rk == 'to':
                            need = [(e, ln)] if None not in (e, ln) else None
                            d = '%s[..%s]' % (cname, opname(rops[0]))
                        elif rk == 'full':
                            need = []
                            d = '%s[..]' % cname
                        else:
                            d = '%s[incl]' % cname
                        add(Site(body.path, bi, 'range', d, need, t['line'], t.get('span')))
                    else:
                        ix = zf.term_op(args[1])
                        add(Site(body.path, bi, 'bounds', '%s[%s]' % (cname, opname(args[1])),
                                 [(tadd(ix, 1), ln)] if ix is not None and ln is not None else None, t['line'], t.get('span')))
                elif cal in UNWRAP_FNS:
                    add(Site(body.path, bi, 'unwrap', self._unwrap_desc(zf, t, opname), None, t['line'], t.get('span'), detail=t))
                elif cal in CT_UNWRAP:
                    add(Site(body.path, bi, 'ctunwrap', self._unwrap_desc(zf, t, opname), None, t['line'], t.get('span'), detail=t))
                elif cal == 'core::slice::<impl [T]>::copy_from_slice' and len(args) == 2:
                    a = zf.len_of_place(args[0]['pl']) if args[0]['k'] in ('copy', 'move') else None
                    b = zf.len_of_place(args[1]['pl']) if args[1]['k'] in ('copy', 'move') else None
                    add(Site(body.path, bi, 'copylen', 'copy_from_slice(%s,%s)' % (opname(args[0]), opname(args[1])),
                             [(a, b), (b, a)] if a is not None and b is not None else None, t['line'], t.get('span')))
                elif cal in ('core::slice::<impl [T]>::split_at', 'core::slice::<impl [T]>::split_at_mut') and len(args) == 2:
                    ln = zf.len_of_place(args[0]['pl']) if args[0]['k'] in ('copy', 'move') else None
                    m = zf.term_op(args[1])
                    add(Site(body.path, bi, 'split', 'split_at(%s,%s)' % (opname(args[0]), opname(args[1])),
                             [(m, ln)] if m is not None and ln is not None else None, t['line'], t.get('span')))
                elif cal in ('core::slice::<impl [T]>::chunks_exact', 'core::slice::<impl [T]>::chunks') and len(args) == 2:
                    m = zf.term_op(args[1])
                    add(Site(body.path, bi, 'div', 'chunk_size(%s)' % opname(args[1]), [((None, 1), m)] if m is not None else None, t['line'], t.get('span')))
                else:
                    tgt = local_target(self.eng, t)
                    if tgt is not None and tgt != body.path:
                        cgm = self.resolve_cargs(zf, t, tgt) if self.cg_names(tgt) else None
                        summ = self.summary_spec(tgt, cgm) if cgm else self.summary(tgt)
                        if summ is None:
                            continue
                        import audit as _audit
                        for us in (summ.get('unknown') or []) if cgm else []:
                            if (us.origin or us).key() in _audit.AUDIT:
                                continue      # decided (or not) by the audited argument on the generic function
                            # left open even for this instantiation: reported here, at the call that makes the instantiation
                            s = Site(body.path, bi, 'callee', '%s<-%s' % (tgt.split('::')[-1], (us.origin or us).key()), None, t['line'], t.get('span'))
                            s.origin = us.origin or us
                            add(s)
                        for ps in summ['pre']:
                            need = []
                            ok_expr = True
                            for (t1, t2) in ps.pre:
                                a, b = self.subst(zf, t, t1), self.subst(zf, t, t2)
                                if a is None or b is None:
                                    ok_expr = False
                                need.append((a, b))
                            s = Site(body.path, bi, 'callee', '%s<-%s' % (tgt.split('::')[-1], (ps.origin or ps).key()),
                                     need if ok_expr else None, t['line'], t.get('span'))
                            s.origin = ps.origin or ps
                            ex = []
                            for (e1, e2) in getattr(ps, 'pre_extra', None) or []:
                                a, b = self.subst(zf, t, e1), self.subst(zf, t, e2)
                                if a is not None and b is not None:
                                    ex.append((a, b))
                            if ex:
                                s.extra = ex
                            add(s)
        # discharge
        for s in zf.sites:
            self._discharge(zf, s)
        self._specialise_direct_calls(zf)
        self._lift_closure_sites(zf)
        self._judge_generic_sites(zf)

    def _closure_term(self, zf, czf, caps, t, left):
        """a term of a closure body (element parameter, captures, captured containers) in the terms of the body that creates the closure"""
        if t is None:
            return None
        sy, c = t
        if sy is None:
            return t
        if sy[0] == 'p' and sy[1:2].isdigit():
            es = czf.closure_elem_sym(sy)
            return (es, c) if (left and es is not None) else None      # `every element` may only strengthen the left-hand side
        if sy.startswith('cap') and sy[3:].isdigit() and int(sy[3:]) < len(caps):
            return tadd(zf.term_op(caps[int(sy[3:])]), c)
        m = re.match(r'^len:_1\.(\d+)$', sy)
        if m and int(m.group(1)) < len(caps) and caps[int(m.group(1))]['k'] in ('copy', 'move'):
            return tadd(zf.len_of_place(caps[int(m.group(1))]['pl']), c)
        if sy.startswith('N:'):
            if sy[2:] in zf.cg:
                return (None, zf.cg[sy[2:]] + c)
            return t
        return None

    def _specialise_direct_calls(self, zf):
        """a local closure that this body *calls itself* (`let field = |i| &buf[i * W..(i + 1) * W]; field(0)?; field(1)?`): each call site is
        analysed with the literal arguments it passes; what remains unproven there becomes a site of this body at that call."""
        body, fd = zf.body, zf.fd
        CALLS = ('std::ops::Fn::call', 'std::ops::FnMut::call_mut', 'std::ops::FnOnce::call_once')
        by_closure = {}
        for bi, t in body.calls():
            if (t.get('callee') or '') not in CALLS or len(t['args']) != 2 or t['args'][0]['k'] not in ('copy', 'move'):
                continue
            ci = fd._closure_info(fd.resolve_place(t['args'][0]['pl'])[0]) or fd._closure_info(t['args'][0]['pl']['l'])
            if ci is None or ci[0] not in self.prog.bodies:
                continue
            by_closure.setdefault(ci[0], []).append((bi, t, ci[1]))
        for cpath, calls in by_closure.items():
            cbody = self.prog.bodies[cpath]
            czf = self.zf(cpath)
            self.analyse_sites(czf)
            if not any(cs.status == 'unknown' and cs.need for cs in czf.sites) and not any(cs.status == 'unknown' and cs.kind == 'overflow' for cs in czf.sites):
                continue
            # is the closure used in any other way (handed to an adaptor, stored)? then the generic analysis stands
            other_use = False
            for bi, t in body.calls():
                if (t.get('callee') or '') in CALLS:
                    continue
                for a in t['args']:
                    if a['k'] in ('copy', 'move'):
                        c2 = fd._closure_info(a['pl']['l']) if not a['pl'].get('p') else None
                        if c2 and c2[0] == cpath:
                            other_use = True
            if other_use:
                continue
            all_ok = True
            for bi, t, caps in calls:
                ov = {}
                a1 = t['args'][1]
                ops = []
                if a1['k'] in ('copy', 'move') and not a1['pl'].get('p'):
                    d = zf.single_def(a1['pl']['l'])
                    if d and d[0] == 'assign' and d[2]['rv']['k'] == 'agg' and d[2]['rv'].get('ak') == 'tuple':
                        ops = d[2]['rv']['ops']
                for k, o in enumerate(ops):
                    tt = zf.term_op(o)
                    if tt is not None and tt[0] is None:
                        ov[2 + k] = tt
                if not ov:
                    all_ok = False
                    continue
                spec = ZoneFn(self, cbody, overrides=ov)
                self.analyse_sites(spec)
                for cs in spec.sites:
                    if cs.status.startswith('safe'):
                        continue
                    need = []
                    for (a, b) in (cs.need or []):
                        a2, b2 = self._closure_term(zf, spec, caps, a, True), self._closure_term(zf, spec, caps, b, False)
                        if a2 is None or b2 is None:
                            need = None
                            break
                        need.append((a2, b2))
                    if not need:
                        all_ok = False
                        continue
                    s = Site(body.path, bi, 'callee', '%s(%s)<-%s' % (cpath.split('::')[-1], ','.join(str(v[1]) for v in ov.values()), cs.key()), need, t['line'], t.get('span'))
                    s.origin = cs
                    if any(x.kind == s.kind and x.desc == s.desc for x in zf.sites):
                        continue
                    zf.sites.append(s)
                    self._discharge(zf, s)
                    if not s.status.startswith('safe') and s.status != 'pre':
                        all_ok = False
            if all_ok:
                for cs in czf.sites:
                    if cs.status == 'unknown':
                        cs.status = 'pre'
                        cs.pre = list(cs.need or [])

    def _lift_closure_sites(self, zf):
        """an unproven site inside a closure that this body creates and hands to an iterator adaptor (or calls): the requirement, with the
        closure's element parameter read as `every element of the iterated container` and its captures as the captured values, becomes a
        site of this body at the consuming call (proved here, or carried on as a precondition of this function)."""
        for l, rv in list(zf.fd.closure_aggs.items()):
            cpath = rv['name']
            if cpath not in self.prog.bodies or cpath == zf.body.path:
                continue
            czf = self.zf(cpath)
            self.analyse_sites(czf)
            cctx = czf.closure_ctx()
            if cctx is None or cctx[0] is not zf or cctx[3] is None:
                continue
            pzf, cb, caps, (bi, t) = cctx
            import audit as _audit
            for cs in czf.sites:
                if cs.status != 'unknown' or not cs.need:
                    continue
                if cs.key() in _audit.AUDIT:
                    continue      # decided by an audited argument about when the closure runs at all (not expressible as a conjunction of bounds)
                need = []
                for (a, b) in cs.need:
                    a2, b2 = self._closure_term(zf, czf, caps, a, True), self._closure_term(zf, czf, caps, b, False)
                    if a2 is None or b2 is None:
                        need = None
                        break
                    need.append((a2, b2))
                if not need:
                    continue
                s = Site(zf.body.path, bi, 'callee', '%s<-%s' % (cpath.split('::')[-1], cs.key()), need, t['line'], t.get('span'))
                s.origin = cs
                # the closure body runs only if the iteration yields an element: every iterated container is non-empty then
                if (t.get('callee') or '').startswith('std::iter::Iterator::') and t['args']:
                    comps = zf.iter_components(t['args'][0]) or []
                    s.extra = [((None, 1), ln) for ln in (zf.len_of_desc(c) for c in comps if c is not None) if ln is not None]
                if any(x.kind == s.kind and x.desc == s.desc for x in zf.sites):
                    continue
                zf.sites.append(s)
                self._discharge(zf, s)
                cs.status = 'pre'
                cs.pre = list(cs.need)

    def _assert_need(self, zf, bi):
        """an explicit panic whose only way in is the failing side of one integer comparison (assert!, assert_eq!, debug_assert!..):
        the bounds that make the comparison pass, when they are equivalent to it."""
        body = zf.body
        cur, sw = bi, None
        for _ in range(10):
            preds = [p for p in body.pred[cur] if not body.blocks[p]['cleanup']]
            if len(preds) != 1:
                return None
            t = body.blocks[preds[0]]['term']
            if t['k'] == 'switch':
                sw = preds[0]
                break
            if t['k'] not in ('goto', 'call', 'drop'):
                return None
            cur = preds[0]
        if sw is None:
            return None
        t = body.blocks[sw]['term']
        succs = {x for v, x in t['targets']} | ({t['otherwise']} if t.get('otherwise') is not None else set())
        if len(succs) != 2 or len(t['targets']) != 1 or t['targets'][0][0] != '0' or t['discr']['k'] not in ('copy', 'move') or t['discr']['pl'].get('p'):
            return None
        fail_when = (cur == t['otherwise'])          # the condition value that leads to the panic
        if cur not in succs:
            return None
        l = t['discr']['pl']['l']
        for _ in range(4):
            d = zf.single_def(l)
            if not d:
                return None
            if d[0] == 'assign' and d[2]['rv']['k'] == 'unop' and d[2]['rv']['op'] == 'Not' and d[2]['rv']['a']['k'] in ('copy', 'move') \
                    and not d[2]['rv']['a']['pl'].get('p'):
                l = d[2]['rv']['a']['pl']['l']
                fail_when = not fail_when
                continue
            if d[0] == 'assign' and d[2]['rv']['k'] == 'use' and d[2]['rv']['op']['k'] in ('copy', 'move') and not d[2]['rv']['op']['pl'].get('p'):
                l = d[2]['rv']['op']['pl']['l']
                continue
            if d[0] == 'assign' and d[2]['rv']['k'] == 'binop' and d[2]['rv']['op'] in ('Eq', 'Ne', 'Lt', 'Le', 'Gt', 'Ge'):
                rv = d[2]['rv']
                tys = [body.local_ty(o['pl']['l']) for o in (rv['a'], rv['b']) if o['k'] in ('copy', 'move')]
                if any(ty.lstrip('&').strip() not in ('usize', 'u64', 'u32', 'u16', 'u8') for ty in tys if not ty.startswith('(')):
                    return None
                a, b = zf.term_op(rv['a']), zf.term_op(rv['b'])
                if a is None or b is None:
                    return None
                tf, ff = zf._cmp_facts(rv['op'], a, b)
                passing = ff if fail_when else tf
                op = rv['op']
                # `!=` is a conjunction of bounds only against the ends of the range
                is_ne_side = (op == 'Ne' and not fail_when) or (op == 'Eq' and fail_when)
                if is_ne_side and not passing:
                    return None
                return passing or None
            if d[0] == 'call' and (d[2].get('callee') or '').endswith('::is_empty') and d[2]['args'] and d[2]['args'][0]['k'] in ('copy', 'move'):
                ln = zf.len_of_place(d[2]['args'][0]['pl'])
                if ln is None:
                    return None
                return [((None, 1), ln)] if fail_when else [(ln, (None, 0))]
            return None
        return None

    def _indexed_name(self, zf, t, placename):
        body = zf.body
        tb = body.blocks[t['t']]
        ix = t['ops'][1]
        for s in tb['stmts']:
            if s['k'] == 'assign':
                rv = s['rv']
                pls = []
                if rv['k'] in ('use', 'cast') and rv['op']['k'] in ('copy', 'move'):
                    pls.append(rv['op']['pl'])
                if rv['k'] in ('ref',):
                    pls.append(rv['pl'])
                for pl in pls:
                    for p in pl.get('p', []):
                        if p['k'] == 'index' and ix['k'] in ('copy', 'move') and p['l'] == ix['pl']['l']:
                            return placename({'l': pl['l']})
        return '?'

    def _panic_desc(self, zf, bi):
        """describe an explicit panic by the literal message it prints (found in the predecessor chain)."""
        body = zf.body
        seen = set()
        st = [bi]
        msgs = []
        while st and len(seen) < 6:
            b = st.pop()
            if b in seen:
                continue
            seen.add(b)
            blk = body.blocks[b]
            t = blk['term']
            if t['k'] == 'call':
                for a in t['args']:
                    if a['k'] == 'const' and a.get('ty', '').startswith('&') and 'str' in a.get('ty', ''):
                        msgs.append(a.get('disp', ''))
            for s in blk['stmts']:
                if s['k'] == 'assign' and s['rv']['k'] == 'use' and s['rv']['op']['k'] == 'const' and 'str' in s['rv']['op'].get('ty', ''):
                    msgs.append(s['rv']['op'].get('disp', ''))
            if len(body.pred[b]) == 1:
                st.append(body.pred[b][0])
        t = body.blocks[bi]['term']
        nm = (t.get('callee') or '').split('::')[-1]
        return '%s(%s)' % (nm, msgs[0] if msgs else '')

    def _unwrap_desc(self, zf, t, opname):
        a0 = t['args'][0]
        if a0['k'] in ('copy', 'move') and not a0['pl'].get('p'):
            o = zf._origin_call(a0['pl']['l'])
            if o:
                cal = (o[1].get('callee') or '?')
                tg = local_target(self.eng, o[1])
                return '%s(..).unwrap' % (tg or cal).split('::')[-1]
        return 'unwrap(%s)' % opname(a0)

    # ------------------------------------------------------------ discharge
    def _discharge(self, zf, s):
        b = s.block
        body = zf.body
        if s.kind == 'overflow' and s.detail and s.detail[0] == 'arith':
            _, msg, ops = s.detail
            a, bb = zf.term_op(ops[0]), zf.term_op(ops[1])
            ua, ub = zf.upper_bound(a, b), zf.upper_bound(bb, b)
            if 'Add' in msg:
                if ua + ub <= UMAX:
                    s.status = 'safe:interval(%d+%d)' % (ua.bit_length(), ub.bit_length())
                    return
                # as a precondition: a + b <= UMAX  <=>  a <= UMAX - b  (b constant)
                if a is not None and bb is not None and bb[0] is None:
                    s.need = [(a, (None, UMAX - bb[1]))]
                elif a is not None and bb is not None and a[0] is None:
                    s.need = [(bb, (None, UMAX - a[1]))]
                elif a is not None and bb is not None:
                    # both symbolic: a parameter term without a bound of its own must leave room for the other summand's upper bound
                    s.need = None
                    if self._param_term_ok(zf, bb) and ua < UMAX and ub >= UMAX:
                        s.need = [(bb, (None, UMAX - ua))]
                    elif self._param_term_ok(zf, a) and ub < UMAX and ua >= UMAX:
                        s.need = [(a, (None, UMAX - ub))]
            else:
                if ua * ub <= UMAX:
                    s.status = 'safe:interval'
                    return
        if s.kind == 'ctunwrap':
            if self._ct_guarded(zf, s):
                s.status = 'safe:is_none-gate'
                return
        if s.kind == 'unwrap':
            why = self._unwrap_safe(zf, s)
            if why:
                s.status = 'safe:' + why
                return
        if s.need is not None:
            extra = getattr(s, 'extra', ())
            # a lower bound on a quotient x / c is a lower bound on x (k <= x / c  <=>  k * c <= x)
            nn = []
            for (t1, t2) in s.need:
                if t1 is not None and t2 is not None and t1[0] is None and t2[0] is not None and t2[0] in zf.scaled and zf.scaled[t2[0]][0] == 'div':
                    _, x, c, _w = zf.scaled[t2[0]]
                    if x is not None and not zf.unstable(x):
                        nn.append(((None, (t1[1] - t2[1]) * c), x))
                        continue
                nn.append((t1, t2))
            s.need = nn
            if all(zf.prove_le(t1, t2, b, extra=extra) for (t1, t2) in s.need):
                s.status = 'safe:dbm'
                return
            # can it be a precondition? every term in parameter symbols, after using the facts to rewrite nothing
            unproved = [(t1, t2) for (t1, t2) in s.need if not zf.prove_le(t1, t2, b, extra=extra)]
            if all(self._param_term_ok(zf, t1) and self._param_term_ok(zf, t2) for (t1, t2) in unproved) and not zf.body.kind == 'Closure':
                s.status = 'pre'
                s.pre = unproved
                # the assumptions under which the site is reached at all (the closure body runs only for a non-empty list): callers may use them
                s.pre_extra = [(e1, e2) for (e1, e2) in extra if self._param_term_ok(zf, e1) and self._param_term_ok(zf, e2)]
                return
            # try to express through equalities known at the block (e.g. L == len(messages))
            rew = self._rewrite_to_params(zf, unproved, b)
            if rew is not None and zf.body.kind != 'Closure':
                s.status = 'pre'
                s.pre = rew
                return
        s.status = 'unknown'

    def _rewrite_to_params(self, zf, needs, b):
        facts = zf.facts_at(b)
        eqs = {}
        for (t1, t2) in facts:
            if (t2, t1) in facts and t1 is not None and t2 is not None:
                eqs.setdefault(t1[0], []).append((t1, t2))
        self._ub_facts = {}
        for (t1, t2) in facts:
            if t1 is not None and t2 is not None and t1[0] is not None and self._param_term_ok(zf, t2) and not self._param_term_ok(zf, t1):
                self._ub_facts.setdefault(t1[0], []).append((t1, t2))
        out = []
        for (a, c) in needs:
            a2, c2 = self._to_param(zf, a, eqs, left=True), self._to_param(zf, c, eqs)
            if a2 is None or c2 is None:
                return None
            out.append((a2, c2))
        return out

    def _to_param(self, zf, t, eqs, left=False):
        if self._param_term_ok(zf, t):
            return t
        if left and t is not None and t[0] in zf.elem_of:
            cand = (zf.elem_of[t[0]], t[1])       # e <= every-element bound: requiring the bound for all elements is stronger
            if self._param_term_ok(zf, cand):
                return cand
        for (t1, t2) in eqs.get(t[0], []):
            # t1 == t2, t1.sym == t.sym  =>  t = t2 + (t.c - t1.c)
            cand = tadd(t2, t[1] - t1[1])
            if self._param_term_ok(zf, cand):
                return cand
        if left and t is not None:
            # a loop index / local bounded by a parameter term: s + c1 <= U  =>  s + c <= U + (c - c1); requiring the bound for U is stronger
            for (t1, t2) in getattr(self, '_ub_facts', {}).get(t[0], []):
                cand = tadd(t2, t[1] - t1[1])
                if self._param_term_ok(zf, cand):
                    return cand
        return None

    def _ct_guarded(self, zf, s):
        """CtOption::unwrap dominated by the `is_none() == false` (or is_some() == true) edge on the same value."""
        t = s.detail
        body, fd = zf.body, zf.fd
        a0 = t['args'][0]
        if a0['k'] not in ('copy', 'move'):
            return False
        def root_of(pl, depth=0):
            if pl.get('p') or depth > 6:
                return pl['l']
            d = zf.single_def(pl['l'])
            if d and d[0] == 'call' and (d[2].get('callee') or '').endswith('CtOption::<T>::map') and d[2]['args'][0]['k'] in ('copy', 'move'):
                return root_of(d[2]['args'][0]['pl'], depth + 1)
            if d and d[0] == 'assign' and d[2]['rv']['k'] in ('use',) and d[2]['rv']['op']['k'] in ('copy', 'move'):
                return root_of(d[2]['rv']['op']['pl'], depth + 1)
            if d and d[0] == 'assign' and d[2]['rv']['k'] == 'ref':
                return root_of(d[2]['rv']['pl'], depth + 1)
            return pl['l']
        target = root_of(a0['pl'])
        for (sw, succ) in body.control_deps_transitive(s.block) | self._dominating_edges(zf, s.block):
            tt = body.blocks[sw]['term']
            if tt['k'] != 'switch' or tt['discr']['k'] not in ('copy', 'move'):
                continue
            # trace discr -> Into::into / From::from -> is_none(x)
            l = tt['discr']['pl']['l']
            neg = False
            for _ in range(6):
                d = zf.single_def(l)
                if not d:
                    break
                if d[0] == 'call':
                    cal = d[2].get('callee') or ''
                    if cal in ('std::convert::Into::into', 'std::convert::From::from') and d[2]['args'][0]['k'] in ('copy', 'move'):
                        l = d[2]['args'][0]['pl']['l']
                        continue
                    if cal.endswith('CtOption::<T>::is_none') or cal.endswith('CtOption::<T>::is_some'):
                        x = root_of(d[2]['args'][0]['pl']) if d[2]['args'][0]['k'] in ('copy', 'move') else None
                        zero_t = [bb for v, bb in tt['targets'] if v == '0']
                        if x == target and zero_t:
                            on_false = (succ == zero_t[0])
                            if cal.endswith('is_none') and on_false != neg:
                                return True
                            if cal.endswith('is_some') and on_false == neg and succ != zero_t[0]:
                                return True
                    break
                if d[0] == 'assign' and d[2]['rv']['k'] == 'unop' and d[2]['rv']['op'] == 'Not':
                    neg = not neg
                    l = d[2]['rv']['a']['pl']['l']
                    continue
                if d[0] == 'assign' and d[2]['rv']['k'] == 'use' and d[2]['rv']['op']['k'] in ('copy', 'move'):
                    l = d[2]['rv']['op']['pl']['l']
                    continue
                break
        return False

    def _dominating_edges(self, zf, b):
        out = set()
        body = zf.body
        for sw in range(body.n):
            t = body.blocks[sw]['term']
            if t['k'] == 'switch':
                for succ in body.succ[sw]:
                    if zf._edge_dominates(sw, succ, b):
                        out.add((sw, succ))
        return out

    def _initial_len_if_only_mutation(self, zf, popcall):
        """length a Vec had when it was created, if `popcall` is the only call that can change its length and
        it is not inside a loop."""
        fd, body = zf.fd, zf.body
        root, p = fd.resolve_place(popcall['args'][0]['pl'])
        if p:
            return None
        n = 0
        for bi, t in body.calls():
            cal = t.get('callee') or ''
            for a in t['args']:
                if a['k'] in ('copy', 'move') and body.local_ty(a['pl']['l']).startswith('&mut ') and fd.resolve_place(a['pl'])[0] == root:
                    if cal in MUTATORS_LEN_PRESERVING or cal in DEREF_CALLS or cal in INDEX_CALLS:
                        continue
                    n += 1
                    if t is not popcall and not (t.get('line') == popcall.get('line') and cal == popcall.get('callee')):
                        return None
                    if any(bi in blocks for h, blocks in zf.loops):
                        return None
        ds = fd.defs.get(root, [])
        if len(ds) != 1 or n != 1:
            return None
        kind, bi, x = ds[0]
        if kind == 'assign' and x['rv']['k'] == 'use' and x['rv']['op']['k'] in ('copy', 'move'):
            src = x['rv']['op']['pl']
            saved = zf.mut_roots
            zf.mut_roots = saved - {root}
            try:
                dsc = zf.desc_place(src)
                return zf.len_of_desc(dsc)
            finally:
                zf.mut_roots = saved
        if kind == 'call':
            return self.call_retlen(zf, x, ())
        return None

    def _unwrap_safe(self, zf, s):
        t = s.detail
        full = t.get('callee_full') or ''
        if 'std::convert::Infallible' in full:
            return 'infallible'
        a0 = t['args'][0]
        if a0['k'] in ('copy', 'move') and not a0['pl'].get('p'):
            o = zf._origin_call(a0['pl']['l'])
            if o:
                bi, oc = o
                cal = oc.get('callee') or ''
                ocf = oc.get('callee_full') or ''
                if cal in ('std::convert::TryFrom::try_from', 'std::convert::TryInto::try_into'):
                    # slice -> array: succeeds iff lengths agree
                    m = re.search(r'\[[^;\]]+; (\w+)\]', ocf)
                    if m and oc['args'][0]['k'] in ('copy', 'move'):
                        n = m.group(1)
                        ln = zf.len_of_place(oc['args'][0]['pl'])
                        want = (None, int(n)) if n.isdigit() else ((None, zf.cg[n]) if n in zf.cg else ('N:' + n, 0))
                        if ln is not None and zf.prove_le(ln, want, s.block) and zf.prove_le(want, ln, s.block):
                            return 'len==%s' % n
                    if 'Infallible' in ocf:
                        return 'infallible'
                if cal == 'std::vec::Vec::<T, A>::pop' and oc['args'][0]['k'] in ('copy', 'move'):
                    ln = zf.len_of_place(oc['args'][0]['pl'])
                    if ln is not None and zf.prove_le((None, 1), ln, s.block):
                        return 'len>=1'
                    ini = self._initial_len_if_only_mutation(zf, oc)
                    if ini is not None and zf.prove_le((None, 1), ini, s.block):
                        return 'initial-len>=1'
        return None


def _noop():
    pass


def reachable_fns(eng, entries):
    """call-graph closure over resolved local calls and the closures created by visited functions."""
    seen = set()
    st = list(entries)
    parent = {}
    while st:
        p = st.pop()
        if p in seen or p not in eng.prog.bodies:
            continue
        seen.add(p)
        b = eng.prog.bodies[p]
        for bi, t in b.calls():
            tgt = local_target(eng, t)
            if tgt and tgt not in seen:
                parent.setdefault(tgt, p)
                st.append(tgt)
        for cb in eng.prog.closures_of(p):
            if cb.path not in seen:
                parent.setdefault(cb.path, p)
                st.append(cb.path)
    return seen, parent
